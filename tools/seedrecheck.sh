#!/usr/bin/env bash
# Re-runs the own check of an already confirmed seeded change (after the check was strengthened, or the tree repaired)
# and rewrites the "check" entry of its meta.json; the previous result is kept under "check_before_strengthening".
#   tools/seedrecheck.sh <ID> <n> [tier]
set -u
ID="$1"; N="$2"; TIER="${3:-quick}"
V=/verif; OUT="$V/seeded/$ID-$N"
[ -f "$OUT/patch.diff" ] || { echo "no $OUT/patch.diff"; exit 2; }
cd "$V"
det=$("$V/verif" mutant "$OUT/patch.diff" "$ID" "$TIER" 2>&1); rc=$?
sigs=$(echo "$det" | grep "signature:" | sed 's/^ *signature: //' | head -5)
python3 - "$ID" "$N" "$TIER" "$rc" "$sigs" <<'PY'
import json,sys
ID,N,tier,rc,sigs=sys.argv[1:]
p=f"/verif/seeded/{ID}-{N}/meta.json"
m=json.load(open(p))
if not m["check"].get("detected") and "check_before_strengthening" not in m:
    m["check_before_strengthening"]=m["check"]
m["check"]={"command":f"./verif mutant seeded/{ID}-{N}/patch.diff {ID} {tier}","exit_code":int(rc),"detected":int(rc)==1,"signatures":[s for s in sigs.split("\n") if s]}
json.dump(m,open(p,"w"),indent=1)
print(ID,N,"detected" if int(rc)==1 else f"NOT detected (rc={rc})",sigs[:200])
PY
