#!/usr/bin/env python3
"""Prints the markdown table of seeded changes (DESIGN.md §0.9) from seeded/*/meta.json."""
import json,glob,os,re
rows=[]
for f in sorted(glob.glob('/verif/seeded/*/meta.json'), key=lambda p:(p.split('/')[-2].split('-')[0], int(p.split('/')[-2].split('-')[1]))):
    d=json.load(open(f)); name=f.split('/')[-2]
    title=''
    mt=os.path.join(os.path.dirname(f),'title.txt')
    if os.path.exists(mt): title=open(mt).read().strip()
    det=[]
    if d['check']['detected']: det.append(d['property'])
    for k,v in d.get('other_checks',{}).items():
        if v['detected'] and k not in det: det.append(k)
    sigs=d['check']['signatures'][:1]
    for k,v in d.get('other_checks',{}).items():
        if v['detected'] and not sigs: sigs=v['signatures'][:1]
    ok = 'yes' if d['demo']['with_change'].startswith('FAIL') and d['demo']['without_change'].startswith('ok') and d['repository_suite_with_change'].startswith('passes') else 'NO'
    rows.append(f"| {name} | {title} | {ok} | {', '.join(det) if det else '**none**'} | `{(sigs[0] if sigs else '')[:70]}` |")
print("| seeded change | what it does | confirmed (demo fails with / passes without, suite green) | caught by | first signature |")
print("|---|---|---|---|---|")
print("\n".join(rows))
