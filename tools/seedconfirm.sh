#!/usr/bin/env bash
# Confirms one independently written property-breaking change and records it under /verif/seeded/.
#   tools/seedconfirm.sh <ID> <n> <demo-dir-relative-to-repo> <go test -run pattern> [check tier]
# Steps: scratch worktree of /repo (outside /repo and /verif) -> patch applies, builds, full suite passes
# (except the two known always-failing auditlog tests) -> demo fails with the patch and passes without ->
# ./verif mutant <patch> <ID> -> meta.json. The worktree and its build output are removed afterwards.
set -u
SEED_GOFLAGS="${SEED_GOFLAGS:-}"
ID="$1"; N="$2"; DEMODIR="$3"; RUNPAT="$4"; TIER="${5:-quick}"
SRC="${SEED_SRC:-/tmp/seedwt}/$ID/.seed/$N"; N="${SEED_OUTN:-$N}"
[ -f "$SRC/patch.diff" ] || { echo "no $SRC/patch.diff"; exit 2; }
V=/verif; OUT="$V/seeded/$ID-$N"; mkdir -p "$OUT"
WT="/tmp/seedconfirm/$ID-$N"; rm -rf "$WT"; mkdir -p /tmp/seedconfirm
git -C /repo worktree add -q --detach "$WT" HEAD || exit 2
cleanup() { git -C /repo worktree remove --force "$WT" 2>/dev/null; rm -rf "$WT"; }
trap cleanup EXIT
cp "$SRC/patch.diff" "$OUT/patch.diff"
demo="$SRC/demo_test.go"; [ -f "$demo" ] || demo=$(ls "$SRC"/*_test.go "$SRC"/*.go 2>/dev/null | head -1)
cp "$demo" "$OUT/" 2>/dev/null
cp "$SRC/notes.md" "$OUT/notes.md" 2>/dev/null
cd "$WT"
# demo without the change
cp "$demo" "$WT/$DEMODIR/zz_seed_demo_test.go"
without=$(go test $SEED_GOFLAGS -count=1 -run "$RUNPAT" "./$DEMODIR/" 2>&1 | tail -1)
git apply "$SRC/patch.diff" || { echo "patch does not apply"; exit 2; }
go build ./... || { echo "does not build"; exit 2; }
with=$(go test $SEED_GOFLAGS -count=1 -run "$RUNPAT" "./$DEMODIR/" 2>&1 | tail -1)
rm -f "$WT/$DEMODIR/zz_seed_demo_test.go"
suite=$(go test -count=1 -timeout 25m ./... 2>&1 | grep -E "^(FAIL|---)" | grep -v "TestConcurrentWriterFailsOnInit\|TestSerialWriterFailsOnInitForUnexistingFile\|internal/auditlog" )
if [ -n "$suite" ]; then
  # timing-sensitive tests (http, http/e2e) fail under machine load: a package counts as failing only if it fails 3 times in a row
  still=""
  for pkg in $(echo "$suite" | grep "^FAIL" | awk '{print $2}' | sort -u); do
    [ -z "$pkg" ] && continue
    ok=0
    for i in 1 2 3; do if go test -count=1 "$pkg" >/dev/null 2>&1; then ok=1; break; fi; done
    [ $ok -eq 0 ] && still="$still $pkg"
  done
  if [ -z "$still" ]; then suite=""; else suite="packages failing 3 times in a row:$still"; fi
fi
crs=$(cd testing/coreruleset && go test -count=1 -timeout 25m ./... 2>&1 | tail -1)
cd "$V"
det=$("$V/verif" mutant "$OUT/patch.diff" "$ID" "$TIER" 2>&1); rc=$?
sigs=$(echo "$det" | grep "signature:" | sed 's/^ *signature: //' | head -5)
python3 - "$ID" "$N" "$without" "$with" "$suite" "$crs" "$rc" "$sigs" "$DEMODIR" "$RUNPAT" "$TIER" <<'PY'
import json,sys
ID,N,without,with_,suite,crs,rc,sigs,demodir,runpat,tier=sys.argv[1:]
meta={"property":ID,"change":int(N),
 "demo":{"dir":demodir,"run":runpat,"without_change":without,"with_change":with_},
 "repository_suite_with_change":"passes (except the two always-failing auditlog tests)" if not suite.strip() else "FAILS: "+suite[:400],
 "crs_suite_with_change":crs,
 "check":{"command":f"./verif mutant seeded/{ID}-{N}/patch.diff {ID} {tier}","exit_code":int(rc),"detected":int(rc)==1,"signatures":[s for s in sigs.split("\n") if s]}}
json.dump(meta,open(f"/verif/seeded/{ID}-{N}/meta.json","w"),indent=1)
print(json.dumps(meta,indent=1))
PY
