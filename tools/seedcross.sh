#!/usr/bin/env bash
# Runs further checks against an already confirmed seeded change and records the result in its meta.json.
#   tools/seedcross.sh <ID> <n> <CHECK> [tier]
set -u
ID="$1"; N="$2"; CK="$3"; TIER="${4:-quick}"
V=/verif; OUT="$V/seeded/$ID-$N"
[ -f "$OUT/patch.diff" ] || { echo "no $OUT/patch.diff"; exit 2; }
cd "$V"
det=$("$V/verif" mutant "$OUT/patch.diff" "$CK" "$TIER" 2>&1); rc=$?
sigs=$(echo "$det" | grep "signature:" | sed 's/^ *signature: //' | head -5)
python3 - "$ID" "$N" "$CK" "$TIER" "$rc" "$sigs" <<'PY'
import json,sys
ID,N,CK,tier,rc,sigs=sys.argv[1:]
p=f"/verif/seeded/{ID}-{N}/meta.json"
m=json.load(open(p))
m.setdefault("other_checks",{})[CK]={"command":f"./verif mutant seeded/{ID}-{N}/patch.diff {CK} {tier}","exit_code":int(rc),"detected":int(rc)==1,"signatures":[s for s in sigs.split("\n") if s]}
json.dump(m,open(p,"w"),indent=1)
print(ID,N,CK,"detected" if int(rc)==1 else f"NOT detected (rc={rc})",sigs[:200])
PY
