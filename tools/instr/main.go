// Command instr rewrites the current working tree of the coraza module into a
// scratch directory plus a `go build -overlay` file. Nothing under the
// repository is modified.
//
// Three things are produced (DESIGN.md §2.1):
//
//	(a) every file under <verif>/go/<pkg>/ is mapped to
//	    <repo>/internal/verif/<pkg>/ (virtual packages of the coraza module);
//	(b) identifiers that resolve to a fixed list of objects in sync,
//	    sync/atomic, singleflight and os are redirected to the same-named object
//	    of a shim package (the "hooks");
//	(c) every `range X` whose X has map type becomes
//	    `range vrt.MapRange(X, "file:line")` so that the explorer owns the
//	    iteration order.
//
// Line numbers of the rewritten files are unchanged (all edits are in-line and
// the extra imports are appended to the package clause line).
package main

import (
	"bytes"
	"crypto/sha256"
	"encoding/hex"
	"encoding/json"
	"flag"
	"fmt"
	"go/ast"
	"go/importer"
	"go/parser"
	"go/token"
	"go/types"
	"io"
	"os"
	"os/exec"
	"path/filepath"
	"sort"
	"strings"
)

const modPath = "github.com/corazawaf/coraza/v3"
const verifPrefix = modPath + "/internal/verif/"

type listPkg struct {
	ImportPath string
	Dir        string
	GoFiles    []string
	Export     string
	ImportMap  map[string]string
	Standard   bool
	Module     *struct{ Path, Dir string }
	Error      *struct{ Err string }
}

// redirect describes one shimmed standard package.
type redirect struct {
	shim  string          // last path element below internal/verif
	names map[string]bool // objects that are redirected
	only  map[string]bool // if non-nil: module packages in which the redirect applies
}

func set(xs ...string) map[string]bool {
	m := map[string]bool{}
	for _, x := range xs {
		m[x] = true
	}
	return m
}

var osPkgs = set(
	modPath+"/internal/corazawaf",
	modPath+"/internal/bodyprocessors",
	modPath+"/internal/auditlog",
)

var redirects = map[string]redirect{
	"sync":        {shim: "vsync", names: set("Mutex", "RWMutex", "Once", "WaitGroup", "Map", "Pool")},
	"sync/atomic": {shim: "vatomic", names: set("Uint64", "Int64", "Int32", "Uint32", "Bool", "Value")},
	"golang.org/x/sync/singleflight": {shim: "vsingleflight", names: set("Group")},
	"os": {shim: "vos", names: set("File", "CreateTemp", "OpenFile", "Create", "Open", "NewFile", "Remove", "WriteFile", "MkdirAll", "Stdout", "Stderr"), only: osPkgs},
	"log": {shim: "vlog", names: set("Logger", "New"), only: set(modPath + "/internal/auditlog")},
}

type edit struct {
	pos, end int // byte offsets
	text     string
}

func main() {
	repo := flag.String("repo", "/repo", "repository working tree")
	verif := flag.String("verif", "/verif/go", "directory holding the virtual packages")
	out := flag.String("out", "", "scratch output directory")
	tags := flag.String("tags", "verif", "build tags")
	gobin := flag.String("go", "go", "go binary")
	flag.Parse()
	if *out == "" {
		fatal("missing -out")
	}
	must(os.MkdirAll(filepath.Join(*out, "src"), 0o755))

	overlay := map[string]string{}

	// (a) virtual packages
	must(filepath.Walk(*verif, func(p string, fi os.FileInfo, err error) error {
		if err != nil {
			return err
		}
		if fi.IsDir() {
			return nil
		}
		rel, _ := filepath.Rel(*verif, p)
		overlay[filepath.Join(*repo, "internal", "verif", rel)] = p
		return nil
	}))

	// go list without the overlay: the tree as it is.
	pkgs := goList(*gobin, *repo, *tags)
	exports := map[string]string{}
	var mod []*listPkg
	for _, p := range pkgs {
		if p.Export != "" {
			exports[p.ImportPath] = p.Export
		}
		if p.Module != nil && p.Module.Path == modPath && !strings.HasPrefix(p.ImportPath, verifPrefix) {
			if strings.Contains(p.ImportPath, "/generator") || strings.Contains(p.ImportPath, "/e2e") || strings.HasPrefix(p.ImportPath, modPath+"/testing") {
				continue
			}
			if p.Error != nil {
				fatal("package %s: %s", p.ImportPath, p.Error.Err)
			}
			mod = append(mod, p)
		}
	}

	stats := map[string]int{}
	var sites []string
	for _, p := range mod {
		n, s := rewritePackage(p, exports, *repo, *out, overlay, stats)
		_ = n
		sites = append(sites, s...)
	}

	ov := struct{ Replace map[string]string }{overlay}
	b, _ := json.MarshalIndent(ov, "", " ")
	must(os.WriteFile(filepath.Join(*out, "overlay.json"), b, 0o644))
	sort.Strings(sites)
	must(os.WriteFile(filepath.Join(*out, "sites.txt"), []byte(strings.Join(sites, "\n")+"\n"), 0o644))
	fmt.Fprintf(os.Stderr, "instr: packages=%d files_rewritten=%d maprange=%d maprange_exempt=%d redirects=%d\n",
		len(mod), stats["files"], stats["maprange"], stats["exempt"], stats["redirect"])
}

func goList(gobin, repo, tags string) []*listPkg {
	cmd := exec.Command(gobin, "list", "-export", "-deps", "-json", "-tags", tags, "./...")
	cmd.Dir = repo
	var stderr bytes.Buffer
	cmd.Stderr = &stderr
	outp, err := cmd.Output()
	if err != nil {
		fatal("go list failed: %v\n%s", err, stderr.String())
	}
	dec := json.NewDecoder(bytes.NewReader(outp))
	var pkgs []*listPkg
	for {
		var p listPkg
		if err := dec.Decode(&p); err == io.EOF {
			break
		} else if err != nil {
			fatal("go list json: %v", err)
		}
		pkgs = append(pkgs, &p)
	}
	return pkgs
}

func rewritePackage(p *listPkg, exports map[string]string, repo, out string, overlay map[string]string, stats map[string]int) (int, []string) {
	fset := token.NewFileSet()
	var files []*ast.File
	var srcs [][]byte
	var paths []string
	for _, f := range p.GoFiles {
		full := filepath.Join(p.Dir, f)
		src, err := os.ReadFile(full)
		must(err)
		af, err := parser.ParseFile(fset, full, src, parser.ParseComments|parser.SkipObjectResolution)
		if err != nil {
			fatal("parse %s: %v", full, err)
		}
		files = append(files, af)
		srcs = append(srcs, src)
		paths = append(paths, full)
	}
	lookup := func(path string) (io.ReadCloser, error) {
		if m, ok := p.ImportMap[path]; ok {
			path = m
		}
		e, ok := exports[path]
		if !ok {
			return nil, fmt.Errorf("no export data for %s", path)
		}
		return os.Open(e)
	}
	conf := types.Config{Importer: importer.ForCompiler(fset, "gc", lookup)}
	info := &types.Info{
		Uses:  map[*ast.Ident]types.Object{},
		Types: map[ast.Expr]types.TypeAndValue{},
	}
	if _, err := conf.Check(p.ImportPath, fset, files, info); err != nil {
		fatal("type check %s: %v", p.ImportPath, err)
	}

	var sites []string
	total := 0
	for i, af := range files {
		src := srcs[i]
		var edits []edit
		needImports := map[string]string{} // alias -> path
		off := func(pos token.Pos) int { return fset.Position(pos).Offset }

		// count uses per imported package name object, and redirected uses
		uses := map[*types.PkgName]int{}
		redirected := map[*types.PkgName]int{}

		ast.Inspect(af, func(n ast.Node) bool {
			switch x := n.(type) {
			case *ast.RangeStmt:
				tv, ok := info.Types[x.X]
				if !ok {
					return true
				}
				if _, isMap := tv.Type.Underlying().(*types.Map); !isMap {
					return true
				}
				if exemptBody(x) {
					stats["exempt"]++
					return true
				}
				pos := fset.Position(x.Pos())
				rel, _ := filepath.Rel(repo, pos.Filename)
				site := fmt.Sprintf("%s:%d", rel, pos.Line)
				sites = append(sites, site)
				edits = append(edits, edit{off(x.X.Pos()), off(x.X.Pos()), "vrt_.MapRange("})
				edits = append(edits, edit{off(x.X.End()), off(x.X.End()), fmt.Sprintf(", %q)", site)})
				needImports["vrt_"] = verifPrefix + "vrt"
				stats["maprange"]++
			case *ast.SelectorExpr:
				id, ok := x.X.(*ast.Ident)
				if !ok {
					return true
				}
				pn, ok := info.Uses[id].(*types.PkgName)
				if !ok {
					return true
				}
				uses[pn]++
				r, ok := redirects[pn.Imported().Path()]
				if !ok || !r.names[x.Sel.Name] {
					return true
				}
				if r.only != nil && !r.only[p.ImportPath] {
					return true
				}
				alias := r.shim + "_"
				edits = append(edits, edit{off(id.Pos()), off(id.End()), alias})
				needImports[alias] = verifPrefix + r.shim
				redirected[pn]++
				stats["redirect"]++
			}
			return true
		})
		if len(edits) == 0 {
			continue
		}
		// imports that lost all their uses become blank imports
		for pn, n := range uses {
			if redirected[pn] != n {
				continue
			}
			for _, is := range af.Imports {
				if strings.Trim(is.Path.Value, `"`) != pn.Imported().Path() {
					continue
				}
				if is.Name != nil {
					edits = append(edits, edit{off(is.Name.Pos()), off(is.Name.End()), "_"})
				} else {
					edits = append(edits, edit{off(is.Path.Pos()), off(is.Path.Pos()), "_ "})
				}
			}
		}
		// extra imports on the package clause line
		var imp strings.Builder
		aliases := make([]string, 0, len(needImports))
		for a := range needImports {
			aliases = append(aliases, a)
		}
		sort.Strings(aliases)
		for _, a := range aliases {
			fmt.Fprintf(&imp, "; import %s %q", a, needImports[a])
		}
		edits = append(edits, edit{off(af.Name.End()), off(af.Name.End()), imp.String()})

		sort.SliceStable(edits, func(a, b int) bool { return edits[a].pos < edits[b].pos })
		var buf bytes.Buffer
		last := 0
		for _, e := range edits {
			if e.pos < last {
				fatal("overlapping edits in %s", paths[i])
			}
			buf.Write(src[last:e.pos])
			buf.WriteString(e.text)
			last = e.end
		}
		buf.Write(src[last:])
		rel, _ := filepath.Rel(repo, paths[i])
		dst := filepath.Join(out, "src", rel)
		must(os.MkdirAll(filepath.Dir(dst), 0o755))
		must(os.WriteFile(dst, buf.Bytes(), 0o644))
		overlay[paths[i]] = dst
		stats["files"]++
		total++
	}
	return total, sites
}

// exemptBody reports whether the loop body is order-insensitive by
// construction: only delete(m,k) statements, or only `x += e` / `x++`
// statements whose e calls nothing but len.
func exemptBody(r *ast.RangeStmt) bool {
	if len(r.Body.List) == 0 {
		return true
	}
	allDelete, allAccum := true, true
	for _, st := range r.Body.List {
		switch s := st.(type) {
		case *ast.ExprStmt:
			allAccum = false
			c, ok := s.X.(*ast.CallExpr)
			if !ok {
				return false
			}
			id, ok := c.Fun.(*ast.Ident)
			if !ok || id.Name != "delete" {
				return false
			}
		case *ast.AssignStmt:
			allDelete = false
			if s.Tok != token.ADD_ASSIGN || len(s.Rhs) != 1 {
				return false
			}
			if !onlyLenCalls(s.Rhs[0]) {
				return false
			}
		case *ast.IncDecStmt:
			allDelete = false
		default:
			return false
		}
	}
	return allDelete || allAccum
}

func onlyLenCalls(e ast.Expr) bool {
	ok := true
	ast.Inspect(e, func(n ast.Node) bool {
		if c, isCall := n.(*ast.CallExpr); isCall {
			id, isId := c.Fun.(*ast.Ident)
			if !isId || id.Name != "len" {
				ok = false
			}
		}
		return ok
	})
	return ok
}

func must(err error) {
	if err != nil {
		fatal("%v", err)
	}
}

func fatal(f string, a ...any) {
	fmt.Fprintf(os.Stderr, "BUILD-FAILED instr: "+f+"\n", a...)
	os.Exit(2)
}

var _ = sha256.New
var _ = hex.EncodeToString
