#!/usr/bin/env bash
# Runs every registered check's quick (or $1) tier and prints one line per check.
tier="${1:-quick}"
cd "$(dirname "$0")/.."
for id in $(python3 -c "import json; print(' '.join(c['property_id'] for c in json.load(open('MANIFEST.json'))['checks']))"); do
  out=$(./verif check "$id" "$tier" 2>&1); rc=$?
  echo "rc=$rc $(echo "$out" | grep "^$id $tier" | tail -1)"
  if [ $rc -ne 0 ]; then echo "$out" | grep -E "VIOLATION|signature|BROKEN|FAILED" | head -10; fi
done
