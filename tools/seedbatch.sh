#!/usr/bin/env bash
# Confirms every delivered seeded change of a round, P at a time.
#   tools/seedbatch.sh <src-root e.g. /tmp/seedwt3> <first out number e.g. 5> [P] [ID ...]
# For <src>/<ID>/.seed/<n> (n = 1, 2) the result goes to seeded/<ID>-<first+n-1>. The demo's directory is taken from
# its package clause (http / http_test -> http, otherwise the module root), the -run pattern from its Test functions.
set -u
SRC="$1"; FIRST="$2"; P="${3:-4}"; shift 3 2>/dev/null || shift $#
IDS="$*"; [ -z "$IDS" ] && IDS=$(ls "$SRC")
jobs_file=$(mktemp)
for id in $IDS; do
  for n in 1 2; do
    d="$SRC/$id/.seed/$n"; [ -f "$d/patch.diff" ] || continue
    out=$((FIRST + n - 1))
    [ -f "/verif/seeded/$id-$out/meta.json" ] && continue
    demo="$d/demo_test.go"; [ -f "$demo" ] || demo=$(ls "$d"/*_test.go 2>/dev/null | head -1)
    [ -n "$demo" ] || { echo "$id-$n: no demo test file" >&2; continue; }
    pkg=$(grep -m1 '^package ' "$demo" | awk '{print $2}')
    case "$pkg" in http|http_test) dir=http ;; coraza|coraza_test) dir=. ;; *) dir=$(cd /repo && grep -rl --include='*.go' "^package ${pkg%_test}\$" internal experimental 2>/dev/null | head -1 | xargs -r dirname); [ -z "$dir" ] && dir=. ;; esac
    pat="^($(grep -o '^func Test[A-Za-z0-9_]*' "$demo" | sed 's/^func //' | paste -sd'|'))\$"
    echo "$id $n $out $dir $pat" >> "$jobs_file"
  done
done
cat "$jobs_file"
export SEED_SRC="$SRC"
xargs -P "$P" -L 1 bash -c 'SEED_OUTN=$2 /verif/tools/seedconfirm.sh $0 $1 "$3" "$4" > /tmp/seedbatch-$0-$2.log 2>&1; echo "$0-$2 done: $(jq -c "[.demo.without_change,.demo.with_change,.repository_suite_with_change,.check.detected,.check.signatures[0]]" /verif/seeded/$0-$2/meta.json 2>/dev/null | cut -c1-300)"' < "$jobs_file"
rm -f "$jobs_file"
