#!/usr/bin/env python3
"""Regenerates /verif/MANIFEST.json from the table below."""
import json, os
V = os.path.dirname(os.path.dirname(os.path.abspath(__file__)))
props = [json.loads(l)["id"] for l in open(os.path.join(V, "properties.jsonl"))]

checks = {
 "C04": dict(level="exploration", design="§3 C04", engine="mc",
   technique="stateless exhaustive enumeration of map-iteration orders (deviation-bounded DFS over instrumented `range <map>` sites) of the real transaction code, per generated (rule program, request) scenario; oracle = a single outcome per scenario",
   text="Every (program, request) scenario of a generated family is executed on the real engine under every map-iteration order within the deviation bound; interruption, fired rules, per-rule match multisets and TX counters must coincide over all executions. This is the adversarial-scheduler reading of the property: Go's map order is owned by the explorer instead of being sampled by repetition.",
   note="Trusted: the instrumenter redirects every `range` over a map in the coraza module (sites listed in the build's sites.txt); map order and pool reuse are assumed to be the only runtime nondeterminism on the transaction path. Bounded: 2 (quick) / 3 (thorough) order deviations from sorted order, rule programs of <=2 rules over the listed alphabets."),
 "C01": dict(level="exploration", design="§3 C01", engine="mc+secmodel",
   technique="exhaustive enumeration of (rule program, request) pairs over a stated alphabet executed on the real engine and compared with a reference interpreter (secmodel); thorough additionally enumerates map-iteration orders (deviation bound 1)",
   text="All single-rule programs over 8 collections x 7 selector forms x 4 exclusions x 3 transformation lists x 5 operators x negation x multiMatch x 2 phases, plus two-rule and chained programs, against every request of <=2 (name,value) pairs over a small adversarial alphabet (case variants, empty, leading blank, non-UTF-8): fired rules in order and the multiset of (variable,key,value) must equal the model's. Exhaustive within the alphabet, so a missed or phantom match for any combination in it cannot hide.",
   note="Trusted: secmodel (≈350 lines) as the restatement of the property; cases where the documentation is silent are skipped and counted (skipped_unspecified). Outside the alphabet: other operators/transformations (C14/C15), response phases, XML/JSON targets."),
 "C12": dict(level="exploration", design="§3 C12", engine="mc",
   technique="exhaustive enumeration of 2-3 rule programs with shared/prefix/disjoint transformation lists x requests x map orders on the real engine; differential oracle against the same program with per-rule identity transformations (no cache sharing possible) replayed under the same map order",
   text="For every program of the family and every request, under every map order within the bound and on a recycled transaction object, the fired rules and transformed values must equal those of the reference program whose rules cannot share transformation-cache entries. No hand-written expectation is involved.",
   note="Trusted: distinct identity transformations registered through the plugin API give every rule a distinct transformation-chain id. Bounded: 6 transformation lists, 10 target kinds, 5 requests, deviation bound 1 (quick) / 2 (thorough)."),
 "C08": dict(level="exploration", design="§3 C08", engine="flow model",
   technique="exhaustive enumeration of rule programs (3-4 slots x phase x flow/disruptive action x chain, marker placement, engine mode) x all request bit vectors on the real engine, compared with a flow interpreter restating skip/skipAfter/allow/chain semantics",
   text="Every program of the family is driven through all five phases for every subset of matching rules; the exact ordered list of fired rules and the interrupting rule must equal the documented flow semantics (skip counts same-phase rules only, nothing but allow's documented scope survives a phase end, logging phase always runs, allow not enforced in DetectionOnly, starter's disruptive/flow actions only on a completed chain).",
   note="Trusted: the ~100-line flow interpreter in go/c08. Unspecified and not asserted: markers inside a skip window, allow:request in a response phase. Bounded: 3 slots (quick) / 4 slots (thorough), one chain of 2 links per program, one marker name."),
 "C09": dict(level="exploration", design="§3 C09", engine="TX arithmetic model",
   technique="exhaustive enumeration of 1-3 rule programs over an action alphabet (setvar +N/-N/assign/delete/flag/macro key/macro value, capture, msg, severity, chain link actions, multiMatch) x requests with 0..3 matching values, executed on the real engine and compared with an arithmetic reference model of the TX collection",
   text="For every program and request the final TX contents, HIGHEST_SEVERITY, per-match messages, the fired rules and the threshold rule's interruption must equal the model in which each non-disruptive action runs exactly once per matched value, link actions per matched value of the link and the starter's disruptive action once per completed chain.",
   note="Trusted: the reference model in go/c09 (≈150 lines). Evaluation order inside a collection is fixed to sorted-name order by the harness (C04 owns order independence). Not generated: arithmetic on unset / non-numeric operands, macros naming unset variables (documentation silent)."),
 "C02": dict(level="model_checking", design="§3 C02", engine="bfs",
   technique="explicit-state breadth-first search over all sequences of 14 Transaction API calls (depth 5 quick / 7 thorough) per configuration; each state is a call history replayed on a fresh real transaction, deduplicated by a canonical key of public observations; the property's invariants are evaluated on every transition",
   text="For a family of configurations (engine mode x runtime ctl:ruleEngine switch x position and kind of the first and a second disruptive rule x body-limit action) every call sequence a connector could produce up to the depth bound is executed on the real Transaction: first disruptive match interrupts with that rule's id/action/status/data, the interruption is final and reported by every later phase call, no rule of phases 1-4 runs afterwards while logging still does, DetectionOnly never returns or records an interruption (including the body-limit path and after a ctl switch), Off evaluates nothing, each request/response phase at most once.",
   note="Trusted: the state key (all observations the alphabet can influence) merges only states with equal futures. Excluded by the property: calls after Close, concurrent calls on one transaction. Bounded: depth, 4-byte limits, disruptive rules in phases 1-4."),
 "C10": dict(level="model_checking", design="§3 C10", engine="bfs",
   technique="explicit-state breadth-first search over sequences of 13 body-supplying calls (slice writes, readers with and without known length, failing reader) per (side, limit, in-memory limit, action, processor, ctl override) configuration on the real transaction, against an arithmetic reference model checked on every transition",
   text="Every chunking of a position-coded byte stream through every write / read-from entry point, for limits 1..5 with memory and spilled (temp file) buffering, Reject and ProcessPartial: returned (interruption, n, err), reader content, REQUEST_BODY / RESPONSE_BODY, data-error flag and body-phase count must equal the model (refusal exactly when the cumulative size reaches the limit, nothing beyond the limit stored, exactly the first limit bytes inspected once).",
   note="Trusted: the ~60-line arithmetic model. What is supplied after a Reject is outside the property (terminal states). Response bodies are memory-only by design of the library."),
 "C05": dict(level="model_checking", design="§3 C05", engine="history enumeration + deterministic pool shim",
   technique="exhaustive enumeration of predecessor histories (behaviour flags x abandonment point x logging x single/double Close) followed by probe transactions on the forcibly recycled object (sync.Pool replaced by a deterministic LIFO through the instrumenter); differential oracle: same probe on a brand-new WAF and object",
   text="Every predecessor of the family is executed on the real code, its transaction object is forced to be the one the probe receives, and the probe's complete observable outcome (return values, interruption, matched rules, every variable collection through the plugin interface, body readers, audit record) must equal the fresh outcome; readers of the closed predecessor must yield nothing; a double Close must not alias two later transactions.",
   note="Trusted: the pool shim hands out the most recently returned object (verified by the self test that every flag triggers its rule, and by the AllowType mutant). ENV/time/id variables masked. Bounded: <=1 flag (quick) / <=2 flags (thorough) of 34, 11 abandonment points, 3 probes."),
 "C13": dict(level="model_checking", design="§3 C13", engine="bfs",
   technique="explicit-state breadth-first search over histories of WAF build/close operations drawn from a pool of configurations with colliding pattern-cache keys, every live WAF probed after every operation; conformance: stand-alone probe table diffed against a second binary built with -tags coraza.no_memoize",
   text="All histories up to depth 3 (quick) / 5 (thorough) over 13 configurations x {build, close} are executed in one process on the real code; a WAF must behave exactly as when built alone and NewWAF must never fail or panic because of what was built before; the default build's table must equal the cache-less build's table.",
   note="Trusted: memoize.Reset gives a pristine cache between histories; the pool covers every call site that chooses a cache key (pm, pmFromFile, pmFromDataset, restpath, validateNid, rx, regex target keys, ctl target regexes, SecAuditLogRelevantStatus). Histories are not merged (cache content is not publicly observable). Concurrent build/close is C06's subject."),
 "C14": dict(level="exploration", design="§3 C14", engine="enumeration",
   technique="exhaustive enumeration of byte strings (all of length <=2/3 over 256 values; all of length <=6/8 over each transformation's escape alphabet; wildcard, sandwich and long-run families) through all 34 registered transformations called directly, and of transformation lists (<=2 over all names, 3-4 over a sub-alphabet) through real multiMatch rules; oracles = totality, purity (input copy, result stability under pooled reuse), change-flag soundness, standard-library identities",
   text="Within the stated alphabets every truncation of every escape at every offset is tried: no panic, equal results on equal input, input bytes untouched, earlier results not modified by later calls, `unchanged` never reported for a differing output, the property's identities, and for multiMatch the exact set of values the operator sees.",
   note="Trusted: Go standard library for md5/sha1/encodings. Not asserted: decoder output correctness beyond the named identities, case folding on non-ASCII input, outputs when a transformation returns an error."),
 "C18": dict(level="exploration", design="§3 C18", engine="enumeration",
   technique="exhaustive enumeration of handler programs (<=3 / <=5 operations over 13 response operations; <=2 / <=3 over 6 request-side operations) x request bodies around the limits x rule placement/action x body-access / MIME / limit-action settings, served in-process through the real middleware on httptest.ResponseRecorder and on a strict net/http-conformant writer; blocking oracle absolute, pass-through oracle differential against the same program without the middleware",
   text="For every generated handler, body and configuration: interrupted in a request phase => handler not entered, interruption's status, no body; interrupted in a response phase => no handler body byte reaches the client; otherwise the handler reads exactly the client's body and the client receives exactly the handler's status, headers and body.",
   note="Trusted: the strict writer's model of net/http's header-snapshot rules. Not covered: HTTP/2, hijacked connections, trailers, HEAD, real sockets and timing. One open known finding (headers changed after WriteHeader reach the client)."),
 "C15": dict(level="exploration", design="§3 C15", engine="enumeration",
   technique="exhaustive enumeration of (operator, argument, input) triples over tiny adversarial alphabets for every covered built-in operator, evaluated through the real operator factory on a real transaction (and a subset through real rules for negation and TX.0-9), against direct executable definitions (naive substring search with ASCII folding, strconv, net/netip, byte tables, RFC 3629 table, Go regexp)",
   text="For the string, numeric, @pm family, @ipMatch, @validateByteRange, @validateUrlEncoding, @validateUtf8Encoding and @rx operators every argument and input up to the stated lengths is decided and compared with the documented predicate; `!` must be the exact complement; capturing operators must store the matched texts in TX.0-9.",
   note="Trusted: the executable definitions in go/c15 and the Go standard library. Not covered: @detectSQLi/@detectXSS/@rbl/@geoLookup/@inspectFile/@restpath/@validateNid/@validateSchema; readings the documentation leaves open are executed but not asserted (skipped_unspecified). One open known finding in the rsc.io/binaryregexp dependency (captures only)."),
 "C17": dict(level="exploration", design="§3 C17", engine="differential enumeration",
   technique="exhaustive enumeration of exclusion/update directives (configuration-time and run-time ctl forms, single id / list / range / tag / msg, exclusion and addition targets, string and regex keys, action updates, three ctl placements) over a base rule set x all requests of a 27-element family, executed on the real engine; differential oracle against the explicitly rewritten configuration, plus a second transaction on the same WAF for ctl forms",
   text="For each directive of the family and each request the outcome (interruption, fired rules, match data, messages, TX marker) must equal that of the configuration rewritten by hand in structured form; a ctl executed in one transaction must not affect the next transaction on the same WAF.",
   note="Trusted: the structured rewrite rules in go/c17 as the restatement of 'behaves like the rule written with those targets/actions'. Bounded: 5 base rules (one chain, one marker), 3 argument names, 2 values."),
 "C06": dict(level="model_checking", design="§3 C06", engine="sched+mc (-race)",
   technique="stateless model checking of the implementation: controlled cooperative scheduler over every sync/atomic/singleflight/pool operation of coraza (selector-redirected shims) plus a point between API calls, depth-first enumeration of all interleavings up to a preemption bound, each execution run under the Go race detector with a hand-off the detector cannot see; per-thread outcome oracle against sequential runs",
   text="2-3 threads (two transactions on a shared WAF, a thread building/closing a second WAF that shares patterns, first transactions of a freshly built WAF) are explored under every schedule within the preemption bound in the default and the multiphase build: no race report, no deadlock, no panic, every thread's outcome and the audit records equal the sequential outcomes. The engine self-tests in every run (lost update found, unprotected counter reported, mutex-protected counter silent, lock inversion = deadlock).",
   note="Trusted: scheduling points = synchronisation operations of the module + API-call boundaries; code between them is atomic for the scheduler and its unsynchronised accesses are the race detector's job (incidental synchronisation inside fmt/reflect can hide a race in some schedules; pausing threads between API calls is what exposes them). Bounds: preemptions 2-3 (quick) / 3-4 (thorough), 3 threads, one transaction per thread. One open known finding (multiphase build only)."),
 "C03": dict(level="exploration", design="§3 C03", engine="mc + independent encoders",
   technique="exhaustive enumeration of (name,value) lists over a 13-symbol adversarial alphabet encoded by independent encoders into query string, headers, cookies, urlencoded / multipart / JSON / XML bodies under argument-limit, body-access, body-limit and processor settings, executed on the real transaction (under every map order at the populating sites for multi-name cases) and read back through @unconditionalMatch rules and the variable dump",
   text="For every generated case the multiset of (name,value) under each documented variable must equal what was sent (decoded exactly once, nothing merged, dropped or attributed to another name) unless an error variable or interruption says so.",
   note="Trusted: the encoders in go/c03 (independent of coraza's parsers; stdlib mime/multipart and encoding/json as writers). Not asserted: REQUEST_URI when net/url re-encodes, REQUEST_BODY for non-urlencoded bodies, escaped paths. Two open known findings (arguments over SecArgumentsLimit dropped silently; JSON duplicate/flattening-colliding keys keep one value)."),
 "C11": dict(level="exploration", design="§3 C11", engine="differential enumeration",
   technique="exhaustive enumeration of regex ASTs (sizes 1-4 full atom set + size 5 reduced, thorough 1-5 + 6) plus every @rx pattern of the bundled CRS, each against all inputs up to length 3-4 over the pattern's own alphabet plus AST-derived inputs; differential oracle: the real @rx operator factory with RxPreFilterEnabled on vs off (verdict and TX.0-9), repeated through two full WAFs differing only in SecRxPreFilter, in the default and the no_regex_multiline build",
   text="Turning the prefilter on must never change a verdict or a captured group for any enumerated (pattern, input); a build difference (one side rejects a pattern) is a violation too.",
   note="Trusted: nothing beyond the operator with the prefilter off as reference. Not covered: atoms outside the set (lazy quantifiers, \\b, negated classes) except where CRS uses them; cache-key leaks (C13). One open known finding (trie reconstruction joins a prefix to a non-adjacent literal)."),
 "C16": dict(level="exploration", design="§3 C16", engine="enumeration + secmodel signature",
   technique="exhaustive enumeration of structured rule descriptions (target / operator-argument / action-value axes over delimiter-rich alphabets) x equivalent renderings (case, quoting, spacing, continuations at every token boundary, CRLF, comments, Include / nested / glob file splitting, final newline, 70 kB lines) x single-delimiter deletions and duplications; every text compiled by the real parser and characterised by a behavioural signature (rule observer metadata + probe battery) compared with the signature derived from the description",
   text="All renderings of one description must compile to the description's signature; a near-miss text must either be rejected or compile to exactly what a strict reference reader makes of it - never silently to something else or to fewer rules.",
   note="Trusted: the reference reader and signature derivation in go/c16. Not covered: raw double quotes and backslashes in action values, chains, SecDefaultAction, XPath keys. Two open known findings (slash inside a plain key turns it into a regex; an unclosed single quote in the action list only warns)."),
 "C20": dict(level="fault_enumeration", design="§3 C20", engine="mc + vos fault shim",
   technique="exhaustive single-fault (quick) / double-fault (thorough) enumeration over every file-system operation a base transaction performs (the os calls of corazawaf, bodyprocessors and auditlog are selector-redirected to a shim that asks the explorer 'succeed, fail, or short write?'), plus abandonment after every API call; each execution on the real code with private temp/upload/audit directories",
   text="For 24 base transactions (memory / spilled / partial / rejected bodies, multipart uploads under all keep-files modes, malformed bodies, response bodies, interruption in each phase, audit through the real serial and concurrent writers): no panic, every injected failure surfaces as a returned error, an error variable or an Error-level log record, no temp or upload file is left after Close unless retention applies, descriptors return to baseline, and a probe on the recycled object equals the fresh outcome.",
   note="Trusted: fault points = package os operations used by the three packages (a failing operation is not performed). Network audit writers (https, syslog) are not covered."),
}
not_applicable = {}

engines = [
 {"name": "instr", "path": "tools/instr", "serves_properties": props, "kind_free_text": "go/types-based source rewriter producing a go build -overlay: virtual packages, selector redirection to shims (the hooks), map-range order control"},
 {"name": "mc", "path": "go/mc", "serves_properties": ["C01","C03","C04","C06","C09","C12","C19","C20"], "kind_free_text": "stateless deviation-bounded DFS over choice points (map order, pool reuse, injected faults, scheduling decisions) with prefix-replay divergence detection and level-1 sharding"},
 {"name": "sched", "path": "go/sched", "serves_properties": ["C06","C19"], "kind_free_text": "controlled cooperative thread scheduler over the sync shims; race-detector-transparent hand-off; deadlock detection"},
 {"name": "bfs", "path": "go/bfs", "serves_properties": ["C02","C10","C13"], "kind_free_text": "explicit-state breadth-first search over operation histories replayed on fresh real objects"},
 {"name": "secmodel", "path": "go/secmodel", "serves_properties": ["C01"], "kind_free_text": "reference interpreter for the generated SecLang core"},
 {"name": "runner", "path": "go/runner", "serves_properties": props, "kind_free_text": "sharding over worker processes, evidence, known findings, replay files"},
]

m = {
 "version": 1,
 "setup_cmd": "./verif setup",
 "hooks": {
  "guard": "verif",
  "enable": "no source commit is needed: `./verif check` rewrites the *current* tree of /repo with tools/instr into /verif/.work/build/<tree-hash>-<variant>/ (selector redirection of sync, sync/atomic, singleflight, os, log to shim packages + map-range order control) and builds `go build -tags verif -overlay overlay.json ./internal/verif/cmd/harness` inside /repo; /repo itself is never written",
  "baseline_off_cmd": "cd /repo && for m in . ./testing/coreruleset; do (cd $m && go test -json -vet=off -count=1 -timeout 25m ./...); done",
  "source_commits": [],
  "add_only": True,
 },
 "engines": engines,
 "checks": [],
 "not_applicable": [],
 "notes": "All checks: ./verif check <ID> <tier>. Exit 0 held / 1 VIOLATION / 2 check broken (build failure, harness nondeterminism). Replays: ./verif replay <file>. Known findings: known_findings.jsonl. Fix commits in /repo start with 'fix:'.",
}
for pid in props:
    if pid in checks:
        c = checks[pid]
        m["checks"].append({
          "property_id": pid,
          "quick_cmd": f"./verif check {pid} quick",
          "thorough_cmd": f"./verif check {pid} thorough",
          "evidence_file": f"/verif/evidence/{pid}.json",
          "replay_cmd_template": "./verif replay {path}",
          "engine": c["engine"],
          "level_claimed": {"category": c["level"], "text": c["text"], "design_ref": c["design"]},
          "level_note": c["note"],
          "technique": c["technique"],
        })
    else:
        m["not_applicable"].append({"property_id": pid, "reason": not_applicable.get(pid, "check not built yet in this round (planned in DESIGN.md §3); nothing is claimed for it")})
json.dump(m, open(os.path.join(V, "MANIFEST.json"), "w"), indent=1)
print("checks:", [c["property_id"] for c in m["checks"]])
