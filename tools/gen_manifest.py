#!/usr/bin/env python3
"""Regenerates /verif/MANIFEST.json from the table below."""
import json, os
V = os.path.dirname(os.path.dirname(os.path.abspath(__file__)))
props = [json.loads(l)["id"] for l in open(os.path.join(V, "properties.jsonl"))]

checks = {
 "C04": dict(level="exploration", design="§3 C04", engine="mc",
   technique="stateless exhaustive enumeration of map-iteration orders (deviation-bounded DFS over instrumented `range <map>` sites) of the real transaction code, per generated (rule program, request) scenario; oracle = a single outcome per scenario",
   text="Every (program, request) scenario of a generated family is executed on the real engine under every map-iteration order within the deviation bound; interruption, fired rules, per-rule match multisets and TX counters must coincide over all executions. This is the adversarial-scheduler reading of the property: Go's map order is owned by the explorer instead of being sampled by repetition.",
   note="Trusted: the instrumenter redirects every `range` over a map in the coraza module (sites listed in the build's sites.txt); map order and pool reuse are assumed to be the only runtime nondeterminism on the transaction path. Bounded: 2 (quick) / 3 (thorough) order deviations from sorted order, rule programs of <=2 rules over the listed alphabets."),
}
not_applicable = {}

engines = [
 {"name": "instr", "path": "tools/instr", "serves_properties": props, "kind_free_text": "go/types-based source rewriter producing a go build -overlay: virtual packages, selector redirection to shims (the hooks), map-range order control"},
 {"name": "mc", "path": "go/mc", "serves_properties": ["C01","C03","C04","C09","C12","C20"], "kind_free_text": "stateless deviation-bounded DFS over choice points (map order, pool reuse, injected faults) with prefix-replay divergence detection"},
 {"name": "runner", "path": "go/runner", "serves_properties": props, "kind_free_text": "sharding over worker processes, evidence, known findings, replay files"},
]

m = {
 "version": 1,
 "setup_cmd": "./verif setup",
 "hooks": {
  "guard": "verif",
  "enable": "no source commit is needed: `./verif check` rewrites the *current* tree of /repo with tools/instr into /verif/.work/build/<tree-hash>-<variant>/ (selector redirection of sync, sync/atomic, singleflight, os, log to shim packages + map-range order control) and builds `go build -tags verif -overlay overlay.json ./internal/verif/cmd/harness` inside /repo; /repo itself is never written",
  "baseline_off_cmd": "cd /repo && for m in . ./testing/coreruleset; do (cd $m && go test -json -vet=off -count=1 -timeout 25m ./...); done",
  "source_commits": [],
  "add_only": True,
 },
 "engines": engines,
 "checks": [],
 "not_applicable": [],
 "notes": "All checks: ./verif check <ID> <tier>. Exit 0 held / 1 VIOLATION / 2 check broken (build failure, harness nondeterminism). Replays: ./verif replay <file>. Known findings: known_findings.jsonl. Fix commits in /repo start with 'fix:'.",
}
for pid in props:
    if pid in checks:
        c = checks[pid]
        m["checks"].append({
          "property_id": pid,
          "quick_cmd": f"./verif check {pid} quick",
          "thorough_cmd": f"./verif check {pid} thorough",
          "evidence_file": f"/verif/evidence/{pid}.json",
          "replay_cmd_template": "./verif replay {path}",
          "engine": c["engine"],
          "level_claimed": {"category": c["level"], "text": c["text"], "design_ref": c["design"]},
          "level_note": c["note"],
          "technique": c["technique"],
        })
    else:
        m["not_applicable"].append({"property_id": pid, "reason": not_applicable.get(pid, "check not built yet in this round (planned in DESIGN.md §3); nothing is claimed for it")})
json.dump(m, open(os.path.join(V, "MANIFEST.json"), "w"), indent=1)
print("checks:", [c["property_id"] for c in m["checks"]])
