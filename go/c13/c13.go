// Package c13 decides C13: a WAF follows its own configuration only; the
// process-wide pattern cache is invisible (DESIGN.md §3 C13).
package c13

import (
	"encoding/json"
	"fmt"
	"os"
	"os/exec"
	"path/filepath"
	"strings"
	"testing/fstest"
	"time"

	coraza "github.com/corazawaf/coraza/v3"
	"github.com/corazawaf/coraza/v3/internal/memoize"
	"github.com/corazawaf/coraza/v3/internal/verif/bfs"
	"github.com/corazawaf/coraza/v3/internal/verif/probe"
	"github.com/corazawaf/coraza/v3/internal/verif/runner"
	"github.com/corazawaf/coraza/v3/internal/verif/scen"
)

func init() {
	runner.Register(&runner.Check{
		ID:    "C13",
		Level: "model_checking",
		Rule: "pool of " + fmt.Sprint(len(pool)) + " configurations that present equal pattern-cache keys for different things (a word list / a regex target key / a ctl target regex / a REST path / a relevant-status pattern all spelled `foo`; data set `d` with two different contents and a word list spelled `d`; file list.txt under two root file systems with different contents; @rx with prefilter on and off; @validateNid); " +
			"breadth-first search over all histories of build(i) / close(i) operations up to depth 3 (quick); thorough: depth 4 over the whole pool and depth 5 over every two configurations; after every operation every live WAF is probed with 11 requests; " +
			"oracle: each probe equals the probe of the same configuration built alone in a pristine process, and the table of stand-alone probes equals the table produced by a second harness binary built with -tags coraza.no_memoize; NewWAF must never fail or panic because of history",
		Assumptions: []string{
			"a history is the state (no merging of histories: the cache content is not observable through the public API), so states = histories explored",
			"the no_memoize table is produced by the second binary the driver builds from the same tree (VERIF_BIN_nomemoize)",
		},
		Run:    run,
		Replay: replay,
	})
}

type conf struct {
	Name string
	Text string
	Root string // "", "A" or "B": root file system for relative files
}

// the two roots also hold a JSON schema of the same name and the same "$id" with different contents
const schemaLoose = `{"$id": "https://c13.test/schemas/order.json", "type": "object", "properties": {"name": {"type": "string"}}, "required": ["name"]}`
const schemaStrict = `{"$id": "https://c13.test/schemas/order.json", "type": "object", "properties": {"name": {"type": "string"}, "age": {"type": "number"}}, "required": ["name", "age"], "additionalProperties": false}`

var rootA = fstest.MapFS{"list.txt": {Data: []byte("a1\n")}, "api.json": {Data: []byte(schemaLoose)}}
var rootB = fstest.MapFS{"list.txt": {Data: []byte("b2\n")}, "api.json": {Data: []byte(schemaStrict)}}

const schemaRules = hdr + "SecRequestBodyAccess On\nSecRule REQUEST_HEADERS:Content-Type \"@beginsWith application/json\" \"id:3,phase:1,pass,nolog,ctl:requestBodyProcessor=JSON\"\nSecRule TX:json_request_body \"@validateSchema api.json\" \"id:1,phase:2,deny,status:403\"\n"

// one expression in two roles: whatever one operator does to the compiled regexp it shares must not reach the other
const nidExpr = "[0-9]{8}|[0-9]{8}-[0-9k]"

const hdr = "SecRuleEngine On\n"

var pool = []conf{
	{"pm-foo", hdr + "SecRule ARGS \"@pm foo\" \"id:1,phase:1,deny,status:403\"\n", ""},
	{"regexkey-foo", hdr + "SecRule ARGS:/foo/ \"@rx x\" \"id:1,phase:1,deny,status:403\"\n", ""},
	{"ctl-target-regex-foo", hdr + "SecAction \"id:2,phase:1,pass,nolog,ctl:ruleRemoveTargetById=1;ARGS:/foo/\"\nSecRule ARGS \"@rx x\" \"id:1,phase:1,deny,status:403\"\n", ""},
	{"restpath-foo", hdr + "SecRule REQUEST_URI \"@restpath foo\" \"id:1,phase:1,deny,status:403\"\n", ""},
	{"relevantstatus-foo", hdr + "SecAuditLogRelevantStatus foo\nSecRule ARGS \"@streq foo\" \"id:1,phase:1,deny,status:403\"\n", ""},
	{"dataset-d-a1", hdr + "SecDataset d `\na1\n`\nSecRule ARGS \"@pmFromDataset d\" \"id:1,phase:1,deny,status:403\"\n", ""},
	{"dataset-d-b2", hdr + "SecDataset d `\nb2\n`\nSecRule ARGS \"@pmFromDataset d\" \"id:1,phase:1,deny,status:403\"\n", ""},
	// the same phrase list as data set d holds in "dataset-d-a1": the two operators share the compiled automaton
	{"pm-a1", hdr + "SecRule ARGS \"@pm a1\" \"id:1,phase:1,deny,status:403\"\n", ""},
	{"pm-d", hdr + "SecRule ARGS \"@pm d\" \"id:1,phase:1,deny,status:403\"\n", ""},
	{"file-rootA", hdr + "SecRule ARGS \"@pmFromFile list.txt\" \"id:1,phase:1,deny,status:403\"\n", "A"},
	{"file-rootB", hdr + "SecRule ARGS \"@pmFromFile list.txt\" \"id:1,phase:1,deny,status:403\"\n", "B"},
	{"rx-foo-prefilter-on", hdr + "SecRxPreFilter On\nSecRule ARGS \"@rx ^foo\" \"id:1,phase:1,deny,status:403,capture\"\n", ""},
	{"rx-foo-prefilter-off", hdr + "SecRxPreFilter Off\nSecRule ARGS \"@rx ^foo\" \"id:1,phase:1,deny,status:403,capture\"\n", ""},
	// the same exact-match pattern with a group twice in one WAF: the second operator is served from the cache and must still capture TX.1
	{"rx-exact-group-twice", hdr + "SecRxPreFilter On\nSecRule ARGS \"@rx (^foo$)\" \"id:3,phase:1,pass,nolog\"\nSecRule ARGS \"@rx (^foo$)\" \"id:1,phase:1,pass,nolog,capture,setvar:tx.g=%{tx.1}\"\nSecRule TX:g \"@streq foo\" \"id:2,phase:1,deny,status:403\"\n", ""},
	{"schema-rootA-loose", schemaRules, "A"},
	{"schema-rootB-strict", schemaRules, "B"},
	{"nid-us-alternation", hdr + "SecRule ARGS \"@validateNid us " + nidExpr + "\" \"id:1,phase:1,deny,status:403\"\n", ""},
	{"nid-cl-alternation", hdr + "SecRule ARGS \"@validateNid cl " + nidExpr + "\" \"id:1,phase:1,deny,status:403\"\n", ""},
	// one expression, two countries whose check functions disagree on the probes 111111111 (a valid RUT, not an SSN) and 123456780 (the reverse)
	{"nid-us-nine-digits", hdr + "SecRule ARGS \"@validateNid us [0-9]{9}\" \"id:1,phase:1,deny,status:403\"\n", ""},
	{"nid-cl-nine-digits", hdr + "SecRule ARGS \"@validateNid cl [0-9]{9}\" \"id:1,phase:1,deny,status:403\"\n", ""},
	{"nid-foo", hdr + "SecRule ARGS \"@validateNid cl foo\" \"id:1,phase:1,deny,status:403\"\n", ""},
	// the same text split differently into phrases: two words vs one phrase containing a space
	{"pm-two-words", hdr + "SecRule ARGS \"@pm a1 b2\" \"id:1,phase:1,deny,status:403\"\n", ""},
	{"dataset-one-phrase-with-space", hdr + "SecDataset e `\na1 b2\n`\nSecRule ARGS \"@pmFromDataset e\" \"id:1,phase:1,deny,status:403\"\n", ""},
	// the same selector expression, with an upper-case letter, on a case-folding collection and on the ARGS family
	{"headers-regexkey-Foo", hdr + "SecRule REQUEST_HEADERS:/^Foo/ \"@rx x\" \"id:1,phase:1,deny,status:403\"\n", ""},
	{"args-regexkey-Foo", hdr + "SecRule ARGS:/^Foo/ \"@rx x\" \"id:1,phase:1,deny,status:403\"\n", ""},
}

var requests = []scen.Req{
	{URI: "/foo?x=foo"},
	{URI: "/p?x=a1"},
	{URI: "/p?x=b2"},
	{URI: "/p?foo=x&d=1"},
	{URI: "/p?x=food"},
	{URI: "/p?x=a1%20b2"},
	{URI: "/p?foo-a=x"},
	{URI: "/p?y=1", Headers: [][2]string{{"foo-h", "x"}}},
	{URI: "/p?Foo-a=x", Headers: [][2]string{{"Foo-h", "x"}}},
	{URI: "/orders", Headers: [][2]string{{"Content-Type", "application/json"}}, Body: `{"name":"n"}`}, // valid for the loose schema only
	{URI: "/p?x=12345678-1"}, // leftmost-first and leftmost-longest matches of the alternation differ
	{URI: "/p?x=111111111"},
	{URI: "/p?x=123456780"},
}

func buildConf(c conf) (coraza.WAF, error) {
	return scen.Build(c.Text, func(cfg coraza.WAFConfig) coraza.WAFConfig {
		switch c.Root {
		case "A":
			return cfg.WithRootFS(rootA)
		case "B":
			return cfg.WithRootFS(rootB)
		}
		return cfg
	})
}

func probeAll(w coraza.WAF) []string {
	out := make([]string, len(requests))
	for i, r := range requests {
		o := scen.Run(w, r, scen.Options{})
		out[i] = o.Core()
	}
	return out
}

// table returns the probes of every configuration built alone in a pristine cache.
func table() (map[string][]string, error) {
	t := map[string][]string{}
	for _, c := range pool {
		memoize.Reset()
		w, err := buildConf(c)
		if err != nil {
			return nil, fmt.Errorf("configuration %s does not build alone: %v", c.Name, err)
		}
		t[c.Name] = probeAll(w)
		scen.Close(w)
	}
	memoize.Reset()
	return t, nil
}

type kase struct {
	Hist []int `json:"history"` // op < len(pool): build(op); else close(op-len(pool))
}

func opName(op int) string {
	if op < len(pool) {
		return "build(" + pool[op].Name + ")"
	}
	return "close(" + pool[op-len(pool)].Name + ")"
}

func histNames(h []int) []string {
	out := make([]string, len(h))
	for i, op := range h {
		out[i] = opName(op)
	}
	return out
}

// execute replays a history in a pristine cache. Returns false if the last
// operation is not enabled (closing a configuration that is not live, building one twice).
func execute(tab map[string][]string, h []int, report func(sig, text string)) (enabled bool, transitions int) {
	memoize.Reset()
	live := map[int]coraza.WAF{}
	defer func() {
		for _, w := range live {
			scen.Close(w)
		}
		memoize.Reset()
	}()
	for i, op := range h {
		last := i == len(h)-1
		if op < len(pool) {
			if _, ok := live[op]; ok {
				return false, transitions
			}
			var w coraza.WAF
			var err error
			pan := probe.Safe(func() { w, err = buildConf(pool[op]) })
			transitions++
			if pan != "" || err != nil {
				if last {
					msg := pan
					if err != nil {
						msg = err.Error()
					}
					report("build-fails-because-of-history:"+pairClass(h), fmt.Sprintf("NewWAF(%s) fails after this history (it builds fine alone): %s", pool[op].Name, msg))
				}
				return true, transitions
			}
			live[op] = w
		} else {
			j := op - len(pool)
			w, ok := live[j]
			if !ok {
				return false, transitions
			}
			pan := probe.Safe(func() { scen.Close(w) })
			transitions++
			delete(live, j)
			if pan != "" && last {
				report("close-panics:"+pan, "Close panicked: "+pan)
			}
		}
		if !last {
			continue
		}
		for j, w := range live {
			got := probeAll(w)
			want := tab[pool[j].Name]
			for r := range got {
				if got[r] != want[r] {
					report("probe-differs-from-standalone:"+pairClass2(h, j), fmt.Sprintf("WAF %s, request %s:\n--- in this history:\n%s--- built alone:\n%s", pool[j].Name, requests[r].URI, got[r], want[r]))
				}
			}
		}
	}
	return true, transitions
}

// pairClass names the (earlier configuration, failing configuration) pair.
func pairClass(h []int) string {
	lastOp := h[len(h)-1]
	var others []string
	for _, op := range h[:len(h)-1] {
		if op < len(pool) {
			others = append(others, pool[op].Name)
		}
	}
	return fmt.Sprintf("%s after %s", pool[lastOp%len(pool)].Name, strings.Join(others, "+"))
}

func pairClass2(h []int, victim int) string {
	var others []string
	for _, op := range h {
		if op < len(pool) && op != victim {
			others = append(others, pool[op].Name)
		}
	}
	return fmt.Sprintf("%s with %s", pool[victim].Name, strings.Join(others, "+"))
}

// nomemoizeTable asks the second binary (built with coraza.no_memoize) for its table.
func nomemoizeTable(c *runner.Ctx) (map[string][]string, error) {
	bin := os.Getenv("VERIF_BIN_nomemoize")
	if bin == "" {
		return nil, fmt.Errorf("VERIF_BIN_nomemoize not set")
	}
	out := filepath.Join(c.Work, "nomemoize-table.json")
	cmd := exec.Command(bin, "worker", "-check", "C13", "-tier", "table", "-workers", "1", "-worker", "0", "-verif", c.Verif, "-out", out, "-workdir", c.Work, "-variant", "nomemoize")
	if b, err := cmd.CombinedOutput(); err != nil {
		return nil, fmt.Errorf("no_memoize binary failed: %v\n%s", err, b)
	}
	b, err := os.ReadFile(out)
	if err != nil {
		return nil, err
	}
	var res struct {
		Extra struct {
			Table map[string][]string `json:"table"`
		} `json:"extra"`
	}
	if err := json.Unmarshal(b, &res); err != nil {
		return nil, err
	}
	return res.Extra.Table, nil
}

func run(c *runner.Ctx) {
	tab, err := table()
	if c.Tier == "table" {
		// sub-invocation in the no_memoize binary
		if err != nil {
			panic(err)
		}
		c.Extra("table", tab)
		c.Distinct("table")
		c.Distinct("table2")
		return
	}
	if err != nil {
		c.Violation("standalone-build-fails", err.Error(), kase{})
		return
	}
	if c.Worker == 0 {
		nm, err := nomemoizeTable(c)
		if err != nil {
			panic("C13: " + err.Error())
		}
		rows := 0
		for name, want := range nm {
			for r := range want {
				rows++
				if tab[name][r] != want[r] {
					c.Violation("differs-from-no_memoize-build:"+name, fmt.Sprintf("configuration %s, request %s:\n--- default build:\n%s--- coraza.no_memoize build:\n%s", name, requests[r].URI, tab[name][r], want[r]), kase{})
				}
			}
		}
		c.Count("probe_rows_diffed_against_no_memoize", int64(rows))
		c.Sample(map[string]any{"standalone_table_row": map[string]any{"configuration": pool[0].Text, "probes": tab[pool[0].Name]}})
	}
	depth := 3
	if c.Thorough() {
		depth = 5
	}
	nOps := 2 * len(pool)
	// shard on the first operation
	idx := 0
	res := bfs.Search(nOps, depth, 0, func(h []int) (string, bool) {
		if len(h) == 0 {
			return "", true
		}
		if len(h) >= 1 && !c.Mine(h[0]) {
			return fmt.Sprint(h), false
		}
		if len(h) > 4 {
			// thorough: every history of 4 operations over the whole pool, and the histories of 5 over any two configurations
			seen := map[int]bool{}
			for _, op := range h {
				seen[op%len(pool)] = true
			}
			if len(seen) > 2 {
				return fmt.Sprint(h), false
			}
		}
		stopWatch := c.Watch("build-close-history", kase{Hist: append([]int{}, h...)}, 2*time.Minute)
		defer stopWatch()
		if c.Expired() {
			return fmt.Sprint(h), false
		}
		idx++
		enabled, tr := execute(tab, h, func(sig, text string) {
			// shrink the history greedily so that the signature names the culprit configurations only
			small := append([]int{}, h...)
			kind := strings.SplitN(sig, ":", 2)[0]
			for i := 0; i < len(small) && len(small) > 1; {
				cand := append(append([]int{}, small[:i]...), small[i+1:]...)
				still := false
				var s2, t2 string
				execute(tab, cand, func(sg, tx string) {
					if strings.SplitN(sg, ":", 2)[0] == kind && !still {
						still, s2, t2 = true, sg, tx
					}
				})
				if still {
					small, sig, text = cand, s2, t2
				} else {
					i++
				}
			}
			c.Violation(sig, fmt.Sprintf("history: %v\n%s", histNames(small), text), kase{small})
		})
		if !enabled {
			return fmt.Sprint(h), false
		}
		c.Count("transitions", int64(tr))
		c.Count("evaluations", 1)
		c.Count("traces_validated_against_impl", 1)
		c.Count("states", 1)
		c.Distinct(fmt.Sprint(h))
		if c.WantSample() && len(h) == depth {
			c.Sample(map[string]any{"history": histNames(h)})
		}
		return fmt.Sprint(h), true
	})
	_ = res
	c.Extra("depth_bound", depth)
	for _, rows := range tab {
		for _, r := range rows {
			c.Outcome(r)
		}
	}
}

func replay(raw json.RawMessage) (bool, string) {
	var k kase
	if err := json.Unmarshal(raw, &k); err != nil {
		return false, err.Error()
	}
	tab, err := table()
	if err != nil {
		return true, err.Error()
	}
	if len(k.Hist) == 0 {
		return false, "table-level finding (compare builds); re-run the check"
	}
	var sb strings.Builder
	viol := false
	fmt.Fprintf(&sb, "history: %v\n", histNames(k.Hist))
	execute(tab, k.Hist, func(sig, text string) {
		viol = true
		fmt.Fprintf(&sb, "VIOLATED %s\n%s\n", sig, text)
	})
	return viol, sb.String()
}
