// Package vatomic shadows the sync/atomic types coraza uses: a scheduling
// point, then the real atomic.
package vatomic

import (
	"sync/atomic"

	"github.com/corazawaf/coraza/v3/internal/verif/vrt"
)

func y(l string) {
	if s := vrt.Scheduler; s != nil {
		s.Yield(l)
	}
}

type Uint64 struct{ v atomic.Uint64 }

func (x *Uint64) Load() uint64           { y("atomic.Load"); return x.v.Load() }
func (x *Uint64) Store(n uint64)         { y("atomic.Store"); x.v.Store(n) }
func (x *Uint64) Add(n uint64) uint64    { y("atomic.Add"); return x.v.Add(n) }
func (x *Uint64) Swap(n uint64) uint64   { y("atomic.Swap"); return x.v.Swap(n) }
func (x *Uint64) CompareAndSwap(o, n uint64) bool {
	y("atomic.CAS")
	return x.v.CompareAndSwap(o, n)
}

type Int64 struct{ v atomic.Int64 }

func (x *Int64) Load() int64         { y("atomic.Load"); return x.v.Load() }
func (x *Int64) Store(n int64)       { y("atomic.Store"); x.v.Store(n) }
func (x *Int64) Add(n int64) int64   { y("atomic.Add"); return x.v.Add(n) }
func (x *Int64) Swap(n int64) int64  { y("atomic.Swap"); return x.v.Swap(n) }
func (x *Int64) CompareAndSwap(o, n int64) bool {
	y("atomic.CAS")
	return x.v.CompareAndSwap(o, n)
}

type Int32 struct{ v atomic.Int32 }

func (x *Int32) Load() int32         { y("atomic.Load"); return x.v.Load() }
func (x *Int32) Store(n int32)       { y("atomic.Store"); x.v.Store(n) }
func (x *Int32) Add(n int32) int32   { y("atomic.Add"); return x.v.Add(n) }
func (x *Int32) Swap(n int32) int32  { y("atomic.Swap"); return x.v.Swap(n) }
func (x *Int32) CompareAndSwap(o, n int32) bool {
	y("atomic.CAS")
	return x.v.CompareAndSwap(o, n)
}

type Uint32 struct{ v atomic.Uint32 }

func (x *Uint32) Load() uint32          { y("atomic.Load"); return x.v.Load() }
func (x *Uint32) Store(n uint32)        { y("atomic.Store"); x.v.Store(n) }
func (x *Uint32) Add(n uint32) uint32   { y("atomic.Add"); return x.v.Add(n) }
func (x *Uint32) Swap(n uint32) uint32  { y("atomic.Swap"); return x.v.Swap(n) }
func (x *Uint32) CompareAndSwap(o, n uint32) bool {
	y("atomic.CAS")
	return x.v.CompareAndSwap(o, n)
}

type Bool struct{ v atomic.Bool }

func (x *Bool) Load() bool        { y("atomic.Load"); return x.v.Load() }
func (x *Bool) Store(n bool)      { y("atomic.Store"); x.v.Store(n) }
func (x *Bool) Swap(n bool) bool  { y("atomic.Swap"); return x.v.Swap(n) }
func (x *Bool) CompareAndSwap(o, n bool) bool {
	y("atomic.CAS")
	return x.v.CompareAndSwap(o, n)
}

type Value struct{ v atomic.Value }

func (x *Value) Load() any          { y("atomic.Load"); return x.v.Load() }
func (x *Value) Store(n any)        { y("atomic.Store"); x.v.Store(n) }
func (x *Value) Swap(n any) any     { y("atomic.Swap"); return x.v.Swap(n) }
func (x *Value) CompareAndSwap(o, n any) bool {
	y("atomic.CAS")
	return x.v.CompareAndSwap(o, n)
}
