package c18

import (
	"fmt"
	"io"
	"strings"

	coraza "github.com/corazawaf/coraza/v3"
	"github.com/corazawaf/coraza/v3/types"
)

// Rule is the single disruptive rule of a configuration (Phase 0 = none).
type Rule struct {
	Phase  int    `json:"phase"`
	Action string `json:"action,omitempty"` // deny | redirect | drop
}

// Conf is the WAF configuration of a scenario.
type Conf struct {
	Rule       Rule   `json:"rule"`
	ReqAccess  bool   `json:"req_access"`
	ReqLimit   int    `json:"req_limit"`
	ReqAction  string `json:"req_action"`        // Reject | ProcessPartial
	ReqMem     int    `json:"req_mem,omitempty"` // SecRequestBodyInMemoryLimit, 0 = not set
	RespAccess bool   `json:"resp_access"`
	RespLimit  int    `json:"resp_limit"`
	RespAction string `json:"resp_action"`
	Mime       string `json:"mime"` // SecResponseBodyMimeType
	// DetOnly: "directive" = SecRuleEngine DetectionOnly (NewWAF then turns Reject into ProcessPartial), "ctl" = SecRuleEngine On and
	// ctl:ruleEngine=DetectionOnly in phase 1 (Reject stays): limits and rules only record, nothing may interrupt
	DetOnly string `json:"detection_only,omitempty"`
	// RespCtl: a phase-3 rule switches response body access on (ctl:responseBodyAccess=On)
	RespCtl bool `json:"resp_ctl,omitempty"`
}

const (
	denyStatus     = 418
	redirectStatus = 302
)

func onOff(b bool) string {
	if b {
		return "On"
	}
	return "Off"
}

// Directives renders the configuration.
func (c Conf) Directives() string {
	var sb strings.Builder
	switch c.DetOnly {
	case "directive":
		sb.WriteString("SecRuleEngine DetectionOnly\n")
	case "ctl":
		sb.WriteString("SecRuleEngine On\nSecAction \"id:9,phase:1,pass,nolog,ctl:ruleEngine=DetectionOnly\"\n")
	default:
		sb.WriteString("SecRuleEngine On\n")
	}
	fmt.Fprintf(&sb, "SecRequestBodyAccess %s\n", onOff(c.ReqAccess))
	fmt.Fprintf(&sb, "SecRequestBodyLimit %d\n", c.ReqLimit)
	fmt.Fprintf(&sb, "SecRequestBodyLimitAction %s\n", c.ReqAction)
	if c.ReqMem > 0 {
		fmt.Fprintf(&sb, "SecRequestBodyInMemoryLimit %d\n", c.ReqMem)
	}
	fmt.Fprintf(&sb, "SecResponseBodyAccess %s\n", onOff(c.RespAccess))
	fmt.Fprintf(&sb, "SecResponseBodyLimit %d\n", c.RespLimit)
	fmt.Fprintf(&sb, "SecResponseBodyLimitAction %s\n", c.RespAction)
	fmt.Fprintf(&sb, "SecResponseBodyMimeType %s\n", c.Mime)
	if c.RespCtl {
		// response body access is switched on by a phase-3 rule, after the handler's WriteHeader reached the middleware
		sb.WriteString("SecAction \"id:8,phase:3,pass,nolog,ctl:responseBodyAccess=On\"\n")
	}
	switch c.Rule.Action {
	case "":
	case "deny":
		fmt.Fprintf(&sb, "SecAction \"id:1,phase:%d,deny,status:%d,nolog\"\n", c.Rule.Phase, denyStatus)
	case "redirect":
		fmt.Fprintf(&sb, "SecAction \"id:1,phase:%d,redirect:http://r.test/,status:%d,nolog\"\n", c.Rule.Phase, redirectStatus)
	case "drop":
		fmt.Fprintf(&sb, "SecAction \"id:1,phase:%d,drop,nolog\"\n", c.Rule.Phase)
	default:
		panic("rule action " + c.Rule.Action)
	}
	return sb.String()
}

// Trace is what the transaction told the middleware.
type Trace struct {
	Stage  string `json:"stage,omitempty"`  // call that first returned an interruption: P1 RRB P2 P3 WRB P4 (END: none did, yet the transaction ended interrupted)
	Action string `json:"action,omitempty"` // of that interruption
	Status int    `json:"status,omitempty"`
	RuleID int    `json:"rule_id,omitempty"`
	Final  string `json:"final,omitempty"` // tx.Interruption() when ProcessLogging was called
	Errs   string `json:"errs,omitempty"`  // errors returned by transaction calls
	Calls  string `json:"calls,omitempty"` // sequence of traced calls
}

func (t *Trace) requestStage() bool {
	return t.Stage == "P1" || t.Stage == "RRB" || t.Stage == "WRQ" || t.Stage == "P2"
}
func (t *Trace) responseStage() bool {
	return t.Stage == "P3" || t.Stage == "WRB" || t.Stage == "RRS" || t.Stage == "P4"
}

func itrText(it *types.Interruption) string {
	if it == nil {
		return ""
	}
	return fmt.Sprintf("%s/%d/rule%d", it.Action, it.Status, it.RuleID)
}

// tracingWAF hands out transactions whose phase calls are recorded. It does
// not implement experimental.WAFWithOptions, so the middleware uses
// NewTransaction.
type tracingWAF struct {
	coraza.WAF
	last *tracedTx
}

func (w *tracingWAF) NewTransaction() types.Transaction {
	t := &tracedTx{Transaction: w.WAF.NewTransaction()}
	w.last = t
	return t
}

func (w *tracingWAF) NewTransactionWithID(id string) types.Transaction {
	t := &tracedTx{Transaction: w.WAF.NewTransactionWithID(id)}
	w.last = t
	return t
}

type tracedTx struct {
	types.Transaction
	tr Trace
}

func (t *tracedTx) note(stage string, it *types.Interruption, err error) {
	t.tr.Calls += stage + " "
	if err != nil {
		t.tr.Errs += stage + ":" + err.Error() + ";"
	}
	if it != nil && t.tr.Stage == "" {
		t.tr.Stage = stage
		t.tr.Action = it.Action
		t.tr.Status = it.Status
		t.tr.RuleID = it.RuleID
	}
}

func (t *tracedTx) ProcessRequestHeaders() *types.Interruption {
	it := t.Transaction.ProcessRequestHeaders()
	t.note("P1", it, nil)
	return it
}

func (t *tracedTx) ReadRequestBodyFrom(r io.Reader) (*types.Interruption, int, error) {
	it, n, err := t.Transaction.ReadRequestBodyFrom(r)
	t.note("RRB", it, err)
	return it, n, err
}

func (t *tracedTx) WriteRequestBody(b []byte) (*types.Interruption, int, error) {
	it, n, err := t.Transaction.WriteRequestBody(b)
	t.note("WRQ", it, err)
	return it, n, err
}

func (t *tracedTx) ProcessRequestBody() (*types.Interruption, error) {
	it, err := t.Transaction.ProcessRequestBody()
	t.note("P2", it, err)
	return it, err
}

func (t *tracedTx) ProcessResponseHeaders(code int, proto string) *types.Interruption {
	it := t.Transaction.ProcessResponseHeaders(code, proto)
	t.note("P3", it, nil)
	return it
}

func (t *tracedTx) WriteResponseBody(b []byte) (*types.Interruption, int, error) {
	it, n, err := t.Transaction.WriteResponseBody(b)
	t.note("WRB", it, err)
	return it, n, err
}

func (t *tracedTx) ReadResponseBodyFrom(r io.Reader) (*types.Interruption, int, error) {
	it, n, err := t.Transaction.ReadResponseBodyFrom(r)
	t.note("RRS", it, err)
	return it, n, err
}

func (t *tracedTx) ProcessResponseBody() (*types.Interruption, error) {
	it, err := t.Transaction.ProcessResponseBody()
	t.note("P4", it, err)
	return it, err
}

func (t *tracedTx) RequestBodyReader() (io.Reader, error) {
	r, err := t.Transaction.RequestBodyReader()
	if err != nil {
		t.tr.Errs += "RequestBodyReader:" + err.Error() + ";"
	}
	return r, err
}

func (t *tracedTx) ResponseBodyReader() (io.Reader, error) {
	r, err := t.Transaction.ResponseBodyReader()
	if err != nil {
		t.tr.Errs += "ResponseBodyReader:" + err.Error() + ";"
	}
	return r, err
}

func (t *tracedTx) ProcessLogging() {
	it := t.Transaction.Interruption()
	t.tr.Final = itrText(it)
	if it != nil && t.tr.Stage == "" {
		// interrupted, but no phase call reported it to the middleware
		t.note("END", it, nil)
	}
	t.Transaction.ProcessLogging()
}

func (t *tracedTx) Close() error {
	err := t.Transaction.Close()
	if err != nil {
		t.tr.Errs += "Close:" + err.Error() + ";"
	}
	return err
}
