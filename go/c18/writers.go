package c18

import (
	"fmt"
	"io"
	"net/http"
	"net/http/httptest"
	"sort"
	"strconv"
	"strings"
)

// Client is what the client side of one exchange received.
type Client struct {
	Status  int      `json:"status"`
	Infos   []string `json:"infos,omitempty"` // 1xx responses, in order: "103 {headers}"
	Header  string   `json:"header"`          // canonical text of the header block sent with the final status
	Body    string   `json:"body"`
	Flushes []int    `json:"flushes,omitempty"` // body length at each Flush that reached the wire (informative only)
}

func canonHeader(h http.Header) string {
	keys := make([]string, 0, len(h))
	for k := range h {
		keys = append(keys, k)
	}
	sort.Strings(keys)
	var sb strings.Builder
	for _, k := range keys {
		if len(h[k]) == 0 {
			continue
		}
		fmt.Fprintf(&sb, "%s=%s;", k, strings.Join(h[k], ","))
	}
	return sb.String()
}

// strictWriter is an in-process http.ResponseWriter that follows the rules of
// net/http's server-side response (server.go, go1.25) for everything a handler
// can observe or influence without a socket:
//
//   - Header() is a live map; the header block that goes to the client is a
//     snapshot taken at the first non-informational WriteHeader (explicit, or
//     implicit through Write / Flush / ReadFrom / end of handler); later
//     changes of the map have no effect;
//   - a second WriteHeader is superfluous and ignored;
//   - WriteHeader(1xx), except 101, sends an informational response carrying the
//     current header map (minus Content-Length / Transfer-Encoding) at once and
//     does NOT count as the final header;
//   - status codes outside 100..999 panic;
//   - Write on a status that forbids a body (1xx, 204, 304) returns
//     http.ErrBodyNotAllowed and sends nothing;
//   - with a declared Content-Length, a Write that would exceed it returns
//     http.ErrContentLength and sends nothing;
//   - Flush sends the header if it was not sent yet;
//   - ReadFrom is offered (as http.response does) and behaves as a Write loop.
//
// Not modelled: Content-Type sniffing, Date / Connection / Transfer-Encoding
// bookkeeping, trailers, HEAD requests, Hijack, HTTP/2 push.
type strictWriter struct {
	live        http.Header
	wroteHeader bool
	status      int
	snap        http.Header
	infos       []string
	body        []byte
	flushes     []int
	contentLen  int64
	written     int64
}

func newStrict() *strictWriter { return &strictWriter{live: http.Header{}, contentLen: -1} }

func (w *strictWriter) Header() http.Header { return w.live }

func (w *strictWriter) WriteHeader(code int) {
	if w.wroteHeader {
		return // superfluous
	}
	if code < 100 || code > 999 {
		panic(fmt.Sprintf("invalid WriteHeader code %v", code))
	}
	if code >= 100 && code <= 199 && code != http.StatusSwitchingProtocols {
		h := w.live.Clone()
		h.Del("Content-Length")
		h.Del("Transfer-Encoding")
		w.infos = append(w.infos, strconv.Itoa(code)+" {"+canonHeader(h)+"}")
		return
	}
	w.wroteHeader = true
	w.status = code
	w.snap = w.live.Clone()
	if cl := w.live.Get("Content-Length"); cl != "" {
		v, err := strconv.ParseInt(cl, 10, 64)
		if err == nil && v >= 0 {
			w.contentLen = v
		} else {
			w.live.Del("Content-Length")
			w.snap.Del("Content-Length")
		}
	}
}

func bodyAllowedForStatus(status int) bool {
	switch {
	case status >= 100 && status <= 199:
		return false
	case status == 204:
		return false
	case status == 304:
		return false
	}
	return true
}

func (w *strictWriter) Write(b []byte) (int, error) {
	if !w.wroteHeader {
		w.WriteHeader(http.StatusOK)
	}
	if len(b) == 0 {
		return 0, nil
	}
	if !bodyAllowedForStatus(w.status) {
		return 0, http.ErrBodyNotAllowed
	}
	w.written += int64(len(b))
	if w.contentLen != -1 && w.written > w.contentLen {
		return 0, http.ErrContentLength
	}
	w.body = append(w.body, b...)
	return len(b), nil
}

func (w *strictWriter) Flush() {
	if !w.wroteHeader {
		w.WriteHeader(http.StatusOK)
	}
	w.flushes = append(w.flushes, len(w.body))
}

func (w *strictWriter) ReadFrom(r io.Reader) (int64, error) {
	var total int64
	buf := make([]byte, 64)
	for {
		n, err := r.Read(buf)
		if n > 0 {
			m, werr := w.Write(buf[:n])
			total += int64(m)
			if werr != nil {
				return total, werr
			}
		}
		if err == io.EOF {
			return total, nil
		}
		if err != nil {
			return total, err
		}
	}
}

// finish is what the server does when the handler returns.
func (w *strictWriter) finish() Client {
	if !w.wroteHeader {
		w.WriteHeader(http.StatusOK)
	}
	return Client{Status: w.status, Infos: w.infos, Header: canonHeader(w.snap), Body: string(w.body), Flushes: w.flushes}
}

// sniffed is what net/http's server (and the recorder on an implicit header)
// derives for every payload this check writes (ASCII letters and digits).
const sniffed = "text/plain; charset=utf-8"

// recorderResult canonicalises a ResponseRecorder. The recorder sniffs a
// Content-Type only when the header is written implicitly by Write, whereas a
// real server sniffs whenever a body is sent without one; any wrapper that calls
// WriteHeader before Write therefore loses the recorder's sniffed header without
// any difference on the wire. The recorder artefact is removed by applying the
// server's rule uniformly: a response with a body and no Content-Type gets the
// sniffed one.
func recorderResult(rec *httptest.ResponseRecorder) Client {
	res := rec.Result()
	h := res.Header.Clone()
	body := rec.Body.String()
	if _, ok := h["Content-Type"]; !ok && len(body) > 0 {
		h.Set("Content-Type", sniffed)
	}
	c := Client{Status: res.StatusCode, Header: canonHeader(h), Body: body}
	if rec.Flushed {
		c.Flushes = []int{-1}
	}
	return c
}
