package c18

import (
	"bytes"
	"io"
	"net/http"
	"net/http/httptest"
	"strconv"
)

// Body describes the client's request body.
type Body struct {
	Size int    `json:"size"`
	Kind string `json:"kind"` // known | unknown | unknown1 | lenger
	// Form: sent as application/x-www-form-urlencoded, so that a body processor reads the buffered body in phase 2
	// before the handler does (otherwise application/octet-stream: no processor)
	Form bool `json:"form,omitempty"`
}

const reqAlphabet = "0123456789ABCDEFGHIJKLMNOPQRSTUVWXYZ"
const respAlphabet = "abcdefghijklmnopqrstuvwxyz"

func reqPayload(n int) []byte {
	b := make([]byte, n)
	for i := range b {
		b[i] = reqAlphabet[i%len(reqAlphabet)]
	}
	return b
}

// plainReader hides every optional interface of the wrapped reader.
type plainReader struct{ r io.Reader }

func (p plainReader) Read(b []byte) (int, error) { return p.r.Read(b) }

type oneByteReader struct{ r io.Reader }

func (o oneByteReader) Read(b []byte) (int, error) {
	if len(b) == 0 {
		return 0, nil
	}
	return o.r.Read(b[:1])
}

// lenBody is a request body that knows its remaining length (as in-process
// callers that hand a *bytes.Reader based body to the handler).
type lenBody struct{ *bytes.Reader }

func (lenBody) Close() error { return nil }

func newRequest(b Body) *http.Request {
	payload := reqPayload(b.Size)
	req := httptest.NewRequest("POST", "http://h.test/p?x=1", nil)
	req.RemoteAddr = "10.0.0.1:4321"
	req.Header.Set("Content-Type", "application/octet-stream")
	if b.Form {
		req.Header.Set("Content-Type", "application/x-www-form-urlencoded")
	}
	switch b.Kind {
	case "known":
		req.ContentLength = int64(b.Size)
		if b.Size == 0 {
			req.Body = http.NoBody
		} else {
			req.Body = io.NopCloser(plainReader{bytes.NewReader(payload)})
		}
	case "unknown":
		req.ContentLength = -1
		req.TransferEncoding = []string{"chunked"}
		req.Body = io.NopCloser(plainReader{bytes.NewReader(payload)})
	case "unknown1":
		req.ContentLength = -1
		req.TransferEncoding = []string{"chunked"}
		req.Body = io.NopCloser(oneByteReader{bytes.NewReader(payload)})
	case "lenger":
		req.ContentLength = int64(b.Size)
		req.Body = lenBody{bytes.NewReader(payload)}
	default:
		panic("body kind " + b.Kind)
	}
	return req
}

// Handler operations.
const (
	opSetX  = "SetX"  // Header().Add("X-A", <op index>)
	opSetCT = "SetCT" // Header().Set("Content-Type", "text/plain") (hand-written replays only)
	opW1    = "W1"    // Write(1 B)
	opW3    = "W3"    // Write(3 B)
	opWL    = "WL"    // Write(response limit B)
	opFlush = "Flush" // Flush()
	opRF4   = "RF4"   // ReadFrom(4 B reader)
	opRead  = "Read"  // read the request body to EOF (io.ReadAll), then Write its decimal length
	opRead1 = "Read1" // same with a 1-byte read buffer
	opRead3 = "Read3" // same with a 3-byte read buffer
	opReadQ = "ReadQ" // read the request body to EOF, write nothing
	opWH    = "WH"    // prefix: WH200, WH201, WH204, WH304, WH404, WH103
)

var whCodes = []int{200, 201, 204, 304, 404, 103}

// Exec is what the harness-side handler observed.
type Exec struct {
	Entered bool     `json:"entered"`
	Reads   []string `json:"reads,omitempty"` // per read op: bytes read, "+ERR:…" appended on error
}

func (e *Exec) readAll() string {
	s := ""
	for _, r := range e.Reads {
		s += r
	}
	return s
}

// letters is an endless reader over the response alphabet starting at *pos.
type letters struct{ pos *int }

func (l letters) Read(b []byte) (int, error) {
	for i := range b {
		b[i] = respAlphabet[*l.pos%len(respAlphabet)]
		*l.pos++
	}
	return len(b), nil
}

func readBody(r *http.Request, bufSize int) string {
	if r.Body == nil {
		return "<nil>"
	}
	var out []byte
	var err error
	if bufSize == 0 {
		out, err = io.ReadAll(r.Body)
	} else {
		buf := make([]byte, bufSize)
		for guard := 0; guard < 10000; guard++ {
			var n int
			n, err = r.Body.Read(buf)
			out = append(out, buf[:n]...)
			if err != nil {
				break
			}
		}
		if err == io.EOF {
			err = nil
		}
	}
	if err != nil {
		return string(out) + "+ERR:" + err.Error()
	}
	return string(out)
}

// handler builds the http.Handler that executes prog. ct != "" makes the handler
// set that Content-Type before anything else (not counted as an operation).
func handler(prog []string, ct string, respLimit int, e *Exec) http.Handler {
	return http.HandlerFunc(func(w http.ResponseWriter, r *http.Request) {
		e.Entered = true
		pos := 0
		if ct != "" {
			w.Header().Set("Content-Type", ct)
		}
		write := func(n int) {
			b := make([]byte, n)
			_, _ = letters{&pos}.Read(b)
			_, _ = w.Write(b)
		}
		for i, op := range prog {
			switch op {
			case opSetX:
				w.Header().Add("X-A", strconv.Itoa(i))
			case opSetCT:
				w.Header().Set("Content-Type", "text/plain")
			case opW1:
				write(1)
			case opW3:
				write(3)
			case opWL:
				write(respLimit)
			case opFlush:
				if f, ok := w.(http.Flusher); ok {
					f.Flush()
				}
			case opRF4:
				src := io.LimitReader(letters{&pos}, 4)
				if rf, ok := w.(io.ReaderFrom); ok {
					_, _ = rf.ReadFrom(src)
				} else {
					_, _ = io.Copy(w, src)
				}
			case opRead, opRead1, opRead3, opReadQ:
				n := 0
				if op == opRead1 {
					n = 1
				} else if op == opRead3 {
					n = 3
				}
				got := readBody(r, n)
				e.Reads = append(e.Reads, got)
				if op != opReadQ {
					_, _ = w.Write([]byte(strconv.Itoa(len(got))))
				}
			default:
				if len(op) > 2 && op[:2] == opWH {
					code, err := strconv.Atoi(op[2:])
					if err != nil {
						panic("bad op " + op)
					}
					w.WriteHeader(code)
				} else {
					panic("bad op " + op)
				}
			}
		}
	})
}
