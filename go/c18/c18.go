// Package c18 decides C18: the net/http middleware blocks completely and
// otherwise passes traffic through intact (DESIGN.md §3 C18).
package c18

import (
	"encoding/json"
	"fmt"
	"net/http"
	"net/http/httptest"
	"os"
	"sort"
	"strconv"
	"strings"

	coraza "github.com/corazawaf/coraza/v3"
	txhttp "github.com/corazawaf/coraza/v3/http"
	"github.com/corazawaf/coraza/v3/internal/verif/probe"
	"github.com/corazawaf/coraza/v3/internal/verif/runner"
	"github.com/corazawaf/coraza/v3/internal/verif/scen"
)

func init() {
	runner.Register(&runner.Check{
		ID:    "C18",
		Level: "exploration",
		Rule: "scenario = (WAF configuration: one unconditional disruptive rule in phase none/1/2/3/4 with deny/redirect/drop, request and response body access, " +
			"limit action, MIME match, in-memory limit; request body of size {0,L-1,L,L+1,2L} delivered with known / unknown / unknown-bytewise / Len()-aware length; " +
			"handler program = every sequence of operations up to the bound over the operation alphabet; response writer = httptest.ResponseRecorder or the strict net/http-rule writer). " +
			"Every scenario is served in-process through txhttp.WrapHandler and, for the pass-through oracle, once more without the middleware on the same kind of writer. " +
			"Two sub-spaces: 'resp' (every program of <=3 (quick) / <=5 (thorough) operations over {Header.Add, WriteHeader(200/201/204/304/404/103), Write(1 B), Write(3 B), Write(limit B), Flush, ReadFrom(4 B), read-body-and-echo-length} " +
			"x handler Content-Type {none, text/plain} x {response body access off, on x limit action {Reject, ProcessPartial} x MIME list {matching, not matching}} x rule {none, phase 3/4 x deny/redirect/drop}, plus DetectionOnly {by directive, by ctl:ruleEngine in phase 1} x {Reject, ProcessPartial} x {no rule, would-be deny}, request body 3 B; " +
			"the combination 'no Content-Type + non-matching MIME list' is left out as doubly unbuffered) and " +
			"'req' (every program of <=2 / <=3 operations over {ReadAll, read with 1 B buffer, read with 3 B buffer, Write(3 B), WriteHeader(404), Flush} x 20 bodies " +
			"x request Content-Type {application/octet-stream (no body processor), urlencoded (a processor reads the buffered body first)} x {request body access off, on x {Reject, ProcessPartial} x in-memory limit {default, limit/2 (spills to a temp file)}} x response buffering {off, on} x rule {none, phase 1-4 x deny/redirect/drop}, plus DetectionOnly {by directive, by ctl} x {Reject, ProcessPartial} x in-memory limit x {no rule, would-be deny}). " +
			"distinct_nontrivial = distinct scenarios in which the middleware interrupted or the handler produced output / read the body",
		Assumptions: []string{
			"no sockets: the client side is what the ResponseWriter received; the strict writer follows net/http server.go (go1.25) header-snapshot, 1xx, body-not-allowed, Content-Length and Flush rules; Content-Type sniffing, Date, chunking, trailers, HEAD, Hijack and HTTP/2 push are not modelled",
			"the phase in which the transaction interrupted is taken from what the transaction returned to the middleware (a recording types.Transaction wrapper around the real transaction)",
			"sync.Pool reuse of transaction objects is off (vrt.PoolMode 0): every exchange gets a fresh transaction",
		},
		Run:    run,
		Replay: replay,
	})
}

// Scenario is one exchange.
type Scenario struct {
	Space  string   `json:"space"`
	Conf   Conf     `json:"conf"`
	CT     string   `json:"ct,omitempty"` // Content-Type the handler sets before its program
	Body   Body     `json:"body"`
	Prog   []string `json:"prog"`
	Writer string   `json:"writer"` // recorder | strict
}

// Obs is everything observed about one served exchange.
type Obs struct {
	Client Client `json:"client"`
	Exec   Exec   `json:"exec"`
	Trace  Trace  `json:"trace"`
	Panic  string `json:"panic,omitempty"`
}

// serve runs the scenario's handler, behind the middleware if waf != nil.
func serve(waf coraza.WAF, sc Scenario) Obs {
	var o Obs
	req := newRequest(sc.Body)
	var h http.Handler = handler(sc.Prog, sc.CT, sc.Conf.RespLimit, &o.Exec)
	var tw *tracingWAF
	if waf != nil {
		tw = &tracingWAF{WAF: waf}
		h = txhttp.WrapHandler(tw, h)
	}
	switch sc.Writer {
	case "recorder":
		rec := httptest.NewRecorder()
		o.Panic = probe.Safe(func() { h.ServeHTTP(rec, req) })
		o.Client = recorderResult(rec)
	case "strict":
		sw := newStrict()
		o.Panic = probe.Safe(func() { h.ServeHTTP(sw, req) })
		o.Client = sw.finish()
	default:
		panic("writer " + sc.Writer)
	}
	if tw != nil && tw.last != nil {
		o.Trace = tw.last.tr
	}
	return o
}

// ---------------------------------------------------------------------------
// oracle

// firstHeaderOp returns the index of the first operation that makes the writer
// send the final header block, or len(prog).
func firstHeaderOp(prog []string, writer string) int {
	for i, op := range prog {
		switch {
		case op == opW1 || op == opW3 || op == opWL || op == opFlush || op == opRF4 || op == opRead || op == opRead1 || op == opRead3:
			return i
		case strings.HasPrefix(op, opWH) && (op != "WH103" || writer == "recorder"): // the recorder takes any code as final
			return i
		}
	}
	return len(prog)
}

// judge applies the property to one exchange. base is the same handler program
// without the middleware on the same kind of writer. It returns a root-cause
// signature ("" = holds) and a human text.
func judge(sc Scenario, base, mw Obs) (string, string) {
	if mw.Panic != "" {
		return "panic:" + mw.Panic, "the middleware panicked: " + mw.Panic
	}
	t := mw.Trace
	inReq, inResp := t.requestStage(), t.responseStage()
	if t.Stage == "END" {
		// the transaction ended interrupted without any phase call having told the middleware
		inReq, inResp = !mw.Exec.Entered, mw.Exec.Entered
	}
	switch {
	case inReq:
		// "a request interrupted in a request phase never reaches the wrapped handler and the
		// client receives the interruption's status with none of the handler's output"
		if mw.Exec.Entered {
			return "request-interruption:handler-entered:stage=" + t.Stage,
				fmt.Sprintf("the transaction interrupted at %s (%s, status %d) but the wrapped handler was invoked", t.Stage, t.Action, t.Status)
		}
		if mw.Client.Body != "" {
			return "request-interruption:body-not-empty:stage=" + t.Stage,
				fmt.Sprintf("the transaction interrupted at %s but the client received body %q", t.Stage, mw.Client.Body)
		}
		if t.Action == "drop" || t.Status == 0 {
			return "", "" // the interruption carries no status: nothing to demand
		}
		if mw.Client.Status != t.Status {
			return fmt.Sprintf("request-interruption:status:action=%s:want=%d:got=%d", t.Action, t.Status, mw.Client.Status),
				fmt.Sprintf("the transaction interrupted at %s with action %s and status %d; the client received status %d", t.Stage, t.Action, t.Status, mw.Client.Status)
		}
		return "", ""
	case inResp:
		// "a response interrupted in a response phase delivers none of the handler's body bytes"
		if mw.Client.Body != "" {
			return classifyLeak(sc, base, mw),
				fmt.Sprintf("the transaction interrupted at %s (%s, status %d) but the client received %d handler body byte(s) %q (status %d)", t.Stage, t.Action, t.Status, len(mw.Client.Body), mw.Client.Body, mw.Client.Status)
		}
		return "", ""
	}
	// "When nothing interrupts, the handler reads exactly the client's request body and the
	// client receives exactly the handler's status, headers and body"
	if !mw.Exec.Entered {
		return "passthrough:handler-not-entered:errs=" + short(t.Errs), "nothing interrupted but the wrapped handler was not invoked; transaction errors: " + t.Errs
	}
	want := string(reqPayload(sc.Body.Size))
	for i, r := range mw.Exec.Reads {
		exp := ""
		if i == 0 {
			exp = want // the first read op reads to EOF, later ones must find nothing
		}
		if r != exp {
			return classifyRead(sc, r, exp),
				fmt.Sprintf("read #%d of the request body by the handler returned %q, the client sent %q (without the middleware: %q)", i, r, exp, at(base.Exec.Reads, i))
		}
	}
	if mw.Client.Status != base.Client.Status || strings.Join(mw.Client.Infos, "|") != strings.Join(base.Client.Infos, "|") ||
		mw.Client.Header != base.Client.Header || mw.Client.Body != base.Client.Body {
		return classifyDiff(sc, base, mw), fmt.Sprintf("nothing interrupted, yet the client received\n  with middleware:    status=%d infos=%v header={%s} body=%q\n  without middleware: status=%d infos=%v header={%s} body=%q",
			mw.Client.Status, mw.Client.Infos, mw.Client.Header, mw.Client.Body, base.Client.Status, base.Client.Infos, base.Client.Header, base.Client.Body)
	}
	return "", ""
}

func at(s []string, i int) string {
	if i < len(s) {
		return s[i]
	}
	return "<none>"
}

func short(s string) string {
	if len(s) > 80 {
		return s[:80]
	}
	return s
}

// relation names how got deviates from want.
func relation(got, want string) string {
	switch {
	case got == want:
		return "equal"
	case got == "":
		return "empty"
	case strings.Contains(got, "+ERR:"):
		return "read-error"
	case strings.HasPrefix(want, got):
		return "truncated"
	case strings.HasSuffix(want, got):
		return "prefix-lost"
	case strings.HasPrefix(got, want):
		return "bytes-appended"
	case sortBytes(got) == sortBytes(want):
		return "reordered"
	}
	return "other"
}

func sortBytes(s string) string {
	b := []byte(s)
	sort.Slice(b, func(i, j int) bool { return b[i] < b[j] })
	return string(b)
}

// buffered says whether the configuration makes the middleware hold the response
// body back for phase 4 (body access on and the handler's Content-Type listed).
func buffered(sc Scenario) string {
	if (sc.Conf.RespAccess || sc.Conf.RespCtl) && sc.CT != "" && sc.CT == sc.Conf.Mime {
		return "buffered/" + sc.Conf.RespAction
	}
	return "unbuffered"
}

// Signatures. Each known root cause has a class whose membership test is the
// narrowest observable feature of that cause; everything else falls back to an
// "unclassified:" signature made of the symptom and the configuration features it
// depends on (C18_FULLKEY=1 appends the whole case instead).

func classifyLeak(sc Scenario, base, mw Obs) string {
	// Root cause: Write calls WriteHeader(200) implicitly, the phase-3 rules
	// interrupt inside it, and Write carries on handing its bytes downstream.
	// Feature: interruption at P3, the first header-sending operation of the
	// program is a body write, and exactly that operation's bytes leaked.
	if i := firstHeaderOp(sc.Prog, "strict"); mw.Trace.Stage == "P3" && i < len(sc.Prog) {
		n := 0
		switch sc.Prog[i] {
		case opW1:
			n = 1
		case opW3:
			n = 3
		case opWL:
			n = sc.Conf.RespLimit
		case opRF4:
			n = 4
		case opRead, opRead1, opRead3:
			n = len(strconv.Itoa(sc.Body.Size))
		}
		if n > 0 && len(base.Client.Body) >= n && mw.Client.Body == base.Client.Body[:n] {
			return "response-interruption:body-leaked:phase3-interruption-inside-implicit-WriteHeader-of-Write"
		}
	}
	return fmt.Sprintf("unclassified:response-interruption:body-leaked:stage=%s:%s:leaked=%s%s", mw.Trace.Stage, buffered(sc), relation(mw.Client.Body, base.Client.Body), full(sc))
}

func classifyRead(sc Scenario, got, want string) string {
	size := "below-limit"
	if sc.Body.Size >= sc.Conf.ReqLimit {
		size = "at-or-above-limit"
	}
	return fmt.Sprintf("unclassified:passthrough:request-body:%s:access=%v:action=%s:mem-limit-set=%v:size=%s%s", relation(got, want), sc.Conf.ReqAccess, sc.Conf.ReqAction, sc.Conf.ReqMem > 0, size, full(sc))
}

func classifyDiff(sc Scenario, base, mw Obs) string {
	sameInfos := strings.Join(mw.Client.Infos, "|") == strings.Join(base.Client.Infos, "|")
	if len(base.Client.Infos) > 0 && (mw.Client.Status != base.Client.Status || !sameInfos) {
		// The handler sent a 1xx informational response before its final header
		// (strict writer only: the recorder takes 1xx as final with and without the
		// middleware). The interceptor's state machine takes it for the final
		// WriteHeader, which derails status, informational and header handling alike.
		return "passthrough:1xx-informational-WriteHeader-taken-as-final"
	}
	field := "body=" + relation(mw.Client.Body, base.Client.Body)
	switch {
	case mw.Client.Status != base.Client.Status:
		field = fmt.Sprintf("status:want=%d:got=%d", base.Client.Status, mw.Client.Status)
	case !sameInfos:
		field = "infos"
	case mw.Client.Header != base.Client.Header:
		field = "header"
		if mw.Client.Body == base.Client.Body && lateHeadersOnly(sc, base, mw) {
			// Root cause: the downstream WriteHeader is deferred, so the live header map
			// keeps changing after the handler's WriteHeader.
			return "passthrough:header-changed-after-WriteHeader-reaches-client"
		}
	}
	return fmt.Sprintf("unclassified:passthrough:%s:%s%s", field, buffered(sc), full(sc))
}

// lateHeadersOnly reports whether the two header blocks differ exactly by X-A
// values that the handler added after the point at which net/http freezes the
// header block.
func lateHeadersOnly(sc Scenario, base, mw Obs) bool {
	frozen := firstHeaderOp(sc.Prog, sc.Writer)
	strip := func(h string) (rest string, xa []string) {
		for _, f := range strings.Split(h, ";") {
			if strings.HasPrefix(f, "X-A=") {
				xa = strings.Split(strings.TrimPrefix(f, "X-A="), ",")
			} else if f != "" {
				rest += f + ";"
			}
		}
		return
	}
	br, bx := strip(base.Client.Header)
	mr, mx := strip(mw.Client.Header)
	if br != mr || len(mx) <= len(bx) {
		return false
	}
	for i, v := range bx {
		if mx[i] != v {
			return false
		}
	}
	for _, v := range mx[len(bx):] {
		n, err := strconv.Atoi(v)
		if err != nil || n <= frozen {
			return false
		}
	}
	return true
}

func key(sc Scenario) string {
	b, _ := json.Marshal(sc)
	return string(b)
}

// full is a triage aid: with C18_FULLKEY=1 every unclassified signature carries
// the whole case, so that every failing case is listed separately.
func full(sc Scenario) string {
	if os.Getenv("C18_FULLKEY") != "" {
		return ":" + key(sc)
	}
	return ""
}

// ---------------------------------------------------------------------------
// enumeration

const (
	reqLimit  = 8
	respLimit = 4
)

var respOps = []string{opSetX, "WH200", "WH201", "WH204", "WH304", "WH404", "WH103", opW1, opW3, opWL, opFlush, opRF4, opRead}
var reqOps = []string{opRead, opRead1, opRead3, opW3, "WH404", opFlush}

// programs enumerates every sequence over ops of length 0..max.
func programs(ops []string, max int, emit func(p []string)) {
	var rec func(p []string)
	rec = func(p []string) {
		emit(append([]string(nil), p...))
		if len(p) == max {
			return
		}
		for _, op := range ops {
			rec(append(p, op))
		}
	}
	rec(nil)
}

func respConfs() []Conf {
	var out []Conf
	rules := []Rule{{}}
	for _, ph := range []int{3, 4} {
		for _, a := range []string{"deny", "redirect", "drop"} {
			rules = append(rules, Rule{ph, a})
		}
	}
	for _, r := range rules {
		base := Conf{Rule: r, ReqAccess: true, ReqLimit: reqLimit, ReqAction: "Reject", RespLimit: respLimit, RespAction: "Reject", Mime: "text/plain"}
		out = append(out, base) // response body access off
		for _, act := range []string{"Reject", "ProcessPartial"} {
			for _, mime := range []string{"text/plain", "text/html"} {
				c := base
				c.RespAccess, c.RespAction, c.Mime = true, act, mime
				out = append(out, c)
			}
		}
	}
	// response body access configured Off and switched on by a phase-3 ctl: a phase-4 interruption must still hold
	// every body byte back
	for _, r := range []Rule{{}, {4, "deny"}, {4, "redirect"}} {
		for _, act := range []string{"Reject", "ProcessPartial"} {
			out = append(out, Conf{Rule: r, ReqAccess: true, ReqLimit: reqLimit, ReqAction: "Reject", RespLimit: respLimit, RespAction: act, Mime: "text/plain", RespCtl: true})
		}
	}
	// DetectionOnly: a limit of action Reject and a would-be deny only record; the exchange must pass through intact
	for _, r := range []Rule{{}, {4, "deny"}} {
		for _, act := range []string{"Reject", "ProcessPartial"} {
			for _, how := range []string{"directive", "ctl"} {
				out = append(out, Conf{Rule: r, DetOnly: how, ReqAccess: true, ReqLimit: reqLimit, ReqAction: "Reject", RespAccess: true, RespLimit: respLimit, RespAction: act, Mime: "text/plain"})
			}
		}
	}
	return out
}

func reqConfs() []Conf {
	var out []Conf
	rules := []Rule{{}}
	for _, ph := range []int{1, 2, 3, 4} {
		for _, a := range []string{"deny", "redirect", "drop"} {
			rules = append(rules, Rule{ph, a})
		}
	}
	for _, r := range rules {
		for _, resp := range []bool{false, true} {
			base := Conf{Rule: r, ReqLimit: reqLimit, ReqAction: "Reject", RespAccess: resp, RespLimit: respLimit, RespAction: "Reject", Mime: "text/plain"}
			out = append(out, base) // request body access off
			for _, act := range []string{"Reject", "ProcessPartial"} {
				for _, mem := range []int{0, reqLimit / 2} {
					c := base
					c.ReqAccess, c.ReqAction, c.ReqMem = true, act, mem
					out = append(out, c)
				}
			}
		}
	}
	for _, r := range []Rule{{}, {2, "deny"}} {
		for _, act := range []string{"Reject", "ProcessPartial"} {
			for _, mem := range []int{0, reqLimit / 2} {
				for _, how := range []string{"directive", "ctl"} {
					out = append(out, Conf{Rule: r, DetOnly: how, ReqAccess: true, ReqLimit: reqLimit, ReqAction: act, ReqMem: mem, RespLimit: respLimit, RespAction: "Reject", Mime: "text/plain"})
				}
			}
		}
	}
	return out
}

func bodies() []Body {
	var out []Body
	for _, k := range []string{"known", "unknown", "unknown1", "lenger"} {
		for _, n := range []int{0, reqLimit - 1, reqLimit, reqLimit + 1, 2 * reqLimit} {
			out = append(out, Body{Size: n, Kind: k})
			if k == "known" || k == "unknown" {
				out = append(out, Body{Size: n, Kind: k, Form: true})
			}
		}
	}
	return out
}

var writers = []string{"recorder", "strict"}

type wafCache struct {
	m map[Conf]coraza.WAF
}

func (wc *wafCache) get(c Conf) (coraza.WAF, error) {
	if w, ok := wc.m[c]; ok {
		return w, nil
	}
	w, err := scen.Build(c.Directives())
	if err != nil {
		return nil, err
	}
	wc.m[c] = w
	return w, nil
}

func (wc *wafCache) close() {
	for _, w := range wc.m {
		scen.Close(w)
	}
}

func run(c *runner.Ctx) {
	respMax, reqMax := 3, 2
	if c.Thorough() {
		respMax, reqMax = 5, 3
	}
	wc := &wafCache{m: map[Conf]coraza.WAF{}}
	defer wc.close()

	one := func(sc Scenario, base Obs) {
		waf, err := wc.get(sc.Conf)
		if err != nil {
			c.Violation("build:"+err.Error(), "configuration of the generator does not compile: "+err.Error(), sc)
			return
		}
		mw := serve(waf, sc)
		c.Count("evaluations", 1)
		c.Count("evaluations_"+sc.Space, 1)
		switch {
		case mw.Trace.requestStage():
			c.Count("blocked_in_request_phase", 1)
		case mw.Trace.responseStage():
			c.Count("blocked_in_response_phase", 1)
		default:
			c.Count("passed_through", 1)
		}
		if mw.Trace.Stage != "" || mw.Client.Body != "" || len(mw.Exec.Reads) > 0 {
			c.Distinct(key(sc))
		}
		c.Outcome(fmt.Sprintf("%s|%s|%d|%v|%s|%s|%v", mw.Trace.Stage, mw.Trace.Action, mw.Client.Status, mw.Client.Infos, mw.Client.Header, mw.Client.Body, mw.Exec.Entered))
		if c.WantSample() && mw.Trace.Stage != "" && len(sc.Prog) > 1 {
			c.Sample(map[string]any{"scenario": sc, "with_middleware": mw, "without_middleware": base})
		}
		if sig, what := judge(sc, base, mw); sig != "" {
			c.Violation(sig, what+"\n  scenario: "+key(sc), sc)
		}
	}

	idx := 0
	// sub-space 'resp'
	rconfs := respConfs()
	smallBody := Body{Size: 3, Kind: "known"}
	programs(respOps, respMax, func(p []string) {
		idx++
		if !c.Mine(idx) || c.Expired() {
			return
		}
		c.Count("programs_resp", 1)
		c.Heartbeat(Scenario{Space: "resp", CT: "text/plain", Body: smallBody, Prog: p, Writer: "strict", Conf: rconfs[1]})
		for _, wr := range writers {
			for _, ct := range []string{"", "text/plain"} {
				sc := Scenario{Space: "resp", CT: ct, Body: smallBody, Prog: p, Writer: wr, Conf: Conf{RespLimit: respLimit}}
				base := serve(nil, sc)
				c.Count("baseline_runs", 1)
				for _, cf := range rconfs {
					if ct == "" && cf.Mime != "text/plain" {
						continue // no Content-Type at all: the MIME list cannot matter twice over
					}
					sc.Conf = cf
					one(sc, base)
				}
			}
		}
	})
	// sub-space 'req'
	qconfs := reqConfs()
	bs := bodies()
	programs(reqOps, reqMax, func(p []string) {
		for _, b := range bs {
			idx++
			if !c.Mine(idx) || c.Expired() {
				continue
			}
			c.Count("programs_x_bodies_req", 1)
			c.Heartbeat(Scenario{Space: "req", CT: "text/plain", Body: b, Prog: p, Writer: "strict", Conf: qconfs[1]})
			for _, wr := range writers {
				sc := Scenario{Space: "req", CT: "text/plain", Body: b, Prog: p, Writer: wr, Conf: Conf{RespLimit: respLimit}}
				base := serve(nil, sc)
				c.Count("baseline_runs", 1)
				for _, cf := range qconfs {
					sc.Conf = cf
					one(sc, base)
				}
			}
		}
	})
	c.Extra("bounds", map[string]any{"resp_program_ops_max": respMax, "req_program_ops_max": reqMax, "resp_alphabet": respOps, "req_alphabet": reqOps,
		"request_limit": reqLimit, "response_limit": respLimit, "resp_configurations": len(rconfs), "req_configurations": len(qconfs), "bodies": len(bs)})
}

func replay(raw json.RawMessage) (bool, string) {
	var sc Scenario
	if err := json.Unmarshal(raw, &sc); err != nil {
		return false, err.Error()
	}
	waf, err := scen.Build(sc.Conf.Directives())
	if err != nil {
		return true, "build: " + err.Error()
	}
	defer scen.Close(waf)
	base := serve(nil, sc)
	mw := serve(waf, sc)
	sig, what := judge(sc, base, mw)
	bj, _ := json.Marshal(base)
	mj, _ := json.Marshal(mw)
	text := fmt.Sprintf("configuration:\n%s\nwithout middleware: %s\nwith middleware:    %s\n", sc.Conf.Directives(), bj, mj)
	if sig != "" {
		text += "signature: " + sig + "\n" + what + "\n"
	}
	return sig != "", text
}
