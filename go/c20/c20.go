// Package c20 decides C20: failures are reported, never swallowed, and no
// temporary files are left behind (DESIGN.md §3 C20).
package c20

import (
	"bytes"
	"encoding/json"
	"errors"
	"fmt"
	"os"
	"path/filepath"
	"regexp"
	"sort"
	"strings"
	"time"

	coraza "github.com/corazawaf/coraza/v3"
	"github.com/corazawaf/coraza/v3/debuglog"
	"github.com/corazawaf/coraza/v3/experimental/plugins/plugintypes"
	"github.com/corazawaf/coraza/v3/internal/verif/mc"
	"github.com/corazawaf/coraza/v3/internal/verif/probe"
	"github.com/corazawaf/coraza/v3/internal/verif/runner"
	"github.com/corazawaf/coraza/v3/internal/verif/scen"
	"github.com/corazawaf/coraza/v3/internal/verif/vrt"
	"github.com/corazawaf/coraza/v3/types"
)

func init() {
	runner.Register(&runner.Check{
		ID:    "C20",
		Level: "fault_enumeration",
		Rule: "base transactions: memory-buffered / spilled / spilled+ProcessPartial request body, multipart with 1 and 2 files under SecUploadKeepFiles Off / On / RelevantOnly (with and without a logged match), bodies their processor rejects (truncated JSON, XML with an end tag that closes nothing, multipart delimited by another boundary or lacking the blank line after a part header: the fault-free run itself must surface the error) and bodies it tolerates by design (truncated multipart, non-strict XML: exercised, not asserted), response body, interruption in phase 1-4, audit record through the real serial and concurrent file writers; " +
			"for each, every file-system operation the run performs (create, open, write, read-at, close, remove, mkdir, writefile — intercepted by the os shim) fails in turn (quick: every single fault, error-before and short-write; thorough: every combination of up to three faults), and independently the run is abandoned after each of its API calls and closed; private temp / upload / audit directories per execution. " +
			"Oracle: no panic; every injected failure surfaces (returned error, REQBODY_ERROR / MULTIPART_STRICT_ERROR, or an Error-level debug-log record); after Close the temp and upload directories are empty unless retention applies or the failed operation was that file's own removal; the open-descriptor count is back to its baseline; a probe transaction on the recycled object equals the fresh outcome. " +
			"distinct_nontrivial = distinct (base transaction, fault position and mode | abandonment point) actually reached",
		Assumptions: []string{
			"fault points are the operations of package os used by internal/corazawaf, internal/bodyprocessors and internal/auditlog (selector-redirected to the vos shim by the instrumenter); a failing operation is not performed at all (or half performed for a short write)",
			"TMPDIR points to a private directory (SecTmpDir is not supported by the library, the WAF uses os.TempDir())",
		},
		Run:    run,
		Replay: replay,
	})
}

type base struct {
	Name     string
	Conf     string // extra directives
	Method   string
	CT       string
	Body     string
	Flags    string // X-F header
	Response bool
	Keep     string // Off | On | RelevantOnly
	Logged   bool   // a logged match happens (RelevantOnly keeps files)
	// BadBody: the body cannot be parsed by its processor: the fault-free run itself must surface that
	BadBody bool
}

const mp2 = "--B\r\nContent-Disposition: form-data; name=\"f1\"; filename=\"a.txt\"\r\nContent-Type: text/plain\r\n\r\nfile one contents\r\n--B\r\nContent-Disposition: form-data; name=\"f2\"; filename=\"b.txt\"\r\nContent-Type: text/plain\r\n\r\nfile two\r\n--B\r\nContent-Disposition: form-data; name=\"a\"\r\n\r\nfield\r\n--B--\r\n"
const mp1 = "--B\r\nContent-Disposition: form-data; name=\"f1\"; filename=\"a.txt\"\r\nContent-Type: text/plain\r\n\r\nfile one contents\r\n--B--\r\n"

func bases() []base {
	var out []base
	out = append(out,
		base{Name: "memory body", CT: "application/x-www-form-urlencoded", Body: "a=1&b=2"},
		base{Name: "spilled body", Conf: "SecRequestBodyInMemoryLimit 4\n", CT: "application/x-www-form-urlencoded", Body: "a=1&b=2&c=33333333"},
		// the first chunk (9 bytes) stays in memory, the second one spills: the dump of the memory part is a write of its own
		base{Name: "body spilled by its second chunk", Conf: "SecRequestBodyInMemoryLimit 12\n", CT: "application/x-www-form-urlencoded", Body: "a=1&b=2&c=33333333"},
		base{Name: "spilled body, ProcessPartial", Conf: "SecRequestBodyInMemoryLimit 4\nSecRequestBodyLimit 12\nSecRequestBodyLimitAction ProcessPartial\n", CT: "application/x-www-form-urlencoded", Body: "a=1&b=2&c=33333333"},
		base{Name: "spilled body, Reject", Conf: "SecRequestBodyInMemoryLimit 4\nSecRequestBodyLimit 12\nSecRequestBodyLimitAction Reject\n", CT: "application/x-www-form-urlencoded", Body: "a=1&b=2&c=33333333"},
		base{Name: "malformed JSON", CT: "application/json", Body: `{"a":`, Flags: "json", BadBody: true},
		base{Name: "malformed multipart", CT: "multipart/form-data; boundary=B", Body: "--B\r\nContent-Disposition: form-data; name=\"f1\"; filename=\"a.txt\"\r\n\r\nunterminated", Keep: "Off"}, // truncation is tolerated by design (a body cut by ProcessPartial is still inspected)
		base{Name: "multipart delimited by another boundary", CT: "multipart/form-data; boundary=B", Body: strings.ReplaceAll(mp1, "--B", "--OTHER"), Keep: "Off", BadBody: true},
		base{Name: "multipart ending on a non-final delimiter", CT: "multipart/form-data; boundary=B", Body: strings.TrimSuffix(mp2, "--\r\n") + "\r\n", Keep: "Off"}, // truncation again: not asserted
		base{Name: "multipart part without header end", CT: "multipart/form-data; boundary=B", Body: "--B\r\nContent-Disposition: form-data; name=\"a\"\r\nfield\r\n--B--\r\n", Keep: "Off", BadBody: true},
		base{Name: "malformed XML", CT: "text/xml", Body: "<a><b></a>", Flags: "xml"}, // the XML processor is non-strict by design: not asserted
		base{Name: "XML with an end tag that closes nothing", CT: "text/xml", Body: "<a>x</a></z><n k=\"v\">y</n>", Flags: "xml", BadBody: true}, // rejected even by the non-strict reader
		base{Name: "response body", Response: true},
		base{Name: "spilled body + response body", Conf: "SecRequestBodyInMemoryLimit 4\n", CT: "application/x-www-form-urlencoded", Body: "a=1&b=2&c=33333333", Response: true},
	)
	for _, keep := range []string{"Off", "On", "RelevantOnly"} {
		for _, logged := range []bool{false, true} {
			fl := ""
			if logged {
				fl = "match"
			}
			out = append(out, base{Name: fmt.Sprintf("multipart 2 files keep=%s logged=%v", keep, logged), CT: "multipart/form-data; boundary=B", Body: mp2, Keep: keep, Logged: logged, Flags: fl})
		}
		out = append(out, base{Name: fmt.Sprintf("multipart 1 file spilled keep=%s", keep), Conf: "SecRequestBodyInMemoryLimit 16\n", CT: "multipart/form-data; boundary=B", Body: mp1, Keep: keep})
	}
	for ph := 1; ph <= 4; ph++ {
		out = append(out, base{Name: fmt.Sprintf("deny in phase %d, multipart spilled", ph), Conf: "SecRequestBodyInMemoryLimit 16\n", CT: "multipart/form-data; boundary=B", Body: mp1, Keep: "Off", Flags: fmt.Sprintf("deny%d", ph), Response: true})
	}
	for _, ph := range []int{2, 4} {
		out = append(out, base{Name: fmt.Sprintf("multipart 2 files, ctl:ruleEngine=Off in phase %d", ph), CT: "multipart/form-data; boundary=B", Body: mp2, Keep: "Off", Flags: fmt.Sprintf("engineoff%d", ph), Response: true})
	}
	for _, typ := range []string{"Serial", "Concurrent"} {
		out = append(out, base{Name: "audit " + typ, Conf: "AUDIT:" + typ, CT: "application/x-www-form-urlencoded", Body: "a=1&b=2&c=33333333", Response: true, Flags: "match"})
	}
	return out
}

type dirs struct{ root, tmp, upload, audit string }

func mkdirs(work string) dirs {
	d := dirs{root: work, tmp: filepath.Join(work, "tmp"), upload: filepath.Join(work, "upload"), audit: filepath.Join(work, "audit")}
	for _, p := range []string{d.tmp, d.upload, d.audit} {
		_ = os.RemoveAll(p)
		_ = os.MkdirAll(p, 0o755)
	}
	return d
}

func (b base) conf(d dirs) string {
	var sb strings.Builder
	sb.WriteString("SecRuleEngine On\nSecRequestBodyAccess On\nSecResponseBodyAccess On\nSecResponseBodyMimeType text/plain\nSecRequestBodyLimit 4096\nSecResponseBodyLimit 4096\n")
	fmt.Fprintf(&sb, "SecUploadDir %s\n", d.upload)
	keep := b.Keep
	if keep == "" {
		keep = "Off"
	}
	fmt.Fprintf(&sb, "SecUploadKeepFiles %s\n", keep)
	extra := b.Conf
	if strings.HasPrefix(extra, "AUDIT:") {
		typ := strings.TrimPrefix(extra, "AUDIT:")
		fmt.Fprintf(&sb, "SecAuditEngine On\nSecAuditLogParts ABCFHKZ\nSecAuditLogType %s\nSecAuditLog %s\nSecAuditLogFormat JSON\n", typ, filepath.Join(d.audit, "audit.log"))
		if typ == "Concurrent" {
			fmt.Fprintf(&sb, "SecAuditLogStorageDir %s\nSecAuditLogDirMode 0755\nSecAuditLogFileMode 0644\n", d.audit)
		}
		extra = "SecRequestBodyInMemoryLimit 4\n"
	} else {
		sb.WriteString("SecAuditEngine Off\n")
	}
	sb.WriteString(extra)
	sb.WriteString("SecRule REQUEST_HEADERS:X-F \"@contains json\" \"id:10,phase:1,pass,nolog,ctl:requestBodyProcessor=JSON\"\n")
	sb.WriteString("SecRule REQUEST_HEADERS:X-F \"@contains xml\" \"id:12,phase:1,pass,nolog,ctl:requestBodyProcessor=XML\"\n")
	sb.WriteString("SecRule REQUEST_HEADERS:X-F \"@contains match\" \"id:11,phase:1,pass,log,msg:'logged match'\"\n")
	for ph := 1; ph <= 4; ph++ {
		fmt.Fprintf(&sb, "SecRule REQUEST_HEADERS:X-F \"@contains deny%d\" \"id:%d,phase:%d,deny,status:403,log\"\n", ph, 20+ph, ph)
		// the engine switched off in the middle of the transaction (the uploads are stored by then when ph >= 2)
		fmt.Fprintf(&sb, "SecRule REQUEST_HEADERS:X-F \"@contains engineoff%d\" \"id:%d,phase:%d,pass,nolog,ctl:ruleEngine=Off\"\n", ph, 40+ph, ph)
	}
	sb.WriteString("SecRule REQUEST_BODY \"@rx .\" \"id:30,phase:2,pass,nolog,setvar:tx.bodylen=%{REQUEST_BODY_LENGTH}\"\n")
	sb.WriteString("SecAction \"id:31,phase:2,pass,nolog,setvar:tx.p2=+1\"\n")
	return sb.String()
}

// ---- fault plan -------------------------------------------------------------

type fsOp struct {
	Op   string `json:"op"`
	Name string `json:"name"`
}

var tmpName = regexp.MustCompile(`(body|crzmp|checkfsfile)[0-9]+`)
var auditName = regexp.MustCompile(`[0-9]{8}(-[0-9]{4,6})?(-[A-Za-z]+)?`)

func classOf(root, name string) string {
	name = strings.TrimPrefix(name, root)
	name = tmpName.ReplaceAllString(name, "$1*")
	name = auditName.ReplaceAllString(name, "T")
	return name
}

// ---- one execution ----------------------------------------------------------

type result struct {
	signals   []string
	ops       []fsOp
	faulted   *fsOp
	faultedOn []string // base names of the files whose remove / close was made to fail
	panicText string
	leftTmp   []string
	leftUp    []string
	fdDelta   int
	probe     string
	bodySeen  string
	acked     int
}

type logBuf struct{ bytes.Buffer }

func listDir(d string) []string {
	es, _ := os.ReadDir(d)
	var out []string
	for _, e := range es {
		out = append(out, e.Name())
	}
	sort.Strings(out)
	return out
}

func fdCount() int {
	es, err := os.ReadDir("/proc/self/fd")
	if err != nil {
		return 0
	}
	return len(es)
}

var probeReq = scen.Req{URI: "/probe?a=1", Headers: [][2]string{{"Content-Type", "application/x-www-form-urlencoded"}}, Body: "x=probe1234", Status: 200, RespHeaders: [][2]string{{"Content-Type", "text/plain"}}, RespBody: "probe-response"}

func probeOutcome(w coraza.WAF) string {
	o := scen.Run(w, probeReq, scen.Options{Vars: true, SkipVars: map[string]bool{"FILES_TMPNAMES": true}})
	var sb strings.Builder
	fmt.Fprintf(&sb, "panic=%q calls=%v itr=%s\n", o.Panic, o.Calls, o.Interruption)
	for _, m := range o.Matched {
		fmt.Fprintf(&sb, "rule %d %q\n", m.ID, m.Datas)
	}
	names := make([]string, 0, len(o.Vars))
	for n := range o.Vars {
		names = append(names, n)
	}
	sort.Strings(names)
	for _, n := range names {
		fmt.Fprintf(&sb, "%s=%q\n", n, o.Vars[n])
	}
	return sb.String()
}

var errInjected = errors.New("injected I/O failure")

// execute runs base b, abandoning after `stop` API calls (-1 = run to the
// end), with faults decided by cx (nil = none).
func execute(b base, d dirs, stop int, cx *mc.Ctx, withProbe bool) result {
	var res result
	var logs logBuf
	logger := debuglog.Default().WithOutput(&logs).WithLevel(debuglog.LevelError)
	conf := b.conf(d)
	w, err := scen.Build(conf, func(c coraza.WAFConfig) coraza.WAFConfig { return c.WithDebugLogger(logger) })
	if err != nil {
		res.panicText = "BUILD: " + err.Error()
		return res
	}
	fd0 := fdCount()
	signal := func(s string) { res.signals = append(res.signals, s) }
	vrt.FaultHook = func(op, name string) (error, bool) {
		o := fsOp{op, classOf(d.root, name)}
		res.ops = append(res.ops, o)
		if cx == nil {
			return nil, false
		}
		n := 2
		if op == "write" {
			n = 3
		}
		switch cx.Choose(n, vrt.Env, op+" "+o.Name) {
		case 1:
			res.faulted = &o
			if op == "remove" || op == "close" {
				res.faultedOn = append(res.faultedOn, filepath.Base(name))
			}
			return errInjected, false
		case 2:
			res.faulted = &fsOp{op + "(short)", o.Name}
			return errInjected, true
		}
		return nil, false
	}
	defer func() { vrt.FaultHook = nil }()
	vrt.PoolMode = 1
	defer func() { vrt.PoolMode = 0 }()

	var tx types.Transaction
	res.panicText = probe.Safe(func() {
		tx = w.NewTransaction()
		step := 0
		do := func(f func()) bool {
			if stop >= 0 && step >= stop {
				return false
			}
			step++
			f()
			return true
		}
		interrupted := func(it *types.Interruption) bool { return it != nil }
		func() {
			if !do(func() {
				tx.ProcessConnection("10.0.0.1", 1, "10.0.0.2", 80)
				tx.ProcessURI("/u?q=1", "POST", "HTTP/1.1")
				if b.CT != "" {
					tx.AddRequestHeader("Content-Type", b.CT)
				}
				tx.AddRequestHeader("X-F", b.Flags)
			}) {
				return
			}
			var it *types.Interruption
			if !do(func() { it = tx.ProcessRequestHeaders() }) || interrupted(it) {
				return
			}
			if b.Body != "" {
				// two chunks, so that the spill happens in the middle of the body
				half := len(b.Body) / 2
				for _, chunk := range []string{b.Body[:half], b.Body[half:]} {
					var n int
					var err error
					if !do(func() { it, n, err = tx.WriteRequestBody([]byte(chunk)) }) {
						return
					}
					if err != nil {
						signal("WriteRequestBody error: " + err.Error())
					} else {
						res.acked += n
					}
					if interrupted(it) {
						return
					}
				}
			}
			var err error
			if !do(func() { it, err = tx.ProcessRequestBody() }) {
				return
			}
			if err != nil {
				signal("ProcessRequestBody error: " + err.Error())
			}
			if interrupted(it) || !b.Response {
				return
			}
			if !do(func() {
				tx.AddResponseHeader("Content-Type", "text/plain")
				it = tx.ProcessResponseHeaders(200, "HTTP/1.1")
			}) || interrupted(it) {
				return
			}
			var n int
			if !do(func() { it, n, err = tx.WriteResponseBody([]byte("response body bytes")) }) {
				return
			}
			_ = n
			if err != nil {
				signal("WriteResponseBody error: " + err.Error())
			}
			if interrupted(it) {
				return
			}
			if !do(func() { it, err = tx.ProcessResponseBody() }) {
				return
			}
			if err != nil {
				signal("ProcessResponseBody error: " + err.Error())
			}
		}()
		tx.ProcessLogging()
		tv := tx.(plugintypes.TransactionState).Variables()
		if tv.RequestBodyError().Get() == "1" {
			signal("REQBODY_ERROR")
		}
		if tv.MultipartStrictError().Get() == "1" {
			signal("MULTIPART_STRICT_ERROR")
		}
		if v := tv.TX().Get("p2"); len(v) > 0 {
			res.bodySeen = tv.RequestBody().Get()
		}
		if r, err := tx.RequestBodyReader(); err == nil {
			var bb bytes.Buffer
			if _, err := bb.ReadFrom(r); err != nil {
				signal("request body reader error: " + err.Error())
			}
		}
		if err := tx.Close(); err != nil {
			signal("Close error: " + err.Error())
		}
	})
	vrt.FaultHook = nil
	if logs.Len() > 0 {
		signal("error log: " + firstLine(logs.String()))
	}
	res.leftTmp = listDir(d.tmp)
	res.leftUp = listDir(d.upload)
	if withProbe && res.panicText == "" {
		res.probe = probeOutcome(w)
	}
	scen.Close(w)
	res.fdDelta = fdCount() - fd0
	return res
}

func firstLine(s string) string {
	if i := strings.IndexByte(s, '\n'); i >= 0 {
		return s[:i]
	}
	return s
}

type kase struct {
	Base    int    `json:"base"`
	Name    string `json:"name"`
	Stop    int    `json:"stop_after"`
	Choices []int  `json:"fault_choices,omitempty"`
}

// retained reports how many upload files the base legitimately keeps.
func (b base) retains() bool {
	return b.Keep == "On" || (b.Keep == "RelevantOnly" && b.Logged)
}

func judge(b base, k kase, res result, ref string, report func(sig, text string)) {
	desc := fmt.Sprintf("base %q, abandoned after %d calls, fault %v\nfile-system operations: %v\nsignals: %q", b.Name, k.Stop, res.faulted, res.ops, res.signals)
	if res.panicText != "" {
		report("panic:"+res.panicText, desc+"\npanic: "+res.panicText)
		return
	}
	if b.BadBody && res.faulted == nil && k.Stop < 0 && len(res.signals) == 0 {
		report("body-parse-error-swallowed:"+b.Name, desc+"\nthe body cannot be parsed by its processor, yet no call returned an error, no error variable is set and nothing was logged at Error level: the body counts as inspected")
	}
	if res.faulted != nil && len(res.signals) == 0 {
		report("failure-swallowed:"+res.faulted.Op+" "+res.faulted.Name, desc+"\nthe injected failure produced no returned error, no error variable and no Error-level log record")
	}
	if res.faulted == nil && k.Stop < 0 && res.bodySeen != "" && len(res.bodySeen) < res.acked && len(res.signals) == 0 && !strings.Contains(b.Conf, "ProcessPartial") {
		report("body-shorter-than-acknowledged", desc+fmt.Sprintf("\nphase 2 saw %d bytes, %d were acknowledged", len(res.bodySeen), res.acked))
	}
	// temporary files
	// a file whose own remove (or close) was made to fail may stay; every other temporary file must be gone
	others := func(left []string) []string {
		var out []string
		for _, f := range left {
			own := false
			for _, g := range res.faultedOn {
				own = own || f == g
			}
			if !own {
				out = append(out, f)
			}
		}
		return out
	}
	if left := others(res.leftTmp); len(left) > 0 {
		report("temp-file-left:spill:"+faultClass(res.faulted, k), desc+fmt.Sprintf("\nfiles left in the temp directory after Close: %v", res.leftTmp))
	}
	if left := others(res.leftUp); len(left) > 0 && !b.retains() {
		report("temp-file-left:upload:"+faultClass(res.faulted, k), desc+fmt.Sprintf("\nfiles left in the upload directory after Close (SecUploadKeepFiles %s, logged match %v): %v; only %v had a failing remove / close", b.Keep, b.Logged, res.leftUp, res.faultedOn))
	}
	if res.fdDelta > 0 {
		report("descriptor-leak:"+faultClass(res.faulted, k), desc+fmt.Sprintf("\n%d file descriptors still open after Close", res.fdDelta))
	}
	if ref != "" && res.probe != "" && res.probe != ref {
		report("recycled-object-differs:"+faultClass(res.faulted, k), desc+"\nprobe on the recycled object differs from the fresh outcome:\n"+diff(res.probe, ref))
	}
}

func faultClass(f *fsOp, k kase) string {
	if f == nil {
		if k.Stop >= 0 {
			return "abandoned"
		}
		return "no-fault"
	}
	return "after failing " + f.Op + " " + f.Name
}

func diff(got, want string) string {
	w := map[string]bool{}
	for _, l := range strings.Split(want, "\n") {
		w[l] = true
	}
	var sb strings.Builder
	n := 0
	for _, l := range strings.Split(got, "\n") {
		if !w[l] && n < 6 {
			fmt.Fprintf(&sb, "  recycled: %s\n", l)
			n++
		}
	}
	return sb.String()
}

// hangAfter: an execution (one transaction, its Close and the probe on the recycled object: milliseconds) that has not
// returned after this long is taken for a hang (e.g. a lock left held on a failure path).
const hangAfter = 90 * time.Second

func run(c *runner.Ctx) {
	_ = os.Setenv("TMPDIR", filepath.Join(c.Work, "tmp"))
	d := mkdirs(c.Work)
	bound := 1
	if c.Thorough() {
		bound = 3
	}
	// reference probe on a brand-new WAF/object
	var ref string
	{
		w, err := scen.Build(bases()[0].conf(d))
		if err != nil {
			panic("C20: " + err.Error())
		}
		ref = probeOutcome(w)
		scen.Close(w)
	}
	for bi, b := range bases() {
		if !c.Mine(bi) || c.Expired() {
			continue
		}
		// the probe reference depends on the configuration (limits, keep files): take it per base, fault free
		wref, err := scen.Build(b.conf(d))
		if err != nil {
			c.Violation("build:"+err.Error(), "configuration rejected: "+err.Error()+"\n"+b.conf(d), kase{Base: bi, Name: b.Name})
			continue
		}
		ref = probeOutcome(wref)
		scen.Close(wref)
		d = mkdirs(c.Work)
		// 1. fault free, full run: the operation list
		stopWatch := c.Watch("fault-free", kase{Base: bi, Name: b.Name, Stop: -1}, hangAfter)
		free := execute(b, d, -1, nil, true)
		stopWatch()
		judge(b, kase{Base: bi, Name: b.Name, Stop: -1}, free, ref, func(sig, text string) { c.Violation(sig, text, kase{Base: bi, Name: b.Name, Stop: -1}) })
		c.Count("evaluations", 1)
		c.Note("base %q: %d file-system operations fault free", b.Name, len(free.ops))
		if c.WantSample() && len(free.ops) > 3 {
			c.Sample(map[string]any{"base": b.Name, "fault_free_operations": free.ops})
		}
		// 2. every operation fails in turn (bound = number of simultaneous faults)
		st := mc.Explore(mc.Options{Bound: bound, MaxExecs: 200000, Stop: c.Expired}, func(cx *mc.Ctx) {
			d = mkdirs(c.Work)
			stopWatch := c.Watch("after-injected-fault", func() any { return kase{Base: bi, Name: b.Name, Stop: -1, Choices: cx.Choices()} }, hangAfter)
			res := execute(b, d, -1, cx, true)
			stopWatch()
			k := kase{Base: bi, Name: b.Name, Stop: -1, Choices: cx.Choices()}
			c.Count("evaluations", 1)
			judge(b, k, res, ref, func(sig, text string) { c.Violation(sig, text, k) })
			if res.faulted != nil {
				c.Distinct(fmt.Sprintf("%d|%v", bi, cx.Choices()))
				c.Outcome(fmt.Sprintf("%v|%v", res.faulted, len(res.signals) > 0))
			}
		})
		if st.Capped {
			c.Incomplete("fault exploration cut for base " + b.Name)
		}
		// 3. abandonment after each API call
		for stop := 0; stop <= 9; stop++ {
			d = mkdirs(c.Work)
			k := kase{Base: bi, Name: b.Name, Stop: stop}
			stopWatch := c.Watch("abandoned", k, hangAfter)
			res := execute(b, d, stop, nil, true)
			stopWatch()
			c.Count("evaluations", 1)
			judge(b, k, res, ref, func(sig, text string) { c.Violation(sig, text, k) })
			c.Distinct(fmt.Sprintf("%d|stop%d", bi, stop))
		}
	}
	c.Extra("simultaneous_faults", bound)
}

func replay(raw json.RawMessage) (bool, string) {
	var k kase
	if err := json.Unmarshal(raw, &k); err != nil {
		return false, err.Error()
	}
	work, _ := os.MkdirTemp("", "c20-replay-")
	defer os.RemoveAll(work)
	_ = os.Setenv("TMPDIR", filepath.Join(work, "tmp"))
	d := mkdirs(work)
	b := bases()[k.Base]
	wref, err := scen.Build(b.conf(d))
	if err != nil {
		return true, err.Error()
	}
	ref := probeOutcome(wref)
	scen.Close(wref)
	d = mkdirs(work)
	var sb strings.Builder
	viol := false
	rep := func(sig, text string) {
		viol = true
		fmt.Fprintf(&sb, "VIOLATED %s\n%s\n", sig, text)
	}
	if k.Choices != nil {
		mc.Replay(k.Choices, func(cx *mc.Ctx) { judge(b, k, execute(b, d, k.Stop, cx, true), ref, rep) })
	} else {
		judge(b, k, execute(b, d, k.Stop, nil, true), ref, rep)
	}
	return viol, sb.String()
}
