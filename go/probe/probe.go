// Package probe turns what the public API lets a caller observe about a
// transaction into one canonical, comparable value (DESIGN.md §2.6).
package probe

import (
	"fmt"
	"io"
	"reflect"
	"runtime"
	"sort"
	"strings"

	"github.com/corazawaf/coraza/v3/collection"
	"github.com/corazawaf/coraza/v3/experimental/plugins/plugintypes"
	"github.com/corazawaf/coraza/v3/internal/verif/vrt"
	"github.com/corazawaf/coraza/v3/types"
)

// Match is one fired rule.
type Match struct {
	ID         int
	Datas      []string // sorted "VAR|key|value" (multiset)
	DatasOrd   []string // in reported order, with message/data/chain level
	Msg        string
	Data       string
	Disruptive bool
}

// Outcome of a transaction.
type Outcome struct {
	Calls        []string            `json:",omitempty"` // return values of API calls, in order
	Interruption string              `json:",omitempty"`
	Matched      []Match             `json:",omitempty"`
	Vars         map[string][]string `json:",omitempty"`
	Extra        map[string]string   `json:",omitempty"`
	Panic        string              `json:",omitempty"`
}

// Itr renders an interruption.
func Itr(it *types.Interruption) string {
	if it == nil {
		return "-"
	}
	return fmt.Sprintf("{rule=%d action=%s status=%d data=%q}", it.RuleID, it.Action, it.Status, it.Data)
}

// Matches renders MatchedRules().
func Matches(tx types.Transaction) []Match {
	var out []Match
	for _, mr := range tx.MatchedRules() {
		m := Match{ID: mr.Rule().ID(), Msg: mr.Message(), Data: mr.Data(), Disruptive: mr.Disruptive()}
		for _, md := range mr.MatchedDatas() {
			m.Datas = append(m.Datas, fmt.Sprintf("%s|%s|%s", md.Variable().Name(), md.Key(), md.Value()))
			m.DatasOrd = append(m.DatasOrd, fmt.Sprintf("%s|%s|%s|msg=%s|data=%s|lvl=%d", md.Variable().Name(), md.Key(), md.Value(), md.Message(), md.Data(), md.ChainLevel()))
		}
		sort.Strings(m.Datas)
		out = append(out, m)
	}
	return out
}

// Core returns the order-independent core of an outcome as a string:
// interruption, fired rule ids in order, per-rule multisets.
func (o *Outcome) Core() string {
	var sb strings.Builder
	if o.Panic != "" {
		fmt.Fprintf(&sb, "PANIC %s\n", o.Panic)
	}
	fmt.Fprintf(&sb, "itr=%s\n", o.Interruption)
	for _, m := range o.Matched {
		fmt.Fprintf(&sb, "rule %d disruptive=%v %q\n", m.ID, m.Disruptive, m.Datas)
	}
	return sb.String()
}

// volatile variables that legitimately differ between runs.
var volatile = map[string]bool{
	"UNIQUE_ID": true, "DURATION": true, "TIME": true, "TIME_DAY": true, "TIME_EPOCH": true,
	"TIME_HOUR": true, "TIME_MIN": true, "TIME_MON": true, "TIME_SEC": true, "TIME_WDAY": true, "TIME_YEAR": true,
	"ENV": true,
}

// Vars dumps every collection reachable through the plugin interface
// (all getter methods, not just All()). Values are sorted per collection.
func Vars(tx types.Transaction, skip map[string]bool) map[string][]string {
	ts, ok := tx.(plugintypes.TransactionState)
	if !ok {
		return nil
	}
	saved := vrt.SetMapOrderOff(true)
	defer vrt.SetMapOrderOff(saved)
	out := map[string][]string{}
	tv := ts.Variables()
	rv := reflect.ValueOf(tv)
	rt := rv.Type()
	colT := reflect.TypeOf((*collection.Collection)(nil)).Elem()
	for i := 0; i < rt.NumMethod(); i++ {
		m := rt.Method(i)
		if m.Type.NumIn() != 1 || m.Type.NumOut() != 1 || !m.Type.Out(0).Implements(colT) {
			continue
		}
		res := rv.Method(i).Call(nil)[0]
		if res.IsNil() {
			continue
		}
		col := res.Interface().(collection.Collection)
		name := col.Name()
		if volatile[name] || skip[name] {
			continue
		}
		var vals []string
		for _, md := range col.FindAll() {
			if md.Key() == "" && md.Value() == "" {
				continue
			}
			vals = append(vals, md.Key()+"="+md.Value())
		}
		if len(vals) == 0 {
			continue
		}
		sort.Strings(vals)
		out[m.Name+"/"+name] = vals
	}
	return out
}

// ReadAll reads a body reader to the end, reporting errors in-band.
func ReadAll(r io.Reader, err error) string {
	if err != nil {
		return "ERR:" + err.Error()
	}
	if r == nil {
		return "<nil>"
	}
	b, err := io.ReadAll(r)
	if err != nil {
		return fmt.Sprintf("%q+ERR:%v", b, err)
	}
	return fmt.Sprintf("%q", b)
}

// Safe runs f and returns a description of the panic it raised, if any: the
// message plus the innermost coraza (non-verif) frame.
func Safe(f func()) (pan string) {
	defer func() {
		if r := recover(); r != nil {
			if nd, ok := r.(interface{ Error() string }); ok && strings.HasPrefix(nd.Error(), "HARNESS-NONDETERMINISM") {
				panic(r)
			}
			pan = fmt.Sprintf("%v @ %s", r, innermostFrame())
		}
	}()
	f()
	return ""
}

func innermostFrame() string {
	pcs := make([]uintptr, 64)
	n := runtime.Callers(3, pcs)
	frames := runtime.CallersFrames(pcs[:n])
	first := ""
	for {
		fr, more := frames.Next()
		fn := fr.Function
		if strings.Contains(fn, "corazawaf/coraza/v3") && !strings.Contains(fn, "/internal/verif/") {
			short := fn[strings.LastIndex(fn, "/")+1:]
			return short
		}
		if first == "" && !strings.HasPrefix(fn, "runtime.") {
			first = fn
		}
		if !more {
			break
		}
	}
	return first
}
