package c10

import (
	"bytes"
	"fmt"
	"io"
	"strings"

	"github.com/corazawaf/coraza/v3/internal/verif/probe"
	"github.com/corazawaf/coraza/v3/internal/verif/runner"
	"github.com/corazawaf/coraza/v3/internal/verif/scen"
)

// Large chunks and a caller that reuses its buffer. The histories of the main
// search move a few bytes per call; sizes at which an implementation could
// switch strategy (powers of two and their neighbours up to 1 MiB) are covered
// here: the body is supplied in chunks of one size out of a single buffer the
// caller overwrites before the next chunk (the usual streaming loop), on the
// request and on the response side, through the slice and the reader entry
// points, below the limit and with a spill in the middle. What is read back
// must be the bytes supplied, whatever became of the caller's buffer.
type largeCase struct {
	Large  bool   `json:"large"`
	Side   string `json:"side"`  // req | resp
	Entry  string `json:"entry"` // write | readfrom
	Chunk  int    `json:"chunk"`
	Chunks int    `json:"chunks"`
	Mem    int    `json:"mem"` // in-memory limit (0 = not set); the body limit is always above the body
}

func largeCases(thorough bool) []largeCase {
	sizes := []int{1, 4095, 4096, 32768, 32769, 65535, 65536, 65537, 131072, 1 << 20}
	if !thorough {
		sizes = []int{4096, 32768, 65536, 65537, 1 << 20}
	}
	var out []largeCase
	for _, side := range []string{"req", "resp"} {
		for _, entry := range []string{"write", "readfrom"} {
			for _, sz := range sizes {
				for _, n := range []int{1, 3} {
					out = append(out, largeCase{Large: true, Side: side, Entry: entry, Chunk: sz, Chunks: n})
					if side == "req" && n == 3 {
						// the second chunk crosses the in-memory limit
						out = append(out, largeCase{Large: true, Side: side, Entry: entry, Chunk: sz, Chunks: n, Mem: sz + sz/2 + 1})
					}
				}
			}
		}
	}
	return out
}

func (l largeCase) conf() string {
	var sb strings.Builder
	sb.WriteString("SecRuleEngine On\nSecRequestBodyAccess On\nSecResponseBodyAccess On\nSecResponseBodyMimeType text/plain\n")
	fmt.Fprintf(&sb, "SecRequestBodyLimit %d\nSecResponseBodyLimit %d\n", 8<<20, 8<<20)
	if l.Mem > 0 {
		fmt.Fprintf(&sb, "SecRequestBodyInMemoryLimit %d\n", l.Mem)
	}
	return sb.String()
}

// chunkBytes is the content of chunk i: its own letter, so that loss, duplication and aliasing are all visible.
func chunkBytes(buf []byte, i int) {
	for j := range buf {
		buf[j] = byte('a' + i)
	}
	copy(buf, fmt.Sprintf("<%d>", i))
}

func runLarge(c *runner.Ctx, idx *int) {
	for _, l := range largeCases(c.Thorough()) {
		*idx++
		if !c.Mine(*idx) || c.Expired() {
			continue
		}
		stop := c.Watch("large-chunks", l, 3*60e9)
		sig, text := executeLarge(l)
		stop()
		c.Count("evaluations", 1)
		c.Count("large_chunk_cases", 1)
		b := fmt.Sprintf("%+v", l)
		c.Distinct("large:" + b)
		c.Outcome("large:" + sig)
		if sig != "" {
			c.Violation(sig, text, l)
		}
	}
}

func executeLarge(l largeCase) (string, string) {
	w, err := scen.Build(l.conf())
	if err != nil {
		return "build:" + err.Error(), err.Error()
	}
	defer scen.Close(w)
	var want bytes.Buffer
	var got string
	var failure string
	pan := probe.Safe(func() {
		tx := w.NewTransaction()
		defer tx.Close()
		tx.ProcessConnection("10.0.0.1", 1, "10.0.0.2", 80)
		tx.ProcessURI("/p", "POST", "HTTP/1.1")
		tx.AddRequestHeader("Content-Type", "text/plain")
		tx.ProcessRequestHeaders()
		if l.Side == "resp" {
			tx.ProcessRequestBody()
			tx.AddResponseHeader("Content-Type", "text/plain")
			tx.ProcessResponseHeaders(200, "HTTP/1.1")
		}
		buf := make([]byte, l.Chunk)
		for i := 0; i < l.Chunks; i++ {
			chunkBytes(buf, i)
			want.Write(buf)
			var n int
			var err error
			switch {
			case l.Side == "req" && l.Entry == "write":
				_, n, err = tx.WriteRequestBody(buf)
			case l.Side == "req":
				_, n, err = tx.ReadRequestBodyFrom(plainReader{bytes.NewReader(buf)})
			case l.Entry == "write":
				_, n, err = tx.WriteResponseBody(buf)
			default:
				_, n, err = tx.ReadResponseBodyFrom(plainReader{bytes.NewReader(buf)})
			}
			if err != nil || n != len(buf) {
				failure = fmt.Sprintf("chunk %d: %d of %d bytes taken, err=%v", i, n, len(buf), err)
				return
			}
			// the caller's buffer is its own again
			for j := range buf {
				buf[j] = '#'
			}
		}
		var r io.Reader
		if l.Side == "req" {
			r, err = tx.RequestBodyReader()
		} else {
			r, err = tx.ResponseBodyReader()
		}
		if err != nil {
			failure = "body reader: " + err.Error()
			return
		}
		b, err := io.ReadAll(r)
		if err != nil {
			failure = "reading the body back: " + err.Error()
			return
		}
		got = string(b)
	})
	switch {
	case pan != "":
		return "large-chunks:panic:" + pan, pan
	case failure != "":
		return "large-chunks:not-taken", failure
	case got != want.String():
		at := 0
		for at < len(got) && at < want.Len() && got[at] == want.Bytes()[at] {
			at++
		}
		kind := "bytes-differ"
		if strings.Contains(got, "#") {
			kind = "stored-body-follows-the-callers-buffer"
		}
		return "large-chunks:" + kind, fmt.Sprintf("%d chunk(s) of %d bytes (%s side, %s): %d bytes supplied, %d read back, first difference at offset %d (got %q, want %q)",
			l.Chunks, l.Chunk, l.Side, l.Entry, want.Len(), len(got), at, clipAt(got, at), clipAt(want.String(), at))
	}
	return "", ""
}

func clipAt(s string, at int) string {
	if at > len(s) {
		at = len(s)
	}
	e := at + 12
	if e > len(s) {
		e = len(s)
	}
	return s[at:e]
}
