// Package c10 decides C10: body buffering is byte-faithful and limits are
// enforced exactly (DESIGN.md §3 C10).
package c10

import (
	"bytes"
	"encoding/json"
	"errors"
	"fmt"
	"io"
	"strings"
	"time"

	coraza "github.com/corazawaf/coraza/v3"
	"github.com/corazawaf/coraza/v3/experimental/plugins/plugintypes"
	"github.com/corazawaf/coraza/v3/internal/verif/bfs"
	"github.com/corazawaf/coraza/v3/internal/verif/probe"
	"github.com/corazawaf/coraza/v3/internal/verif/runner"
	"github.com/corazawaf/coraza/v3/internal/verif/scen"
	"github.com/corazawaf/coraza/v3/internal/verif/vrt"
	"github.com/corazawaf/coraza/v3/types"
)

func init() {
	runner.Register(&runner.Check{
		ID:    "C10",
		Level: "model_checking",
		Rule: "large-chunk family: 1 or 3 chunks of one size in {4 KiB, 32 KiB, 64 KiB, 64 KiB+1, 1 MiB} (thorough: 10 sizes from 1 byte) supplied out of one buffer that the caller overwrites after every call, request and response side, slice and reader entry points, with and without a spill at the second chunk: the body read back equals the bytes supplied. Main search: configuration = side {request, response} x limit L in 1..5 (thorough 1..9) x in-memory limit M in {L, 1, L-1} (request side: M<L spills to a temp file) x action {Reject, ProcessPartial} x body processor {urlencoded, RAW via ctl} x optional per-transaction ctl:requestBodyLimit/responseBodyLimit in {2, 6 (above the configured limit), 0, -1} (non-positive values must not take effect); " +
			"breadth-first search over all sequences (depth <= 4 quick / 8 thorough) of 13 body-supplying calls {Write(0..3 bytes), ReadFrom(reader with Len, 1/2/3/5 bytes), ReadFrom(plain reader, 1/2/3/5 bytes), ReadFrom(reader failing after 2 bytes)}; byte i of the supplied stream is 'a'+i so loss, duplication and reordering are visible; " +
			"on every transition the returned (interruption, n, err), the body reader content, REQUEST_BODY/RESPONSE_BODY after the body phase, INBOUND/OUTBOUND_DATA_ERROR and the body-phase counter are compared with an arithmetic model; a state is (stored bytes, bytes offered, interruption, body-phase count, limit flag); every history is then repeated on the pool-recycled transaction object, which must behave identically",
		Assumptions: []string{
			"what a connector supplies after a Reject has been returned is outside the property (those states are terminal)",
			"the body phase is entered the canonical way (headers phase first), as the limit-triggered partial processing requires",
		},
		Run:    run,
		Replay: replay,
	})
}

type cfg struct {
	Side   string `json:"side"` // req | resp
	L      int    `json:"limit"`
	M      int    `json:"mem_limit"`
	Action string `json:"action"`
	Proc   string `json:"processor"`           // urlencoded | raw
	Ctl    *int   `json:"ctl_limit,omitempty"` // phase-1/3 ctl:requestBodyLimit / responseBodyLimit value
}

// lim is the limit in force: a ctl override when it is a usable (positive) value.
func (c cfg) lim() int {
	if c.Ctl != nil && *c.Ctl > 0 {
		return *c.Ctl
	}
	return c.L
}

type kase struct {
	Cfg  cfg   `json:"cfg"`
	Hist []int `json:"history"`
}

type opT struct {
	name string
	kind string // write | lenreader | plainreader | errreader
	n    int
}

var ops = []opT{
	{"Write(0)", "write", 0}, {"Write(1)", "write", 1}, {"Write(2)", "write", 2}, {"Write(3)", "write", 3},
	{"ReadFrom(len 1)", "lenreader", 1}, {"ReadFrom(len 2)", "lenreader", 2}, {"ReadFrom(len 3)", "lenreader", 3}, {"ReadFrom(len 5)", "lenreader", 5},
	{"ReadFrom(plain 1)", "plainreader", 1}, {"ReadFrom(plain 2)", "plainreader", 2}, {"ReadFrom(plain 3)", "plainreader", 3}, {"ReadFrom(plain 5)", "plainreader", 5},
	{"ReadFrom(fails after 2)", "errreader", 2},
	// io.LimitedReader over a reader of unknown length: its N is a cap, not the length of the body
	{"ReadFrom(limited plain 2)", "limitreader", 2}, {"ReadFrom(limited plain 3)", "limitreader", 3},
}

func (c cfg) conf() string {
	var sb strings.Builder
	sb.WriteString("SecRuleEngine On\n")
	if c.Side == "req" {
		fmt.Fprintf(&sb, "SecRequestBodyAccess On\nSecRequestBodyLimit %d\nSecRequestBodyInMemoryLimit %d\nSecRequestBodyLimitAction %s\n", c.L, c.M, c.Action)
		if c.Proc == "raw" {
			sb.WriteString("SecAction \"id:1,phase:1,pass,nolog,ctl:requestBodyProcessor=RAW\"\n")
		}
		if c.Ctl != nil {
			fmt.Fprintf(&sb, "SecAction \"id:3,phase:1,pass,nolog,ctl:requestBodyLimit=%d\"\n", *c.Ctl)
		}
		sb.WriteString("SecAction \"id:2,phase:2,pass,nolog,setvar:tx.body=+1\"\n")
	} else {
		fmt.Fprintf(&sb, "SecResponseBodyAccess On\nSecResponseBodyLimit %d\nSecResponseBodyLimitAction %s\nSecResponseBodyMimeType text/plain\n", c.L, c.Action)
		if c.Ctl != nil {
			fmt.Fprintf(&sb, "SecAction \"id:3,phase:3,pass,nolog,ctl:responseBodyLimit=%d\"\n", *c.Ctl)
		}
		sb.WriteString("SecAction \"id:2,phase:4,pass,nolog,setvar:tx.body=+1\"\n")
	}
	return sb.String()
}

type plainReader struct{ r *bytes.Reader }

func (p plainReader) Read(b []byte) (int, error) { return p.r.Read(b) }

type errReader struct {
	data []byte
}

var errInjected = errors.New("injected read error")

func (e *errReader) Read(b []byte) (int, error) {
	if len(e.data) == 0 {
		return 0, errInjected
	}
	n := copy(b, e.data[:1])
	e.data = e.data[n:]
	return n, nil
}

func stream(from, n int) []byte {
	b := make([]byte, n)
	for i := range b {
		b[i] = byte('a' + (from+i)%26)
	}
	return b
}

// model state
type mstate struct {
	stored   []byte
	offered  int
	itr      bool
	phaseRan int
	limitHit bool
	done     bool // ProcessPartial reached the limit: later bytes are ignored
}

// mstep advances the model and returns the expected (interrupted-now, n, errExpected, specified)
func (c cfg) mstep(m *mstate, o opT) (wantItr bool, wantN int, wantErr bool) {
	data := stream(m.offered, o.n)
	m.offered += o.n
	if m.done {
		return false, 0, false
	}
	room := c.lim() - len(m.stored)
	known := o.kind == "write" || o.kind == "lenreader"
	if known {
		if o.n >= room {
			m.limitHit = true
			if c.Action == "Reject" {
				m.itr = true
				return true, 0, false
			}
			m.stored = append(m.stored, data[:room]...)
			m.done = true
			m.phaseRan = 1
			return false, room, false
		}
		m.stored = append(m.stored, data...)
		return false, o.n, false
	}
	// unknown length: at most `room` bytes are taken from the reader
	take := o.n
	if take > room {
		take = room
	}
	m.stored = append(m.stored, data[:take]...)
	if o.kind == "errreader" && o.n < room {
		// the reader fails after its bytes, before the limit is reached
		return false, take, true
	}
	if len(m.stored) == c.lim() {
		m.limitHit = true
		if c.Action == "Reject" {
			m.itr = true
			return true, take, false
		}
		m.done = true
		m.phaseRan = 1
		return false, take, false
	}
	return false, take, false
}

func (m *mstate) key() string {
	return fmt.Sprintf("stored=%q offered=%d itr=%v phase=%d hit=%v done=%v", m.stored, m.offered, m.itr, m.phaseRan, m.limitHit, m.done)
}

func configs(thorough bool, emit func(cfg)) {
	for _, side := range []string{"req", "resp"} {
		maxL := 5
		if thorough {
			maxL = 9
		}
		for L := 1; L <= maxL; L++ {
			ms := []int{L}
			if side == "req" {
				if L > 1 {
					ms = append(ms, 1)
				}
				if L > 2 {
					ms = append(ms, L-1)
				}
			}
			for _, M := range ms {
				for _, a := range []string{"Reject", "ProcessPartial"} {
					procs := []string{"urlencoded"}
					if side == "req" && (thorough || L == 3) {
						procs = append(procs, "raw")
					}
					for _, p := range procs {
						emit(cfg{Side: side, L: L, M: M, Action: a, Proc: p})
					}
					if L == 4 && M == L {
						// per-transaction limit overrides: lower, higher than the configured limit, zero, negative
						for _, v := range []int{2, 6, 0, -1} {
							v := v
							emit(cfg{Side: side, L: L, M: M, Action: a, Proc: "urlencoded", Ctl: &v})
						}
					}
				}
			}
		}
	}
}

type step struct {
	ret    string
	reader string
	bodyV  string
	flag   string
	phase  string
	itr    string
}

// execute replays hist on a fresh transaction and compares every step with
// the model. Returns the model key of the reached state and whether the state
// is terminal.
func execute(w coraza.WAF, c cfg, hist []int, report func(sig, text string)) (key string, terminal bool) {
	var tx types.Transaction
	m := &mstate{}
	pan := probe.Safe(func() {
		tx = w.NewTransaction()
		tx.ProcessURI("/p", "POST", "HTTP/1.1")
		tx.AddRequestHeader("Content-Type", "application/x-www-form-urlencoded")
		tx.ProcessRequestHeaders()
		if c.Side == "resp" {
			_, _ = tx.ProcessRequestBody()
			tx.AddResponseHeader("Content-Type", "text/plain")
			tx.ProcessResponseHeaders(200, "HTTP/1.1")
		}
		tv := tx.(plugintypes.TransactionState).Variables()
		// a reader handed out before any body byte arrives (connectors may do that)
		var early io.Reader
		if c.Side == "req" {
			early, _ = tx.RequestBodyReader()
		} else {
			early, _ = tx.ResponseBodyReader()
		}
		for i, oi := range hist {
			o := ops[oi]
			data := stream(m.offered, o.n)
			var r io.Reader
			switch o.kind {
			case "lenreader":
				r = bytes.NewReader(data)
			case "plainreader":
				r = plainReader{bytes.NewReader(data)}
			case "errreader":
				r = &errReader{data: data}
			case "limitreader":
				r = io.LimitReader(plainReader{bytes.NewReader(data)}, int64(len(data))+100)
			}
			var it *types.Interruption
			var n int
			var err error
			switch {
			case c.Side == "req" && o.kind == "write":
				it, n, err = tx.WriteRequestBody(data)
			case c.Side == "req":
				it, n, err = tx.ReadRequestBodyFrom(r)
			case o.kind == "write":
				it, n, err = tx.WriteResponseBody(data)
			default:
				it, n, err = tx.ReadResponseBodyFrom(r)
			}
			wantItr, wantN, wantErr := c.mstep(m, o)
			last := i == len(hist)-1
			if !last {
				continue
			}
			// returned values
			status := 413
			if c.Side == "resp" {
				status = 500
			}
			if wantItr {
				if it == nil || it.Status != status {
					report("reject-not-signalled:"+o.kind, fmt.Sprintf("%s must be refused with status %d (cumulative size reaches limit %d) but returned interruption %s", o.name, status, c.lim(), probe.Itr(it)))
				}
			} else if it != nil {
				report("unexpected-interruption:"+o.kind, fmt.Sprintf("%s returned interruption %s although the cumulative size stays below the limit or the action is ProcessPartial", o.name, probe.Itr(it)))
			}
			if wantN >= 0 && n != wantN && !wantItr {
				report("wrong-byte-count:"+o.kind, fmt.Sprintf("%s returned n=%d, model expects %d (stored so far %q)", o.name, n, wantN, m.stored))
			}
			if wantErr != (err != nil) {
				report("error-reporting:"+o.kind, fmt.Sprintf("%s returned err=%v, error expected=%v", o.name, err, wantErr))
			}
			// buffered bytes
			var rd string
			if c.Side == "req" {
				rd = probe.ReadAll(tx.RequestBodyReader())
			} else {
				rd = probe.ReadAll(tx.ResponseBodyReader())
			}
			if rd != fmt.Sprintf("%q", m.stored) {
				report("stored-bytes-differ:"+spillClass(c), fmt.Sprintf("after %s the body reader yields %s, the model holds %q (limit %d, memory limit %d)", o.name, rd, m.stored, c.L, c.M))
			}
			// the same through a reader that is first read a byte and then drained with io.Copy (which prefers WriterTo)
			{
				var rr io.Reader
				if c.Side == "req" {
					rr, _ = tx.RequestBodyReader()
				} else {
					rr, _ = tx.ResponseBodyReader()
				}
				if rr != nil {
					var got bytes.Buffer
					one := make([]byte, 1)
					if n, _ := rr.Read(one); n == 1 {
						got.Write(one)
					}
					_, _ = io.Copy(&got, rr)
					if got.String() != string(m.stored) {
						report("stored-bytes-differ:read-then-copy:"+spillClass(c), fmt.Sprintf("after %s a body reader read one byte and then drained by io.Copy yields %q, the model holds %q (limit %d, memory limit %d)", o.name, got.String(), m.stored, c.L, c.M))
					}
				}
			}
			flag := tv.InboundDataError().Get()
			if c.Side == "resp" {
				flag = tv.OutboundDataError().Get()
			}
			if (flag == "1") != m.limitHit {
				report("limit-flag-wrong", fmt.Sprintf("after %s the data-error flag is %q, limit reached in the model: %v", o.name, flag, m.limitHit))
			}
			ph := phaseCount(tv)
			if ph != m.phaseRan {
				report("body-phase-count-wrong:"+c.Action, fmt.Sprintf("after %s the body phase ran %d time(s), model expects %d", o.name, ph, m.phaseRan))
			}
			if m.phaseRan == 1 {
				checkBodyVar(c, tv, m, report)
			}
		}
		if early != nil && len(hist) > 0 {
			if got := probe.ReadAll(early, nil); got != fmt.Sprintf("%q", m.stored) {
				report("early-reader-differs:"+spillClass(c), fmt.Sprintf("a body reader obtained before the writes yields %s at the end, the bytes supplied up to the limit are %q (limit %d, memory limit %d)", got, m.stored, c.lim(), c.M))
			}
		}
		// the body phase, then the variables rules see
		if !m.itr {
			if c.Side == "req" {
				_, _ = tx.ProcessRequestBody()
			} else {
				_, _ = tx.ProcessResponseBody()
			}
			if ph := phaseCount(tv); ph != 1 {
				report("body-phase-count-wrong:"+c.Action, fmt.Sprintf("after the explicit body-phase call the body phase ran %d time(s)", ph))
			}
			checkBodyVar(c, tv, m, report)
		}
	})
	if tx != nil {
		if p := probe.Safe(func() { tx.Close() }); p != "" && pan == "" {
			pan = "Close: " + p
		}
	}
	if pan != "" {
		report("panic:"+pan, "panic: "+pan)
		return "PANIC", true
	}
	return m.key(), m.itr
}

func spillClass(c cfg) string {
	if c.M < c.L {
		return "spilled"
	}
	return "memory"
}

func phaseCount(tv plugintypes.TransactionVariables) int {
	if v := tv.TX().Get("body"); len(v) > 0 {
		n := 0
		fmt.Sscanf(v[0], "%d", &n)
		return n
	}
	return 0
}

func checkBodyVar(c cfg, tv plugintypes.TransactionVariables, m *mstate, report func(sig, text string)) {
	var got string
	if c.Side == "req" {
		got = tv.RequestBody().Get()
	} else {
		got = tv.ResponseBody().Get()
	}
	if len(m.stored) == 0 {
		return // an empty body is not handed to a processor
	}
	if got != string(m.stored) {
		name := "REQUEST_BODY"
		if c.Side == "resp" {
			name = "RESPONSE_BODY"
		}
		report("body-variable-differs:"+spillClass(c), fmt.Sprintf("%s=%q but the bytes supplied up to the limit are %q (limit %d, memory limit %d)", name, got, m.stored, c.L, c.M))
	}
}

func histNames(h []int) []string {
	out := make([]string, len(h))
	for i, o := range h {
		out[i] = ops[o].name
	}
	return out
}

func run(c *runner.Ctx) {
	depth := 4
	if c.Thorough() {
		depth = 8
	}
	idx := 0
	configs(c.Thorough(), func(cf cfg) {
		idx++
		if !c.Mine(idx) || c.Expired() {
			return
		}
		conf := cf.conf()
		w, err := scen.Build(conf)
		if err != nil {
			c.Violation("build:"+err.Error(), "generated configuration rejected: "+err.Error()+"\n"+conf, kase{Cfg: cf})
			return
		}
		defer scen.Close(w)
		res := bfs.Search(len(ops), depth, 500000, func(h []int) (string, bool) {
			stopWatch := c.Watch("body-call-history", kase{cf, append([]int{}, h...)}, 2*time.Minute)
			defer stopWatch()
			key, terminal := execute(w, cf, h, func(sig, text string) {
				c.Violation(sig, fmt.Sprintf("configuration:\n%scalls: %v\n%s", conf, histNames(h), text), kase{cf, append([]int{}, h...)})
			})
			// the same history again on the object the first pass returned to the pool: buffers must start empty
			vrt.PoolMode = 1
			execute(w, cf, h, func(sig, text string) {})
			key2, _ := execute(w, cf, h, func(sig, text string) {
				c.Violation("recycled:"+sig, fmt.Sprintf("configuration:\n%scalls (second transaction on the recycled object, same calls before): %v\n%s", conf, histNames(h), text), kase{cf, append([]int{}, h...)})
			})
			vrt.PoolMode = 0
			if key2 != key {
				c.Violation("recycled:state-differs", fmt.Sprintf("configuration:\n%scalls: %v\nfresh object reaches %s, recycled object %s", conf, histNames(h), key, key2), kase{cf, append([]int{}, h...)})
			}
			c.Outcome(key)
			return key, !terminal && !c.Expired()
		})
		c.Count("states", int64(res.States))
		c.Count("transitions", int64(res.Transitions))
		c.Count("traces_validated_against_impl", int64(res.Transitions))
		c.Count("evaluations", int64(res.Transitions))
		if res.Capped {
			c.Incomplete("state cap")
		}
		b, _ := json.Marshal(cf)
		c.Distinct(string(b))
		if c.WantSample() {
			c.Sample(map[string]any{"configuration": conf, "states": res.States, "transitions": res.Transitions, "depth": res.Depth, "example_history": histNames([]int{2, 9, 12})})
		}
	})
	runLarge(c, &idx)
	c.Extra("depth_bound", depth)
}

func replay(raw json.RawMessage) (bool, string) {
	var l largeCase
	if err := json.Unmarshal(raw, &l); err == nil && l.Large {
		sig, text := executeLarge(l)
		return sig != "", fmt.Sprintf("configuration:\n%s%+v\n%s %s\n", l.conf(), l, sig, text)
	}
	var k kase
	if err := json.Unmarshal(raw, &k); err != nil {
		return false, err.Error()
	}
	conf := k.Cfg.conf()
	w, err := scen.Build(conf)
	if err != nil {
		return true, "build: " + err.Error()
	}
	defer scen.Close(w)
	var sb strings.Builder
	fmt.Fprintf(&sb, "configuration:\n%scalls: %v\n", conf, histNames(k.Hist))
	viol := false
	execute(w, k.Cfg, k.Hist, func(sig, text string) {
		viol = true
		fmt.Fprintf(&sb, "VIOLATED %s: %s\n", sig, text)
	})
	return viol, sb.String()
}
