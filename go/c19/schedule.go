package c19

import (
	"encoding/json"
	"fmt"
	"io/fs"
	"os"
	"path/filepath"
	"regexp"
	"runtime"
	"sort"
	"strings"

	coraza "github.com/corazawaf/coraza/v3"
	"github.com/corazawaf/coraza/v3/experimental/plugins"
	"github.com/corazawaf/coraza/v3/experimental/plugins/plugintypes"
	"github.com/corazawaf/coraza/v3/internal/verif/mc"
	"github.com/corazawaf/coraza/v3/internal/verif/probe"
	"github.com/corazawaf/coraza/v3/internal/verif/runner"
	"github.com/corazawaf/coraza/v3/internal/verif/scen"
	"github.com/corazawaf/coraza/v3/internal/verif/sched"
	"github.com/corazawaf/coraza/v3/internal/verif/vrt"
	"github.com/corazawaf/coraza/v3/types"
)

type schedCase struct {
	Scenario int   `json:"scenario"`
	Choices  []int `json:"choices"`
}

type schedScenario struct {
	name    string
	writer  string // Serial | Concurrent
	format  string // JSON | Native
	threads int
}

var schedScenarios = []schedScenario{
	{"serial writer, JSON, 2 threads", "Serial", "JSON", 2},
	{"serial writer, Native, 2 threads", "Serial", "Native", 2},
	{"concurrent writer, JSON, 2 threads", "Concurrent", "JSON", 2},
	{"concurrent writer, Native, 2 threads", "Concurrent", "Native", 2},
	{"serial writer, Native, 3 threads", "Serial", "Native", 3},
	{"concurrent writer, JSON, 3 threads", "Concurrent", "JSON", 3},
}

// env is one shared WAF writing below dir.
type env struct {
	sc    schedScenario
	dir   string
	log   string // SecAuditLog target (serial: the records; concurrent: the index)
	store string
	w     coraza.WAF
	solo  []string // normalized record of transaction i run alone
	index []string // normalized index entry of transaction i run alone (concurrent)
}

func (sc schedScenario) conf(dir string) string {
	return scen.Lines(
		"SecRuleEngine On",
		"SecAuditEngine On",
		"SecAuditLogType "+sc.writer,
		"SecAuditLog "+filepath.Join(dir, "audit.log"),
		"SecAuditLogStorageDir "+filepath.Join(dir, "store"),
		"SecAuditLogFormat "+sc.format,
		"SecAuditLogParts ABHKZ",
		`SecRule REQUEST_HEADERS:X-In "@rx ^v" "id:1,phase:2,pass,log,msg:'m %{MATCHED_VAR}'"`,
		`SecRule REQUEST_HEADERS:X-In "@rx ^v" "id:2,phase:5,pass,nolog,auditlog,msg:'late %{MATCHED_VAR}'"`,
	)
}

func newEnv(sc schedScenario, dir string) (*env, error) {
	e := &env{sc: sc, dir: dir, log: filepath.Join(dir, "audit.log"), store: filepath.Join(dir, "store")}
	if err := os.MkdirAll(e.store, 0o755); err != nil {
		return nil, err
	}
	w, err := scen.Build(sc.conf(dir))
	if err != nil {
		return nil, err
	}
	e.w = w
	return e, nil
}

func (e *env) reset() {
	_ = os.Truncate(e.log, 0)
	ents, _ := os.ReadDir(e.store)
	for _, d := range ents {
		_ = os.RemoveAll(filepath.Join(e.store, d.Name()))
	}
}

func txName(i int) string { return fmt.Sprintf("tx-%d", i) }

// prepare drives transaction i up to (not including) the logging phase.
func (e *env) prepare(i int) types.Transaction {
	tx := e.w.NewTransactionWithID(txName(i))
	tx.ProcessConnection(fmt.Sprintf("10.0.0.%d", i+1), 1000+i, "10.9.9.9", 80)
	tx.ProcessURI(fmt.Sprintf("/t%d?x=%d", i, i), "GET", "HTTP/1.1")
	tx.AddRequestHeader("Host", "h.example")
	tx.AddRequestHeader("X-In", "v"+strings.Repeat(string(rune('p'+i)), 60))
	tx.ProcessRequestHeaders()
	_, _ = tx.ProcessRequestBody()
	return tx
}

func finish(tx types.Transaction) {
	tx.ProcessLogging()
	_ = tx.Close()
}

// ---- normalisation ---------------------------------------------------------

var (
	nativeTS  = regexp.MustCompile(`^\[[^\]]*\] `)
	indexTS   = regexp.MustCompile(`\[[0-9/: ]+\]`)
	storePath = regexp.MustCompile(`/\d{8}/\d{8}-\d{4}/\d{8}-\d{6}-`)
)

// normalizeJSON drops the time-dependent fields of a JSON record.
func normalizeJSON(line string) (string, bool) {
	var m map[string]any
	if err := json.Unmarshal([]byte(line), &m); err != nil {
		return "", false
	}
	if t, ok := m["transaction"].(map[string]any); ok {
		delete(t, "timestamp")
		delete(t, "unix_timestamp")
		if p, ok := t["producer"].(map[string]any); ok {
			delete(p, "stopwatch")
		}
	}
	b, _ := json.Marshal(m)
	return string(b), true
}

// splitRecords cuts the content of a log file into whole records of the given
// format and normalizes them; ok=false when the content is not a sequence of
// whole records.
func splitRecords(format, content string) (recs []string, ok bool, why string) {
	switch format {
	case "JSON":
		if content != "" && !strings.HasSuffix(content, "\n") {
			return nil, false, "file does not end with a newline"
		}
		for _, l := range strings.Split(strings.TrimSuffix(content, "\n"), "\n") {
			if l == "" {
				continue
			}
			n, ok := normalizeJSON(l)
			if !ok {
				return nil, false, fmt.Sprintf("line is not a JSON document: %.120q", l)
			}
			recs = append(recs, n)
		}
		return recs, true, ""
	default:
		lines := strings.Split(content, "\n")
		i := 0
		for i < len(lines) {
			if lines[i] == "" {
				i++
				continue
			}
			m := boundaryLine.FindStringSubmatch(lines[i])
			if m == nil || m[2] != "A" {
				return nil, false, fmt.Sprintf("expected the opening boundary of a record, found %.120q", lines[i])
			}
			b := m[1]
			end := "--" + b + "-Z--"
			var rec []string
			closed := false
			for ; i < len(lines); i++ {
				l := lines[i]
				if mm := boundaryLine.FindStringSubmatch(l); mm != nil && mm[1] == b {
					rec = append(rec, "--B-"+mm[2]+"--")
				} else if len(rec) == 1 {
					rec = append(rec, nativeTS.ReplaceAllString(l, "[TS] "))
				} else {
					rec = append(rec, l)
				}
				if l == end {
					closed = true
					i++
					break
				}
			}
			if !closed {
				return nil, false, fmt.Sprintf("record with boundary %s is not closed by its Z boundary", b)
			}
			recs = append(recs, strings.Join(rec, "\n"))
		}
		return recs, true, ""
	}
}

func normalizeIndex(content string) string {
	return storePath.ReplaceAllString(indexTS.ReplaceAllString(content, "[TS]"), "/T/")
}

func (e *env) readLog() string {
	b, _ := os.ReadFile(e.log)
	return string(b)
}

// storedFiles returns name -> content of every file below the storage directory.
func (e *env) storedFiles() map[string]string {
	out := map[string]string{}
	_ = filepath.WalkDir(e.store, func(p string, d fs.DirEntry, err error) error {
		if err == nil && !d.IsDir() {
			b, _ := os.ReadFile(p)
			out[filepath.Base(p)] = string(b)
		}
		return nil
	})
	return out
}

// baseline runs every transaction alone and keeps what it writes.
func (e *env) baseline() error {
	for i := 0; i < e.sc.threads; i++ {
		e.reset()
		finish(e.prepare(i))
		switch e.sc.writer {
		case "Serial":
			recs, ok, why := splitRecords(e.sc.format, e.readLog())
			if !ok || len(recs) != 1 {
				return fmt.Errorf("transaction %d alone: %d records (%s) in %q", i, len(recs), why, e.readLog())
			}
			e.solo = append(e.solo, recs[0])
		default:
			files := e.storedFiles()
			if len(files) != 1 {
				return fmt.Errorf("transaction %d alone: %d files in the storage directory", i, len(files))
			}
			for _, content := range files {
				recs, ok, why := splitRecords(e.sc.format, content+"\n")
				if !ok || len(recs) != 1 {
					return fmt.Errorf("transaction %d alone: stored file holds %d records (%s): %q", i, len(recs), why, content)
				}
				e.solo = append(e.solo, recs[0])
			}
			e.index = append(e.index, normalizeIndex(e.readLog()))
			if !strings.Contains(e.index[i], txName(i)) {
				return fmt.Errorf("transaction %d alone: index entry without its id: %q", i, e.index[i])
			}
		}
	}
	e.reset()
	return nil
}

// ---- oracle per execution --------------------------------------------------

func multisetEqual(a, b []string) bool {
	a, b = append([]string{}, a...), append([]string{}, b...)
	sort.Strings(a)
	sort.Strings(b)
	return strings.Join(a, "\x00") == strings.Join(b, "\x00")
}

func (e *env) judge() []verdict {
	var out []verdict
	add := func(sig, f string, a ...any) { out = append(out, verdict{sig, fmt.Sprintf(f, a...)}) }
	n := e.sc.threads
	content := e.readLog()
	switch e.sc.writer {
	case "Serial":
		recs, ok, why := splitRecords(e.sc.format, content)
		switch {
		case !ok:
			add("serial:file-is-not-a-sequence-of-whole-records", "%s\nfile:\n%s", why, content)
		case len(recs) < n:
			add("serial:record-lost", "%d transactions finished, the file holds %d records\nfile:\n%s", n, len(recs), content)
		case !multisetEqual(recs, e.solo[:n]):
			add("serial:records-differ-from-solo-records", "the records in the file are not the records the transactions write alone\nfile:\n%s\nalone:\n%s", strings.Join(recs, "\n"), strings.Join(e.solo[:n], "\n"))
		}
	default:
		// one stored file per transaction, each a whole record of that transaction
		files := e.storedFiles()
		if len(files) != n {
			add("concurrent:stored-record-lost", "%d transactions finished, the storage directory holds %d files", n, len(files))
		}
		var got []string
		for name, c := range files {
			recs, ok, why := splitRecords(e.sc.format, c+"\n")
			if !ok || len(recs) != 1 {
				add("concurrent:stored-file-is-not-one-whole-record", "file %s: %s\n%s", name, why, c)
				continue
			}
			got = append(got, recs[0])
			i := -1
			for j := 0; j < n; j++ {
				if strings.HasSuffix(name, "-"+txName(j)) {
					i = j
				}
			}
			if i < 0 || recs[0] != e.solo[i] {
				add("concurrent:stored-file-holds-another-record", "file %s holds\n%s", name, recs[0])
			}
		}
		// the index: whole entries, one per transaction, in any order
		rest := normalizeIndex(content)
		left := map[int]bool{}
		for i := 0; i < n; i++ {
			left[i] = true
		}
		for rest != "" {
			hit := -1
			for i := 0; i < n; i++ {
				if left[i] && strings.HasPrefix(rest, e.index[i]) {
					hit = i
				}
			}
			if hit < 0 {
				add("concurrent:index-is-not-a-sequence-of-whole-entries", "index file:\n%s\nentries written alone:\n%s", content, strings.Join(e.index[:n], ""))
				break
			}
			delete(left, hit)
			rest = rest[len(e.index[hit]):]
		}
		if rest == "" && len(left) > 0 {
			add("concurrent:index-entry-lost", "%d transactions finished, %d index entries missing\nindex file:\n%s", n, len(left), content)
		}
	}
	return out
}

// execute runs the scenario once under cx.
func (e *env) execute(cx *mc.Ctx) (sched.Result, []verdict) {
	e.reset()
	var bodies []func()
	for i := 0; i < e.sc.threads; i++ {
		tx := e.prepare(i)
		bodies = append(bodies, func() { finish(tx) })
	}
	res := sched.Run(cx, bodies...)
	var vs []verdict
	if res.Deadlock != "" {
		vs = append(vs, verdict{"deadlock", res.Deadlock})
		return res, vs
	}
	for i, p := range res.Panics {
		if p != "" {
			vs = append(vs, verdict{"panic:" + p, fmt.Sprintf("thread %d panicked: %s", i, p)})
		}
	}
	if len(res.Leaked) > 0 {
		vs = append(vs, verdict{"lock-never-released:" + res.Leaked[0], fmt.Sprintf("every thread has returned but %d lock(s) are still held, taken in %v: the next transaction that logs blocks for ever", len(res.Leaked), res.Leaked)})
	}
	vs = append(vs, e.judge()...)
	return res, vs
}

// yieldAtFileOps makes every os file operation of the audit writers a
// scheduling point (the vos shim consults the hook before each operation).
//
// A write issued from inside log.Logger happens under the logger's own (real,
// standard-library) mutex: handing the turn to another thread there would let
// that thread block on a lock the scheduler does not model, so such a write is
// not a scheduling point (the logger call itself is one, through the vlog shim).
func yieldAtFileOps(op, name string) (error, bool) {
	if s := vrt.Scheduler; s != nil {
		if op == "write" && underStdLogger() {
			return nil, false
		}
		s.Yield("os." + op)
	}
	return nil, false
}

func underStdLogger() bool {
	pcs := make([]uintptr, 32)
	n := runtime.Callers(3, pcs)
	frames := runtime.CallersFrames(pcs[:n])
	for {
		fr, more := frames.Next()
		if strings.HasPrefix(fr.Function, "log.(*Logger).") {
			return true
		}
		if !more {
			return false
		}
	}
}

// ---- self test -------------------------------------------------------------

// splitWriter is a deliberately broken writer: a record reaches the file in two
// writes with a scheduling point in between.
type splitWriter struct {
	f *os.File
	x plugintypes.AuditLogFormatter
}

func (w *splitWriter) Init(c plugintypes.AuditLogConfig) error {
	f, err := os.OpenFile(c.Target, os.O_APPEND|os.O_CREATE|os.O_WRONLY, 0o644)
	w.f, w.x = f, c.Formatter
	return err
}
func (w *splitWriter) Close() error { return w.f.Close() }
func (w *splitWriter) Write(al plugintypes.AuditLog) error {
	b, err := w.x.Format(al)
	if err != nil {
		return err
	}
	b = append(b, '\n')
	_, _ = w.f.Write(b[:len(b)/2])
	if s := vrt.Scheduler; s != nil {
		s.Yield("split writer")
	}
	_, _ = w.f.Write(b[len(b)/2:])
	return nil
}

func init() {
	plugins.RegisterAuditLogWriter("c19split", func() plugintypes.AuditLogWriter { return &splitWriter{} })
}

// selfTest proves in this very build that the schedule oracle sees a torn
// record: the split writer must be caught under some schedule and pass under
// the sequential ones.
func selfTest(c *runner.Ctx) {
	for _, format := range []string{"JSON", "Native"} {
		sc := schedScenario{"self test", "c19split", format, 2}
		e, err := newEnv(sc, filepath.Join(c.Work, "selftest-"+format))
		if err != nil {
			panic("C19 self test: " + err.Error())
		}
		e.sc.writer = "Serial" // judged like the serial writer
		if err := e.baseline(); err != nil {
			panic("C19 self test baseline: " + err.Error())
		}
		torn, whole := 0, 0
		mc.Explore(mc.Options{Bound: 2}, func(cx *mc.Ctx) {
			_, vs := e.execute(cx)
			if len(vs) > 0 {
				torn++
			} else {
				whole++
			}
		})
		scen.Close(e.w)
		if torn == 0 || whole == 0 {
			panic(fmt.Sprintf("C19 self test (%s): the split writer was caught in %d schedules and passed in %d; both must be non-zero", format, torn, whole))
		}
		c.Note("self test %s: split writer caught in %d of %d schedules", format, torn, torn+whole)
	}
	c.RaceReports()
}

// ---- run -------------------------------------------------------------------

func runSchedules(c *runner.Ctx) {
	vrt.SetMapOrderOff(true)
	defer vrt.SetMapOrderOff(false)
	vrt.FaultHook = yieldAtFileOps
	defer func() { vrt.FaultHook = nil }()
	selfTest(c)
	bound := 2
	if c.Thorough() {
		bound = 3
	}
	loggerPoints := int64(0)
	defer func() {
		c.Count("scheduling_points_at_logger_calls", loggerPoints)
		if loggerPoints == 0 {
			c.Note("worker %d: no scheduling point was met at a log.Logger call of internal/auditlog (the vlog shim does not cover the method the writers use): logger calls were atomic with the code before them in this run", c.Worker)
		}
	}()
	for si, sc := range schedScenarios {
		e, err := newEnv(sc, filepath.Join(c.Work, fmt.Sprintf("s%d", si)))
		if err != nil {
			panic("C19: " + err.Error())
		}
		if err := e.baseline(); err != nil {
			panic("C19 baseline: " + err.Error())
		}
		c.RaceReports()
		poisoned := false // after a deadlock or a leaked lock the writer's state cannot be reused
		st := mc.Explore(mc.Options{Bound: bound, MaxExecs: 2000000, Stop: func() bool { return poisoned || c.Expired() }, Worker: c.Worker, Workers: c.Workers}, func(cx *mc.Ctx) {
			res, vs := e.execute(cx)
			if res.Deadlock != "" || len(res.Leaked) > 0 {
				poisoned = true
			}
			ch := cx.Choices()
			c.Count("evaluations", 1)
			c.Count("traces_validated_against_impl", 1)
			c.Count("transitions", int64(res.Steps))
			c.Count("states", int64(len(cx.Points)))
			for _, p := range cx.Points {
				if strings.HasPrefix(p.Label, "log.") {
					loggerPoints++
				}
			}
			k := scenario{Sched: &schedCase{si, ch}}
			report := func(sig, text string) {
				c.Violation(sig, fmt.Sprintf("scenario %q, schedule %s\n%s", sc.name, strings.Join(res.Trace, " "), text), k)
			}
			if r := c.RaceReports(); r != "" {
				report("data-race:"+runner.RaceSite(r), firstLines(r, 45))
			}
			for _, v := range vs {
				report(v.sig, v.text)
			}
			c.Outcome(fmt.Sprintf("%d:%s", si, orderOf(e)))
			c.Distinct(fmt.Sprintf("%d:%v", si, ch))
			if c.WantSample() && cx.Deviations() >= 2 {
				var labels []string
				for _, p := range cx.Points {
					labels = append(labels, p.Label)
				}
				c.Sample(map[string]any{"scenario": sc.name, "schedule": strings.Join(res.Trace, " "), "scheduling_points": labels, "log_file": e.readLog()})
			}
		})
		if st.Capped || c.Expired() || poisoned {
			c.Incomplete(fmt.Sprintf("scenario %q: exploration cut (%d executions)", sc.name, st.Execs))
		}
		c.Note("scenario %q worker %d/%d: %d schedules, max depth %d, preemption bound %d", sc.name, c.Worker, c.Workers, st.Execs, st.MaxDepth, bound)
		scen.Close(e.w)
	}
}

var txInLog = regexp.MustCompile(`tx-\d`)

// orderOf is the order in which the transactions appear in the log file (the
// observable outcome of a schedule).
func orderOf(e *env) string {
	var out []string
	seen := map[string]bool{}
	for _, m := range txInLog.FindAllString(e.readLog(), -1) {
		if !seen[m] {
			seen[m] = true
			out = append(out, m)
		}
	}
	return strings.Join(out, ",")
}

func firstLines(r string, n int) string {
	lines := strings.Split(r, "\n")
	if len(lines) > n {
		lines = lines[:n]
	}
	return strings.Join(lines, "\n")
}

func replaySched(k schedCase) (bool, string) {
	if k.Scenario < 0 || k.Scenario >= len(schedScenarios) {
		return false, "unknown scenario"
	}
	dir, err := os.MkdirTemp("", "c19-replay-")
	if err != nil {
		return false, err.Error()
	}
	defer os.RemoveAll(dir)
	vrt.SetMapOrderOff(true)
	defer vrt.SetMapOrderOff(false)
	vrt.FaultHook = yieldAtFileOps
	defer func() { vrt.FaultHook = nil }()
	e, err := newEnv(schedScenarios[k.Scenario], dir)
	if err != nil {
		return false, err.Error()
	}
	defer scen.Close(e.w)
	if err := e.baseline(); err != nil {
		return true, "baseline: " + err.Error()
	}
	var vs []verdict
	var res sched.Result
	// lenient: on a tree other than the one the schedule was recorded on the
	// choice points may differ; answers are then reduced instead of failing
	if p := probe.Safe(func() { mc.ReplayLenient(k.Choices, func(cx *mc.Ctx) { res, vs = e.execute(cx) }) }); p != "" {
		return false, "the recorded schedule cannot be followed on this tree: " + p
	}
	var sb strings.Builder
	fmt.Fprintf(&sb, "scenario %q, schedule %s\n", e.sc.name, strings.Join(res.Trace, " "))
	for _, v := range vs {
		fmt.Fprintf(&sb, "VIOLATION %s: %s\n", v.sig, v.text)
	}
	if len(vs) == 0 {
		sb.WriteString("log content is a sequence of whole records (race reports need the race build: ./verif check C19 quick)\n")
	}
	return len(vs) > 0, sb.String()
}
