// Package c19 decides C19: audit and error logging record exactly what
// happened, once, intact (DESIGN.md §3 C19).
//
// Two parts. The table part (default build) enumerates the decision table of
// the audit engine against a small reference decision function and checks every
// record the engine hands to an audit-log writer for well-formedness in its
// format. The schedule part (race build) runs 2-3 controlled threads that finish
// transactions on one WAF through the real serial and concurrent writers under
// every interleaving within the preemption bound.
package c19

import (
	"encoding/json"

	"github.com/corazawaf/coraza/v3/internal/verif/runner"
)

func init() {
	runner.Register(&runner.Check{
		ID:    "C19",
		Level: "model_checking",
		Rule: "TABLE PART (default build): case = audit engine {On, Off, RelevantOnly} reached by SecAuditEngine, or by ctl:auditEngine in phase 1 or phase 5 from another configured mode (quick: one other mode, 9 settings; thorough: both, 15 settings) x SecAuditLogRelevantStatus {unset, ^403$, ^(?:4|5)} x 0-2 rules of phase 2 that fire, each with flags from {log, nolog, auditlog, noauditlog, `nolog,auditlog`, `log,noauditlog`} (quick: second rule from {nolog, `nolog,auditlog`, `log,noauditlog`}) and msg/logdata expanded from the request, x {no interruption, deny 403 on rule 1 or 2 with SecRuleEngine On, the same with DetectionOnly} (91 rule programs quick, 199 thorough; in DetectionOnly the would-be deny sits on the first or the second of two rules) x parts {ABCFHZ, ABIJKZ, ABCFHZ+ctl:auditLogParts=+E, ABCFHZ+ctl:auditLogParts=-B, ABCFHKZ, directive absent} x SecAuditLogFormat {Native, JSON} x response {none, 200, 404} x payload bytes placed in a request header, the request body, a response header, the response body and (by macro) the rule message and logdata: {plain, double quote, backslash, newline, CRLF, \\xff, a line that looks like a native boundary} (thorough: full product, 21 requests per configuration; quick: plain payload with every status, the other payloads with status 200, 9 requests). " +
			"Records are captured by an audit-log writer registered through the plugin API that formats with the configured formatter; error-callback invocations through WithErrorCallback. " +
			"Oracle: reference decision function (one record iff On, or RelevantOnly and the real or would-be status matches the pattern; RelevantOnly without a pattern is not asserted), transaction id carried, listed rules = fired audit-enabled rules (part H / K), error callback once per fired rule with log and with the transaction's id, JSON = one line that encoding/json parses and whose fields give back the bytes (modulo U+FFFD for bytes JSON cannot carry), Native = sections delimited by the record's own boundary are exactly the configured parts from A to Z, boundary nowhere else, header / body / message bytes present unaltered. " +
			"distinct_nontrivial = distinct cases in which at least one rule fired and a record was expected; in this part states = configurations (WAFs built), transitions = traces = transactions executed. " +
			"SCHEDULE PART (race build): 2-3 controlled threads each finish (ProcessLogging + Close) one prepared transaction of one shared WAF through the real serial writer (file) and the real concurrent writer (index file + one file per transaction), formats JSON and Native (6 scenarios); scheduling points at every sync / atomic / pool operation of coraza, before every log.Logger output call of internal/auditlog and before every os file operation there that is not issued from inside the standard logger; every interleaving within the preemption bound (2 quick / 3 thorough) is executed depth-first; oracle per schedule: no race report, no deadlock, no panic, the log file is a sequence of whole records, one per transaction (equal, after masking time stamps and the random boundary, to the record the transaction produces alone), the concurrent index holds one whole entry per transaction and the storage directory one whole record file per transaction; a self test proves that a writer emitting a record in two writes is caught. states = scheduling-tree nodes, transitions = scheduling steps, traces = complete schedules",
		Assumptions: []string{
			"the rule engine fires the generated unconditional rules as C01/C02 establish; the fired set is additionally cross-checked against tx.MatchedRules()",
			"scheduling points are the synchronisation operations of coraza, the logger output calls and the os file operations of internal/auditlog; code between two of them is atomic for the scheduler, its unsynchronised accesses are caught by the race detector instead",
			"a single write(2) on an O_APPEND file is atomic (the operating system's guarantee the serial writer relies on)",
			"https and syslog writers (network) and the OCSF / legacy JSON formats are not covered",
		},
		Run:      run,
		Replay:   replay,
		Variants: []string{"", "race"},
		Threads:  3,
	})
}

func run(c *runner.Ctx) {
	if c.Variant == "" {
		runTable(c)
		return
	}
	runSchedules(c)
}

// scenario recorded with a violation: exactly one of the two is set.
type scenario struct {
	Table *kase      `json:"table,omitempty"`
	Sched *schedCase `json:"sched,omitempty"`
}

func replay(raw json.RawMessage) (bool, string) {
	var s scenario
	if err := json.Unmarshal(raw, &s); err != nil {
		return false, err.Error()
	}
	switch {
	case s.Table != nil:
		return replayTable(*s.Table)
	case s.Sched != nil:
		return replaySched(*s.Sched)
	}
	return false, "empty scenario"
}
