package c19

import (
	"bytes"
	"encoding/json"
	"fmt"
	"regexp"
	"sort"
	"strings"

	coraza "github.com/corazawaf/coraza/v3"
	"github.com/corazawaf/coraza/v3/experimental/plugins"
	"github.com/corazawaf/coraza/v3/experimental/plugins/plugintypes"
	"github.com/corazawaf/coraza/v3/internal/verif/probe"
	"github.com/corazawaf/coraza/v3/internal/verif/runner"
	"github.com/corazawaf/coraza/v3/internal/verif/scen"
	"github.com/corazawaf/coraza/v3/types"
)

// ---- capture ---------------------------------------------------------------

// captured is one call of the audit-log writer: what the engine handed over
// and what the configured formatter made of it.
type captured struct {
	parts string
	id    string
	bytes []byte
	err   error
	pan   string
}

var records []captured

// capWriter is the audit-log writer of the table part ("c19cap"): it keeps the
// configured formatter and formats every record it is given.
type capWriter struct{ f plugintypes.AuditLogFormatter }

func (w *capWriter) Init(c plugintypes.AuditLogConfig) error { w.f = c.Formatter; return nil }
func (w *capWriter) Close() error                            { return nil }
func (w *capWriter) Write(al plugintypes.AuditLog) error {
	r := captured{parts: string(al.Parts())}
	r.pan = probe.Safe(func() {
		if t := al.Transaction(); t != nil {
			r.id = t.ID()
		}
		r.bytes, r.err = w.f.Format(al)
	})
	records = append(records, r)
	return nil
}

func init() {
	plugins.RegisterAuditLogWriter("c19cap", func() plugintypes.AuditLogWriter { return &capWriter{} })
}

// ---- alphabet --------------------------------------------------------------

type kase struct {
	Engine  string `json:"engine"`         // effective audit engine mode
	Src     string `json:"src"`            // conf | ctl1 | ctl5: how the mode is reached
	Base    string `json:"base,omitempty"` // configured mode when switched by ctl
	Rel     int    `json:"rel"`            // index into relPatterns
	Flags   []int  `json:"flags"`          // per fired rule: index into flagMenu
	Itr     int    `json:"itr,omitempty"`  // 0 = none, k = rule k carries deny,status:403
	DetOnly bool   `json:"det_only,omitempty"`
	// First / Second (DetectionOnly with two rules only): status of the would-be deny of rule Itr (default 403) and of
	// a second would-be deny on rule Itr+1: the first one is the one the transaction remembers
	First   int `json:"first,omitempty"`
	Second  int `json:"second,omitempty"`
	Status  int `json:"status,omitempty"` // 0 = no response phases
	Parts   int `json:"parts"`
	Format  int `json:"format"` // 0 Native, 1 JSON
	Payload int `json:"payload"`
}

var modes = []string{"On", "Off", "RelevantOnly"}

var relPatterns = []string{"", "^403$", "^(?:4|5)"}

type flagT struct {
	text       string
	log, audit bool
}

// Documented default of a phase 2 rule is log,auditlog (SecDefaultAction).
var flagMenu = []flagT{
	{"log", true, true},
	{"nolog", false, false},
	{"auditlog", true, true},
	{"noauditlog", true, false},
	{"nolog,auditlog", false, true},
	{"log,noauditlog", true, false},
}

type partsT struct {
	conf string // SecAuditLogParts value ("" = directive absent)
	ctl  string // ctl:auditLogParts value ("" = none)
	want string // effective parts ("" = not specified)
}

var partsMenu = []partsT{
	{"ABCFHZ", "", "ABCFHZ"},
	{"ABIJKZ", "", "ABIJKZ"},
	{"ABCFHZ", "+E", "ABCEFHZ"},
	{"ABCFHZ", "-B", "ACFHZ"},
	{"ABCFHKZ", "", "ABCFHKZ"},
	{"", "", ""},
}

var formats = []string{"Native", "JSON"}

var payloads = []string{
	"a",
	"a\"b",
	"a\\b",
	"a\nb",
	"a\r\nb",
	"a\xffb",
	"a\n--abcdefghij-Z--\nb",
}

var statuses = []int{0, 200, 404}

func (k kase) conf() string {
	var sb strings.Builder
	if k.DetOnly {
		sb.WriteString("SecRuleEngine DetectionOnly\n")
	} else {
		sb.WriteString("SecRuleEngine On\n")
	}
	sb.WriteString("SecRequestBodyAccess On\nSecResponseBodyAccess On\nSecResponseBodyMimeType text/plain\n")
	configured := k.Engine
	if k.Src != "conf" {
		configured = k.Base
	}
	fmt.Fprintf(&sb, "SecAuditEngine %s\nSecAuditLogType c19cap\nSecAuditLog /dev/null\nSecAuditLogFormat %s\n", configured, formats[k.Format])
	p := partsMenu[k.Parts]
	if p.conf != "" {
		fmt.Fprintf(&sb, "SecAuditLogParts %s\n", p.conf)
	}
	if re := relPatterns[k.Rel]; re != "" {
		fmt.Fprintf(&sb, "SecAuditLogRelevantStatus \"%s\"\n", re)
	}
	switch k.Src {
	case "ctl1":
		fmt.Fprintf(&sb, "SecAction \"id:90,phase:1,pass,nolog,ctl:auditEngine=%s\"\n", k.Engine)
	case "ctl5":
		fmt.Fprintf(&sb, "SecAction \"id:90,phase:5,pass,nolog,ctl:auditEngine=%s\"\n", k.Engine)
	}
	if p.ctl != "" {
		fmt.Fprintf(&sb, "SecAction \"id:91,phase:1,pass,nolog,ctl:auditLogParts=%s\"\n", p.ctl)
	}
	for i, f := range k.Flags {
		id := i + 1
		dis := "pass"
		if k.Itr == id {
			dis = "deny,status:403"
			if k.First != 0 {
				dis = fmt.Sprintf("deny,status:%d", k.First)
			}
		}
		if k.Second != 0 && k.Itr != 0 && id == k.Itr+1 {
			dis = fmt.Sprintf("deny,status:%d", k.Second)
		}
		fmt.Fprintf(&sb, "SecRule REQUEST_HEADERS:X-In \"@rx ^a\" \"id:%d,phase:2,%s,%s,msg:'m%d %%{MATCHED_VAR}',logdata:'d%d %%{MATCHED_VAR}'\"\n",
			id, flagMenu[f].text, dis, id, id)
	}
	return sb.String()
}

func (k kase) req() scen.Req {
	p := payloads[k.Payload]
	r := scen.Req{
		Method:  "POST",
		URI:     "/c19?q=1",
		Headers: [][2]string{{"Host", "h.example"}, {"Content-Type", "text/plain"}, {"X-In", p}},
		Body:    "body " + p + " end",
		Status:  k.Status,
	}
	if k.Status != 0 {
		r.RespHeaders = [][2]string{{"Content-Type", "text/plain"}, {"X-Out", p}}
		r.RespBody = "resp " + p + " end"
	}
	return r
}

const txID = "c19-tx-0001"

// ---- reference decision function -------------------------------------------

type expectation struct {
	records   int // -1 = not specified by the property
	fired     []int
	audited   []int
	cbs       []int
	responded bool
	status    string // real status ("" = none)
	wouldBe   string // status of the real or would-be interruption ("" = none)
}

func reference(k kase) expectation {
	var e expectation
	// which rules fire
	for i := range k.Flags {
		id := i + 1
		e.fired = append(e.fired, id)
		if k.Itr == id && !k.DetOnly {
			break
		}
	}
	for _, id := range e.fired {
		f := flagMenu[k.Flags[id-1]]
		if f.audit {
			e.audited = append(e.audited, id)
		}
		if f.log {
			e.cbs = append(e.cbs, id)
		}
	}
	interrupted := k.Itr != 0 && !k.DetOnly
	e.responded = k.Status != 0 && !interrupted
	if e.responded {
		e.status = fmt.Sprint(k.Status)
	}
	if k.Itr != 0 {
		e.wouldBe = "403"
		if k.First != 0 {
			e.wouldBe = fmt.Sprint(k.First)
		}
	}
	if interrupted {
		e.status = "403" // the response the client gets
	}
	switch k.Engine {
	case "On":
		e.records = 1
	case "Off":
		e.records = 0
	case "RelevantOnly":
		if relPatterns[k.Rel] == "" {
			e.records = -1
			break
		}
		re := regexp.MustCompile(relPatterns[k.Rel])
		real, would := re.MatchString(e.status), e.wouldBe != "" && re.MatchString(e.wouldBe)
		switch {
		case e.wouldBe == "":
			e.records = b2i(real)
		case real == would:
			e.records = b2i(real)
		case would:
			// the would-be status of a DetectionOnly interruption is what the
			// transaction is relevant for
			e.records = 1
		default:
			e.records = -1 // real matches, would-be does not: "real or would-be" does not say
		}
	}
	return e
}

func b2i(b bool) int {
	if b {
		return 1
	}
	return 0
}

// ---- observation -----------------------------------------------------------

type observation struct {
	recs    []captured
	cbs     []int // rule ids the error callback was called with, in order
	cbTx    []string
	matched []int
	panic   string
	itr     string
}

type harness struct {
	w   coraza.WAF
	cbs *[]int
	ctx *[]string
}

func build(k kase) (*harness, error) {
	h := &harness{cbs: new([]int), ctx: new([]string)}
	w, err := scen.Build(k.conf(), func(cfg coraza.WAFConfig) coraza.WAFConfig {
		return cfg.WithErrorCallback(func(mr types.MatchedRule) {
			*h.cbs = append(*h.cbs, mr.Rule().ID())
			*h.ctx = append(*h.ctx, mr.TransactionID())
		})
	})
	if err != nil {
		return nil, err
	}
	h.w = w
	return h, nil
}

func (h *harness) execute(k kase) observation {
	records = nil
	*h.cbs = nil
	*h.ctx = nil
	var o observation
	po := &probe.Outcome{}
	var tx types.Transaction
	o.panic = probe.Safe(func() {
		tx = h.w.NewTransactionWithID(txID)
		scen.Drive(tx, k.req(), po)
		o.itr = probe.Itr(tx.Interruption())
		for _, m := range tx.MatchedRules() {
			if id := m.Rule().ID(); id < 90 {
				o.matched = append(o.matched, id)
			}
		}
	})
	if tx != nil {
		if p := probe.Safe(func() { _ = tx.Close() }); p != "" && o.panic == "" {
			o.panic = "Close: " + p
		}
	}
	o.recs = records
	records = nil
	o.cbs = append([]int{}, *h.cbs...)
	o.cbTx = append([]string{}, *h.ctx...)
	return o
}

// ---- record parsing --------------------------------------------------------

type jsonRecord struct {
	Transaction struct {
		ID      string `json:"id"`
		Request *struct {
			Method  string              `json:"method"`
			URI     string              `json:"uri"`
			Headers map[string][]string `json:"headers"`
			Body    string              `json:"body"`
		} `json:"request"`
		Response *struct {
			Status  int                 `json:"status"`
			Headers map[string][]string `json:"headers"`
			Body    string              `json:"body"`
		} `json:"response"`
	} `json:"transaction"`
	Messages []struct {
		ErrorMessage string `json:"error_message"`
		Data         *struct {
			ID   int    `json:"id"`
			Msg  string `json:"msg"`
			Data string `json:"data"`
		} `json:"data"`
	} `json:"messages"`
}

// viaJSON is what a string becomes when it travels through a JSON document
// (invalid UTF-8 cannot be carried and becomes U+FFFD).
func viaJSON(s string) string {
	b, _ := json.Marshal(s)
	var out string
	_ = json.Unmarshal(b, &out)
	return out
}

func header(h map[string][]string, name string) ([]string, bool) {
	for k, v := range h {
		if strings.EqualFold(k, name) {
			return v, true
		}
	}
	return nil, false
}

var idInErrorLog = regexp.MustCompile(`\[id "(\d+)"\]`)
var idInRaw = regexp.MustCompile(`\bid:(\d+)`)

func atoi(s string) int {
	n := 0
	fmt.Sscanf(s, "%d", &n)
	return n
}

type nativeRecord struct {
	boundary string
	order    string          // section letters in order of appearance
	section  map[byte]string // content per letter (first occurrence)
	problems []string        // structural problems
}

var boundaryLine = regexp.MustCompile(`^--([A-Za-z0-9]+)-([A-Z])--$`)

func parseNative(b []byte) nativeRecord {
	n := nativeRecord{section: map[byte]string{}}
	s := string(b)
	lines := strings.Split(s, "\n")
	if len(lines) == 0 || !boundaryLine.MatchString(lines[0]) {
		n.problems = append(n.problems, "does not start with a boundary line")
		return n
	}
	n.boundary = boundaryLine.FindStringSubmatch(lines[0])[1]
	prefix := "--" + n.boundary + "-"
	var cur byte
	var content []string
	flush := func() {
		if cur != 0 {
			if _, dup := n.section[cur]; dup {
				n.problems = append(n.problems, fmt.Sprintf("section %c opened twice", cur))
			} else {
				n.section[cur] = strings.Join(content, "\n")
			}
		}
		content = nil
	}
	for _, l := range lines {
		if strings.HasPrefix(l, prefix) {
			m := boundaryLine.FindStringSubmatch(l)
			if m == nil || m[1] != n.boundary {
				n.problems = append(n.problems, "boundary inside content")
				content = append(content, l)
				continue
			}
			flush()
			cur = m[2][0]
			n.order += m[2]
			continue
		}
		if strings.Contains(l, prefix) {
			n.problems = append(n.problems, "boundary inside content")
		}
		content = append(content, l)
	}
	flush()
	return n
}

// ---- oracle ----------------------------------------------------------------

type verdict struct {
	sig  string
	text string
}

func ints(a []int) string { return strings.Trim(fmt.Sprint(a), "[]") }

func flagsOf(k kase, ids []int) string {
	var out []string
	for _, id := range ids {
		if id >= 1 && id <= len(k.Flags) {
			out = append(out, flagMenu[k.Flags[id-1]].text)
		} else {
			out = append(out, fmt.Sprintf("rule-%d", id))
		}
	}
	return strings.Join(out, "+")
}

func diff(want, got []int) (missing, extra []int) {
	w := map[int]int{}
	for _, x := range want {
		w[x]++
	}
	for _, x := range got {
		if w[x] > 0 {
			w[x]--
		} else {
			extra = append(extra, x)
		}
	}
	for _, x := range want {
		if w[x] > 0 {
			w[x]--
			missing = append(missing, x)
		}
	}
	return
}

func payloadClass(i int) string {
	return [...]string{"plain", "dquote", "backslash", "newline", "crlf", "xff", "boundary-lookalike"}[i]
}

// judge compares an observation with the reference; skipped counts the
// assertions the property text leaves open.
func judge(k kase, e expectation, o observation, skipped *int64) []verdict {
	var out []verdict
	add := func(sig, f string, a ...any) { out = append(out, verdict{sig, fmt.Sprintf(f, a...)}) }
	if o.panic != "" {
		add("panic:"+o.panic, "panic: %s", o.panic)
		return out
	}
	// fired set (assumption cross-check)
	if ints(o.matched) != ints(e.fired) {
		add("fired-set-differs", "rules fired %v, reference model says %v", o.matched, e.fired)
		return out
	}
	// error callback
	if miss, extra := diff(e.cbs, o.cbs); len(miss)+len(extra) > 0 {
		switch {
		case len(miss) > 0:
			add("errorcb:not-called-for:"+flagsOf(k, miss[:1]), "error callback called for rules %v, expected exactly once for each of %v (fired rules with logging enabled)", o.cbs, e.cbs)
		default:
			dup := false
			for _, x := range extra {
				for _, y := range e.cbs {
					dup = dup || x == y
				}
			}
			if dup {
				add("errorcb:called-twice", "error callback called for rules %v, expected exactly once for each of %v", o.cbs, e.cbs)
			} else {
				add("errorcb:called-for:"+flagsOf(k, extra[:1]), "error callback called for rules %v, expected only %v (fired rules with logging enabled)", o.cbs, e.cbs)
			}
		}
	}
	for _, id := range o.cbTx {
		if id != txID {
			add("errorcb:wrong-transaction-id", "error callback saw transaction id %q, the transaction is %q", id, txID)
			break
		}
	}
	// decision
	if e.records < 0 {
		*skipped++
	} else if len(o.recs) != e.records {
		add(classifyDecision(k, e, len(o.recs)), "audit engine %s (%s), relevant status pattern %q, real status %q, would-be status %q: %d record(s) written, expected %d",
			k.Engine, k.Src, relPatterns[k.Rel], e.status, e.wouldBe, len(o.recs), e.records)
	}
	// every record that was written must be intact
	for _, r := range o.recs {
		out = append(out, judgeRecord(k, e, r, skipped)...)
	}
	return out
}

// recordsOf runs k once more and says how many records it produced (-1 when
// the configuration does not build): the differential probes of the classifier.
func recordsOf(k kase) int {
	h, err := build(k)
	if err != nil {
		return -1
	}
	defer scen.Close(h.w)
	return len(h.execute(k).recs)
}

// classifyDecision names the root cause of a wrong number of records by the
// narrowest explanation that the engine itself confirms: the same case with
// the mode configured directly (is ctl at fault?), then the status source.
func classifyDecision(k kase, e expectation, got int) string {
	if got > 1 {
		return "decision:more-than-one-record"
	}
	if k.Src != "conf" {
		direct := k
		direct.Src, direct.Base = "conf", ""
		if recordsOf(direct) == e.records {
			return "decision:ctl-auditEngine-in-phase-" + strings.TrimPrefix(k.Src, "ctl") + "-not-honoured"
		}
	}
	switch k.Engine {
	case "On":
		return "decision:engine-On-no-record"
	case "Off":
		return "decision:engine-Off-record-written"
	}
	re := regexp.MustCompile(relPatterns[k.Rel])
	switch {
	case k.Itr != 0 && k.DetOnly:
		responded := ""
		if k.Status != 0 {
			responded = fmt.Sprint(k.Status)
		}
		if b2i(re.MatchString(responded)) == got {
			return "decision:relevantonly-would-be-status-of-detection-only-interruption-ignored"
		}
	case k.Itr != 0:
		return "decision:relevantonly-status-of-interruption-ignored"
	}
	return fmt.Sprintf("decision:relevantonly:status-relevant=%v:records=%d", e.records == 1, got)
}

func judgeRecord(k kase, e expectation, r captured, skipped *int64) []verdict {
	var out []verdict
	add := func(sig, f string, a ...any) { out = append(out, verdict{sig, fmt.Sprintf(f, a...)}) }
	if r.pan != "" {
		add("panic:format:"+r.pan, "formatter panicked: %s", r.pan)
		return out
	}
	if r.err != nil {
		add("format-error:"+formats[k.Format], "formatter returned error %v", r.err)
		return out
	}
	want := partsMenu[k.Parts].want
	has := func(p byte) bool {
		if want == "" {
			return strings.IndexByte(r.parts, p) >= 0
		}
		return strings.IndexByte(want, p) >= 0
	}
	p := payloads[k.Payload]
	pc := payloadClass(k.Payload)
	req := k.req()
	var listedH, listedK []int
	haveH, haveK := false, false
	switch formats[k.Format] {
	case "JSON":
		if bytes.IndexByte(r.bytes, '\n') >= 0 {
			add("json:record-spans-lines:"+pc, "JSON record contains a newline: %q", r.bytes)
			return out
		}
		var j jsonRecord
		if err := json.Unmarshal(r.bytes, &j); err != nil {
			add("json:does-not-parse:"+pc, "encoding/json rejects the record (%v): %q", err, r.bytes)
			return out
		}
		if j.Transaction.ID != txID {
			add("json:transaction-id", "record carries transaction id %q, the transaction is %q", j.Transaction.ID, txID)
		}
		field := func(name, got, orig string) {
			if got == orig {
				return
			}
			if got == viaJSON(orig) {
				*skipped++ // bytes JSON cannot carry
				return
			}
			add("json:field-altered:"+name+":"+pc, "field %s is %q, the transaction had %q", name, got, orig)
		}
		if j.Transaction.Request == nil {
			add("json:no-request", "record has no request object")
		} else {
			if has('B') {
				v, ok := header(j.Transaction.Request.Headers, "X-In")
				if !ok || len(v) != 1 {
					add("json:request-header-missing", "part B configured, request header X-In is %q in %q", v, j.Transaction.Request.Headers)
				} else {
					field("request.headers", v[0], p)
				}
			}
			if has('C') {
				field("request.body", j.Transaction.Request.Body, req.Body)
			}
		}
		if e.responded {
			if j.Transaction.Response == nil {
				if has('F') || has('E') {
					add("json:no-response", "part F/E configured and a response was processed, record has no response object")
				}
			} else {
				if has('F') {
					if j.Transaction.Response.Status != k.Status {
						add("json:response-status", "response status %d recorded, was %d", j.Transaction.Response.Status, k.Status)
					}
					v, ok := header(j.Transaction.Response.Headers, "X-Out")
					if !ok || len(v) != 1 {
						add("json:response-header-missing", "part F configured, response header X-Out is %q", v)
					} else {
						field("response.headers", v[0], p)
					}
				}
				if has('E') {
					field("response.body", j.Transaction.Response.Body, req.RespBody)
				}
			}
		}
		// part K fills messages[].data, part H messages[].error_message
		haveH, haveK = has('H'), has('K')
		for _, m := range j.Messages {
			if m.Data != nil {
				listedK = append(listedK, m.Data.ID)
				field("messages.data.msg", m.Data.Msg, fmt.Sprintf("m%d %s", m.Data.ID, p))
				field("messages.data.data", m.Data.Data, fmt.Sprintf("d%d %s", m.Data.ID, p))
			}
			for _, g := range idInErrorLog.FindAllStringSubmatch(m.ErrorMessage, -1) {
				listedH = append(listedH, atoi(g[1]))
			}
		}
	case "Native":
		n := parseNative(r.bytes)
		for _, pr := range n.problems {
			add("native:"+strings.ReplaceAll(pr, " ", "-")+":"+pc, "native record: %s\n%s", pr, r.bytes)
		}
		if len(n.problems) > 0 {
			return out
		}
		if !strings.HasPrefix(n.order, "A") || !strings.HasSuffix(n.order, "Z") || len(n.order) < 2 {
			cls := "native:not-delimited-by-A-and-Z:sections=" + n.order
			switch {
			case partsMenu[k.Parts].ctl != "":
				cls = "native:ctl-auditLogParts-loses-A-and-Z"
			case partsMenu[k.Parts].conf == "":
				cls = "native:default-parts-lack-A-and-Z"
			}
			add(cls, "native record has sections %q (parts handed to the writer: %q): a record starts with the header section A (which carries the transaction id) and ends with the final boundary Z\n%s", n.order, r.parts, r.bytes)
		} else if !strings.Contains(strings.SplitN(n.section['A'], "\n", 2)[0], " "+txID+" ") {
			add("native:transaction-id", "section A does not carry the transaction id %q: %q", txID, n.section['A'])
		}
		if want != "" {
			inner := func(s string) string { return strings.TrimSuffix(strings.TrimPrefix(s, "A"), "Z") }
			if inner(n.order) != inner(want) {
				add("native:sections-differ-from-parts", "native record has sections %q, configured parts are %q", n.order, want)
			}
		}
		sec := func(p byte) (string, bool) { s, ok := n.section[p]; return s, ok && has(p) }
		if s, ok := sec('B'); ok {
			if !strings.Contains(strings.ToLower(s), "x-in: "+strings.ToLower(p)+"\n") {
				add("native:request-header-altered:"+pc, "section B does not carry the header X-In: %q\n%q", p, s)
			}
		}
		if s, ok := sec('C'); ok {
			if s != req.Body+"\n\n" && s != req.Body+"\n" {
				add("native:request-body-altered:"+pc, "section C is %q, the body was %q", s, req.Body)
			}
		}
		if e.responded {
			if s, ok := sec('F'); ok {
				if !strings.HasPrefix(s, fmt.Sprintf("HTTP/1.1 %d ", k.Status)) {
					add("native:response-status", "section F starts %q, status was %d", strings.SplitN(s, "\n", 2)[0], k.Status)
				}
				if !strings.Contains(strings.ToLower(s), "x-out: "+strings.ToLower(p)+"\n") {
					add("native:response-header-altered:"+pc, "section F does not carry the header X-Out: %q\n%q", p, s)
				}
			}
			if s, ok := sec('E'); ok {
				if s != req.RespBody+"\n\n" && s != req.RespBody+"\n" {
					add("native:response-body-altered:"+pc, "section E is %q, the response body was %q", s, req.RespBody)
				}
			}
		}
		if s, ok := n.section['H']; ok {
			haveH = true
			for _, g := range idInErrorLog.FindAllStringSubmatch(s, -1) {
				id := atoi(g[1])
				listedH = append(listedH, id)
				if m := fmt.Sprintf("[msg %q]", fmt.Sprintf("m%d %s", id, p)); !strings.Contains(s, m) {
					add("native:message-altered:"+pc, "section H does not carry %s\n%q", m, s)
				}
			}
		}
		if s, ok := n.section['K']; ok {
			haveK = true
			for _, l := range strings.Split(s, "\n") {
				if g := idInRaw.FindStringSubmatch(l); g != nil {
					listedK = append(listedK, atoi(g[1]))
				}
			}
		}
	}
	// exactly the fired audit-enabled rules, wherever rules are listed
	check := func(part string, listed []int) {
		miss, extra := diff(e.audited, listed)
		switch {
		case len(extra) > 0:
			dup := false
			for _, x := range extra {
				for _, y := range e.audited {
					dup = dup || x == y
				}
			}
			if dup {
				add("listed:twice:part-"+part, "part %s lists rules %v, fired audit-enabled rules are %v", part, listed, e.audited)
			} else {
				add("listed:not-audit-enabled:"+flagsOf(k, extra[:1])+":part-"+part, "part %s lists rules %v, fired audit-enabled rules are %v (fired: %v)", part, listed, e.audited, e.fired)
			}
		case len(miss) > 0:
			add("listed:audit-enabled-missing:"+flagsOf(k, miss[:1])+":part-"+part, "part %s lists rules %v, fired audit-enabled rules are %v", part, listed, e.audited)
		}
	}
	if haveH {
		sort.Ints(listedH)
		check("H", listedH)
	}
	if haveK {
		sort.Ints(listedK)
		check("K", listedK)
	}
	return out
}

// ---- enumeration -----------------------------------------------------------

type wafKey struct {
	Engine, Src, Base string
	Rel               int
	Flags             []int
	Itr               int
	DetOnly           bool
	Parts, Format     int
}

// forEachConfig enumerates every configuration (everything but the request).
func forEachConfig(thorough bool, emit func(k kase)) {
	type eng struct{ engine, src, base string }
	var engines []eng
	for _, m := range modes {
		engines = append(engines, eng{m, "conf", ""})
	}
	for _, src := range []string{"ctl1", "ctl5"} {
		for mi, m := range modes {
			for bi, b := range modes {
				// quick: each mode is switched to from one other configured mode, thorough: from both
				if b != m && (thorough || bi == (mi+1)%len(modes)) {
					engines = append(engines, eng{m, src, b})
				}
			}
		}
	}
	type prog struct {
		flags   []int
		itr     int
		detOnly bool
		first   int
		second  int
	}
	var progs []prog
	progs = append(progs, prog{})
	second := []int{0, 1, 2, 3, 4, 5}
	if !thorough {
		// quick: the second rule takes the three flag sets that differ in (log, audit)
		second = []int{1, 4, 5}
	}
	for f1 := range flagMenu {
		one := []int{f1}
		progs = append(progs, prog{one, 0, false, 0, 0}, prog{one, 1, false, 0, 0}, prog{one, 1, true, 0, 0})
		for _, f2 := range second {
			two := []int{f1, f2}
			// {two, 1, true}: a rule fires after the would-be interruption of DetectionOnly
			progs = append(progs, prog{two, 0, false, 0, 0}, prog{two, 1, false, 0, 0}, prog{two, 2, true, 0, 0}, prog{two, 1, true, 0, 0})
			if f2 == second[0] {
				// two would-be interruptions in DetectionOnly whose statuses lie on both sides of the relevant patterns
				progs = append(progs, prog{two, 1, true, 403, 302}, prog{two, 1, true, 302, 403})
			}
			if thorough {
				progs = append(progs, prog{two, 2, false, 0, 0})
			}
		}
	}
	for _, en := range engines {
		for rel := range relPatterns {
			for _, pg := range progs {
				for parts := range partsMenu {
					for format := range formats {
						emit(kase{Engine: en.engine, Src: en.src, Base: en.base, Rel: rel, Flags: pg.flags, Itr: pg.itr, DetOnly: pg.detOnly, First: pg.first, Second: pg.second, Parts: parts, Format: format})
					}
				}
			}
		}
	}
}

func requestsOf(thorough bool, k kase, emit func(k kase)) {
	for _, st := range statuses {
		for p := range payloads {
			if !thorough && p != 0 && st != 200 {
				// quick: payload bytes do not interact with the decision; the plain
				// payload is crossed with every status, the others go with status 200
				continue
			}
			k.Status, k.Payload = st, p
			emit(k)
		}
	}
}

func runTable(c *runner.Ctx) {
	var skipped int64
	i := 0
	forEachConfig(c.Thorough(), func(cfg kase) {
		i++
		if !c.Mine(i) || c.Expired() {
			return
		}
		h, err := build(cfg)
		if err != nil {
			c.Violation("build:"+err.Error(), "generated configuration rejected: "+err.Error()+"\n"+cfg.conf(), scenario{Table: &cfg})
			return
		}
		defer scen.Close(h.w)
		c.Count("states", 1)
		requestsOf(c.Thorough(), cfg, func(k kase) {
			c.Count("evaluations", 1)
			c.Count("transitions", 1)
			c.Count("traces_validated_against_impl", 1)
			e := reference(k)
			o := h.execute(k)
			vs := judge(k, e, o, &skipped)
			c.Outcome(fmt.Sprintf("recs=%d cbs=%v itr=%s fmt=%d parts=%d", len(o.recs), o.cbs, o.itr, k.Format, k.Parts))
			if len(e.fired) > 0 && e.records == 1 {
				b, _ := json.Marshal(k)
				c.Distinct(string(b))
				if c.WantSample() && len(o.recs) == 1 && len(e.audited) > 0 && k.Payload > 0 {
					c.Sample(map[string]any{"config": k.conf(), "request": k.req(), "expected_records": e.records, "expected_listed_rules": e.audited, "expected_error_callbacks": e.cbs, "record": string(o.recs[0].bytes)})
				}
			}
			for _, v := range vs {
				kk := k
				c.Violation(v.sig, "configuration:\n"+k.conf()+fmt.Sprintf("request: %+v\n", k.req())+v.text, scenario{Table: &kk})
			}
		})
	})
	c.Count("skipped_unspecified", skipped)
}

func replayTable(k kase) (bool, string) {
	h, err := build(k)
	if err != nil {
		return true, "build: " + err.Error()
	}
	defer scen.Close(h.w)
	var skipped int64
	e := reference(k)
	o := h.execute(k)
	vs := judge(k, e, o, &skipped)
	var sb strings.Builder
	fmt.Fprintf(&sb, "configuration:\n%srequest: %+v\n", k.conf(), k.req())
	fmt.Fprintf(&sb, "expected: records=%d listed=%v callbacks=%v\nobserved: records=%d callbacks=%v\n", e.records, e.audited, e.cbs, len(o.recs), o.cbs)
	for _, r := range o.recs {
		fmt.Fprintf(&sb, "record (parts %q):\n%s\n", r.parts, r.bytes)
	}
	for _, v := range vs {
		fmt.Fprintf(&sb, "VIOLATION %s: %s\n", v.sig, v.text)
	}
	return len(vs) > 0, sb.String()
}
