// Package c08 decides C08: skip, skipAfter, allow and chain steer evaluation
// exactly as documented (DESIGN.md §3 C08).
package c08

import (
	"encoding/json"
	"fmt"
	"strings"
	"time"

	"github.com/corazawaf/coraza/v3/internal/verif/runner"
	"github.com/corazawaf/coraza/v3/internal/verif/scen"
)

func init() {
	runner.Register(&runner.Check{
		ID:    "C08",
		Level: "exploration",
		Rule: "program = 3 rule slots over phases {1,2,5} (quick); thorough: 3 slots over {1,2,5} with every marker/engine combination, 3 slots over all five phases, 4 slots over a reduced action menu; each slot = (phase) x (action in {pass, skip:1, skip:2, skipAfter:M1, skipAfter:ABSENT, allow, allow:request, allow:phase, deny, deny+skip:1, deny+skipAfter:ABSENT}) x (chain of 1 or 2 links), " +
			"plus marker M1 at every position or absent, engine On / DetectionOnly; a further family of 3 slots over {pass, allow, allow:request, allow:phase, deny, skip:1, ctl:ruleEngine=On, ctl:ruleEngine=DetectionOnly} (the mode in force when allow / deny run decides); slot i (and each chain link) matches iff its own request bit is set; requests = all bit vectors; " +
			"every (program, request) is driven through all five phases on the real engine and compared with a flow interpreter restating the property: exact list of fired rules and the interruption; " +
			"distinct_nontrivial = distinct (program, request) in which at least one flow action (skip/skipAfter/allow/deny) was executed by the model",
		Assumptions: []string{
			"unspecified and therefore not asserted: a marker inside a skip:N window (does it count?), allow:request executed in a response phase",
			"the connector stops calling request/response phases after an interruption and always calls the logging phase (scen.Drive, same as the net/http middleware)",
		},
		Run:    run,
		Replay: replay,
	})
}

type slot struct {
	Phase  int    `json:"phase"`
	Action string `json:"action"`
	Chain  int    `json:"chain"` // number of links (1 = no chain)
}

type program struct {
	Slots  []slot `json:"slots"`
	Marker int    `json:"marker"` // position of SecMarker M1 (before slot i), len = after all, -1 = absent
	Engine string `json:"engine"`
	// MName: the marker's name when it is not M1 (a name that is also the id of a rule must still be a marker only)
	MName string `json:"mname,omitempty"`
	// Dup: 1 + position of a second SecMarker with the same name (0 = none)
	Dup int `json:"dup,omitempty"`
}

func (p program) markerAt(i int) bool { return p.Marker == i || (p.Dup > 0 && p.Dup-1 == i) }

func (p program) mname() string {
	if p.MName != "" {
		return p.MName
	}
	return "M1"
}

type kase struct {
	Prog program `json:"prog"`
	Bits []bool  `json:"bits"` // one per link, in slot order
}

func (p program) links() int {
	n := 0
	for _, s := range p.Slots {
		n += s.Chain
	}
	return n
}

func (p program) conf() string {
	var sb strings.Builder
	fmt.Fprintf(&sb, "SecRuleEngine %s\nSecRequestBodyAccess On\nSecResponseBodyAccess On\n", p.Engine)
	bit := 0
	for i, s := range p.Slots {
		if p.markerAt(i) {
			sb.WriteString("SecMarker " + p.mname() + "\n")
		}
		acts := fmt.Sprintf("id:%d,phase:%d,log,%s", i+1, s.Phase, strings.ReplaceAll(s.Action, "skipAfter:M1", "skipAfter:"+p.mname()))
		if strings.HasPrefix(s.Action, "deny") {
			acts += ",status:403"
		}
		if s.Chain > 1 {
			acts += ",chain"
		}
		fmt.Fprintf(&sb, "SecRule REQUEST_HEADERS:X-B%d \"@streq 1\" \"%s\"\n", bit, acts)
		bit++
		for l := 1; l < s.Chain; l++ {
			la := "t:none"
			if l < s.Chain-1 {
				la = "chain"
			}
			fmt.Fprintf(&sb, "  SecRule REQUEST_HEADERS:X-B%d \"@streq 1\" \"%s\"\n", bit, la)
			bit++
		}
	}
	if p.markerAt(len(p.Slots)) {
		sb.WriteString("SecMarker " + p.mname() + "\n")
	}
	return sb.String()
}

func request(bits []bool) scen.Req {
	r := scen.Req{URI: "/p", Status: 200, RespHeaders: [][2]string{{"Content-Type", "text/plain"}}, RespBody: "ok"}
	for i, b := range bits {
		if b {
			r.Headers = append(r.Headers, [2]string{fmt.Sprintf("X-B%d", i), "1"})
		}
	}
	return r
}

// model is the flow interpreter. It returns the fired rule ids in order, the
// interrupting rule (0 = none), whether the case is specified, and whether any
// flow action was executed.
func model(p program, bits []bool) (fired []int, itr int, specified bool, flow bool) {
	on := p.Engine == "On"
	specified = true
	skip, skipAfter, allow := 0, "", ""
	for _, phase := range []int{1, 2, 3, 4, 5} {
		if itr != 0 && phase != 5 {
			continue
		}
		bit := 0
		ended := false
		for i, s := range p.Slots {
			myBit := bit
			bit += s.Chain
			if p.markerAt(i) {
				// marker before slot i
				if skipAfter == "M1" {
					skipAfter = ""
				} else if skipAfter == "" && skip > 0 {
					specified = false
				}
			}
			if ended || s.Phase != phase {
				continue
			}
			if itr != 0 && phase != 5 {
				continue
			}
			if skipAfter != "" {
				continue
			}
			if skip > 0 {
				skip--
				continue
			}
			switch allow {
			case "phase":
				ended = true
				continue
			case "request":
				if phase <= 2 {
					ended = true
					continue
				}
			case "all":
				if phase != 5 {
					ended = true
					continue
				}
			}
			all := true
			for l := 0; l < s.Chain; l++ {
				if !bits[myBit+l] {
					all = false
				}
			}
			if !all {
				continue
			}
			fired = append(fired, i+1)
			for _, act := range strings.Split(s.Action, ",") {
				switch {
				case act == "pass":
				case act == "ctl:ruleEngine=On":
					on = true
				case act == "ctl:ruleEngine=DetectionOnly":
					on = false
				case strings.HasPrefix(act, "skip:"):
					flow = true
					fmt.Sscanf(act, "skip:%d", &skip)
				case strings.HasPrefix(act, "skipAfter:"):
					flow = true
					skipAfter = strings.TrimPrefix(act, "skipAfter:")
				case act == "allow":
					flow = true
					if on {
						allow = "all"
					}
				case act == "allow:request":
					flow = true
					if phase >= 3 {
						specified = false
					}
					if on {
						allow = "request"
					}
				case act == "allow:phase":
					flow = true
					if on {
						allow = "phase"
					}
				case act == "deny":
					flow = true
					if on {
						itr = i + 1
					}
				}
			}
		}
		if p.markerAt(len(p.Slots)) && skipAfter == "M1" {
			skipAfter = ""
		}
		// nothing but the documented scope of allow survives a phase end
		skip, skipAfter = 0, ""
		if allow == "phase" {
			allow = ""
		}
		if allow == "request" && phase >= 2 {
			allow = ""
		}
	}
	return
}

var actionsQuick = []string{"pass", "skip:1", "skip:2", "skipAfter:M1", "skipAfter:ABSENT", "allow", "allow:request", "allow:phase", "deny", "deny,skip:1", "deny,skipAfter:ABSENT"}

// family is one sub-space of programs.
type family struct {
	n        int
	phases   []int
	actions  []string
	combined string // where combined disruptive+flow actions may stand: "first" | "any"
	markers  []int
	detOnly  []int // marker positions also generated under DetectionOnly
	// chainLens: lengths of the (single) chain a program may hold; nil = {2} on the four starter actions below.
	// A family with chainLens set chains every action of its menu (the starter's disruptive and flow actions
	// run only when every link matched - for every action, not only the four).
	chainLens []int
	// variants of the marker: its name (also the id of a rule between the jump and the marker) and a second
	// marker of the same name (the jump lies between the two)
	mname string
	dups  []int // parallel to markers: 1 + position of the duplicate, 0 = none
}

var actionsEngine = []string{"pass", "allow", "allow:request", "allow:phase", "deny", "skip:1", "ctl:ruleEngine=On", "ctl:ruleEngine=DetectionOnly"}

var actionsMarker = []string{"pass", "skipAfter:M1", "skip:1", "deny"}

var actionsReduced = []string{"pass", "skip:1", "skipAfter:M1", "skipAfter:ABSENT", "allow", "allow:phase", "deny"}

func programs(thorough bool, emit func(p program)) {
	fams := []family{
		// quick: 3 slots over phases 1, 2 and logging
		{n: 3, phases: []int{1, 2, 5}, actions: actionsQuick, combined: "first", markers: []int{-1, 0, 1, 3}, detOnly: []int{-1}},
	}
	// the engine mode switched by ctl in the middle of a transaction: what allow / deny do is decided by the mode
	// in force when they run (an allow seen in DetectionOnly is dropped for good)
	engineFam := family{n: 3, phases: []int{1, 2, 5}, actions: actionsEngine, combined: "first", markers: []int{-1}, detOnly: []int{-1}}
	fams = append(fams, engineFam)
	// chains of 3 and 4 links (the property quantifies over chains of length 1-4): two slots, either one the chain,
	// every action of the menu on the starter
	longChains := family{n: 2, phases: []int{1, 2, 5}, actions: actionsQuick, combined: "any", markers: []int{-1, 0, 1, 2}, detOnly: []int{-1, 1}, chainLens: []int{3, 4}}
	fams = append(fams, longChains)
	markerFams := []family{
		{n: 3, phases: []int{1, 2, 5}, actions: actionsMarker, combined: "first", markers: []int{3, 2}, mname: "2"},
		{n: 3, phases: []int{1, 2, 5}, actions: actionsMarker, combined: "first", markers: []int{0, 1, 0}, dups: []int{4, 4, 3}},
	}
	fams = append(fams, markerFams...)
	if thorough {
		// thorough: the two-slot family with the full menu as in quick, and three slots over the reduced menu
		longChains3 := longChains
		longChains3.n, longChains3.actions = 3, actionsReduced
		fams = []family{
			engineFam,
			longChains,
			longChains3,
			markerFams[0], markerFams[1],
			{n: 3, phases: []int{1, 2, 5}, actions: actionsQuick, combined: "any", markers: []int{-1, 0, 1, 2, 3}, detOnly: []int{-1, 0, 1, 2, 3}},
			// all five phases with three slots
			{n: 3, phases: []int{1, 2, 3, 4, 5}, actions: actionsQuick, combined: "first", markers: []int{-1, 0, 2}, detOnly: []int{-1}},
			// four slots over a reduced action menu
			{n: 4, phases: []int{1, 2, 5}, actions: actionsReduced, combined: "first", markers: []int{-1, 0, 2, 4}, detOnly: []int{-1}},
		}
	}
	for _, f := range fams {
		f := f
		var rec func(cur []slot, chained bool)
		rec = func(cur []slot, chained bool) {
			if len(cur) == f.n {
				for mi, m := range f.markers {
					pr := program{Slots: append([]slot{}, cur...), Marker: m, Engine: "On", MName: f.mname}
					if mi < len(f.dups) {
						pr.Dup = f.dups[mi]
					}
					emit(pr)
				}
				for _, m := range f.detOnly {
					emit(program{Slots: append([]slot{}, cur...), Marker: m, Engine: "DetectionOnly"})
				}
				return
			}
			for _, ph := range f.phases {
				// rules of different phases are generated in every order: skip's "same phase only" clause
				for _, a := range f.actions {
					if strings.Contains(a, ",") && f.combined == "first" && len(cur) > 0 {
						continue
					}
					rec(append(cur, slot{Phase: ph, Action: a, Chain: 1}), chained)
					if chained {
						continue
					}
					if f.chainLens != nil {
						if a != "pass" {
							for _, n := range f.chainLens {
								rec(append(cur, slot{Phase: ph, Action: a, Chain: n}), true)
							}
						}
					} else if a == "deny" || a == "skip:1" || a == "allow" || a == "skipAfter:M1" {
						rec(append(cur, slot{Phase: ph, Action: a, Chain: 2}), true)
					}
				}
			}
		}
		rec(nil, false)
	}
}

func run(c *runner.Ctx) {
	idx := 0
	programs(c.Thorough(), func(p program) {
		idx++
		if !c.Mine(idx) {
			return
		}
		if c.Expired() {
			return
		}
		conf := p.conf()
		defer c.Watch("program", kase{Prog: p}, 3*time.Minute)()
		w, err := scen.Build(conf)
		if err != nil {
			c.Violation("build:"+err.Error(), "generated configuration rejected: "+err.Error()+"\n"+conf, kase{Prog: p})
			return
		}
		defer scen.Close(w)
		nl := p.links()
		for v := 0; v < 1<<nl; v++ {
			bits := make([]bool, nl)
			for i := range bits {
				bits[i] = v&(1<<i) != 0
			}
			fired, itr, spec, flow := model(p, bits)
			if !spec {
				c.Count("skipped_unspecified", 1)
				continue
			}
			c.Count("evaluations", 1)
			o := scen.Run(w, request(bits), scen.Options{})
			var got []int
			for _, m := range o.Matched {
				got = append(got, m.ID)
			}
			gotItr := 0
			fmt.Sscanf(o.Interruption, "{rule=%d", &gotItr)
			gs, ws := fmt.Sprintf("fired=%v interrupted_by=%d panic=%q", got, gotItr, o.Panic), fmt.Sprintf("fired=%v interrupted_by=%d panic=\"\"", fired, itr)
			c.Outcome(gs)
			if flow {
				b, _ := json.Marshal(kase{p, bits})
				c.Distinct(string(b))
				if c.WantSample() && len(fired) > 1 {
					c.Sample(map[string]any{"config": conf, "bits": bits, "fired": fired, "interrupted_by": itr})
				}
			}
			if gs != ws {
				c.Violation(classify(p, bits, got, fired, gotItr, itr), "configuration:\n"+conf+fmt.Sprintf("request bits: %v\n--- engine:    %s\n--- documented: %s\n", bits, gs, ws), kase{p, bits})
			}
		}
	})
}

// classify names the law that is broken.
func classify(p program, bits []bool, got, want []int, gotItr, wantItr int) string {
	// shrink: which single action kinds are present
	has := func(prefix string) bool {
		for _, s := range p.Slots {
			if strings.HasPrefix(s.Action, prefix) {
				return true
			}
		}
		return false
	}
	missing, extra := diff(want, got), diff(got, want)
	phaseOf := func(id int) int { return p.Slots[id-1].Phase }
	switch {
	case len(missing) > 0 && has("skipAfter:") && skipAfterLeak(p, bits, missing):
		return "skipAfter-pending-marker-leaks-into-next-phase"
	case len(missing) > 0 && has("allow") && allPhase(missing, phaseOf, 5) && hasExact(p, "allow"):
		return "allow-stops-logging-phase"
	}
	_ = extra
	b, _ := json.Marshal(p)
	return "unclassified:" + string(b)
}

func hasExact(p program, a string) bool {
	for _, s := range p.Slots {
		if s.Action == a {
			return true
		}
	}
	return false
}

func allPhase(ids []int, phaseOf func(int) int, ph int) bool {
	for _, id := range ids {
		if phaseOf(id) != ph {
			return false
		}
	}
	return len(ids) > 0
}

// skipAfterLeak: the missing rules are all in a later phase than a fired
// skipAfter rule whose marker does not follow it.
func skipAfterLeak(p program, bits []bool, missing []int) bool {
	for _, s := range p.Slots {
		if strings.HasPrefix(s.Action, "skipAfter:") {
			for _, m := range missing {
				if p.Slots[m-1].Phase > s.Phase {
					return true
				}
			}
		}
	}
	return false
}

func diff(a, b []int) []int {
	in := map[int]bool{}
	for _, x := range b {
		in[x] = true
	}
	var out []int
	for _, x := range a {
		if !in[x] {
			out = append(out, x)
		}
	}
	return out
}

func replay(raw json.RawMessage) (bool, string) {
	var k kase
	if err := json.Unmarshal(raw, &k); err != nil {
		return false, err.Error()
	}
	conf := k.Prog.conf()
	w, err := scen.Build(conf)
	if err != nil {
		return true, "build: " + err.Error()
	}
	defer scen.Close(w)
	fired, itr, spec, _ := model(k.Prog, k.Bits)
	o := scen.Run(w, request(k.Bits), scen.Options{})
	var got []int
	for _, m := range o.Matched {
		got = append(got, m.ID)
	}
	gotItr := 0
	fmt.Sscanf(o.Interruption, "{rule=%d", &gotItr)
	gs, ws := fmt.Sprintf("fired=%v interrupted_by=%d panic=%q", got, gotItr, o.Panic), fmt.Sprintf("fired=%v interrupted_by=%d panic=\"\"", fired, itr)
	return spec && gs != ws, fmt.Sprintf("configuration:\n%srequest bits: %v\n--- engine:    %s\n--- documented: %s (specified=%v)\n", conf, k.Bits, gs, ws, spec)
}
