// Package c04 decides C04: a transaction's outcome is a function of the
// configuration and the request only (DESIGN.md §3 C04).
package c04

import (
	"encoding/json"
	"fmt"
	"sort"
	"strings"

	coraza "github.com/corazawaf/coraza/v3"
	"github.com/corazawaf/coraza/v3/internal/verif/mc"
	"github.com/corazawaf/coraza/v3/internal/verif/runner"
	"github.com/corazawaf/coraza/v3/internal/verif/scen"
)

func init() {
	runner.Register(&runner.Check{
		ID:    "C04",
		Level: "exploration",
		Rule: "scenario = (1-2 rule program sharing transformation prefixes, request with repeated / case-variant / cross-collection names); " +
			"each scenario is executed under every map-iteration order within the deviation bound at every instrumented `range <map>` site; " +
			"distinct_nontrivial = distinct scenarios in which at least 2 different iteration orders were actually executed",
		Assumptions: []string{
			"map iteration order and sync.Pool reuse are the only runtime nondeterminism on the transaction path (no select, timers or goroutines there)",
			"map-order deviations are bounded (quick: 2 from sorted order; thorough: 3); scenarios with <=3 keys per map are thereby covered in all orders",
		},
		Run:    run,
		Replay: replay,
	})
}

var targets = []string{
	"ARGS_GET", "ARGS", "ARGS_NAMES", "ARGS_GET_NAMES", "ARGS_GET:a", "ARGS_GET:/^a/", "ARGS_POST", "REQUEST_HEADERS:X-A|ARGS_GET",
	"REQUEST_COOKIES", "&ARGS_GET", "ARGS_GET|!ARGS_GET:b", "ARGS|!ARGS:/^b/", "REQUEST_COOKIES_NAMES",
	"ARGS|!ARGS:b", // one literal name excluded from a collection that concatenates two maps (the name in both)
}

var transforms = []string{"", "t:lowercase", "t:lowercase,t:trim", "t:trim"}

var ops = []string{`"@rx ^[x1]"`, `"@streq 2"`, `"!@contains x"`}

var requests = []scen.Req{
	{URI: "/p?a=1&a=2&b=3"},
	{URI: "/p?a=x&A=X&b=x"},
	{URI: "/p?b=1&a=1&c=1"},
	{URI: "/p?a=1&a=1&a=2"},
	{URI: "/p?a=X&b=2&c=x1", Headers: [][2]string{{"X-A", "1"}, {"Cookie", "a=1; b=x; a=2"}}},
	{URI: "/p?a=2", Headers: [][2]string{scen.Form(), {"Cookie", "c=2; d=x; e=1"}}, Body: "a=2&c=x&d=1"},
	{URI: "/p?b=x", Headers: [][2]string{scen.Form()}, Body: "A=1&a=2&b=x"},
	{URI: "/p?a=%20X&b=x%20&c=2"},
	{URI: "/p?a=x&b=1&c=x", PreArgs: [][2]string{{"p1", "x"}, {"p2", "1"}}},
	{URI: "/p?b=x&a=1", PreArgs: [][2]string{{"p1", "x"}}},
}

type program struct {
	conf string
	key  string
}

func rule(id int, tgt, tr, op, acts string) string {
	a := fmt.Sprintf("id:%d,phase:2", id)
	if tr != "" {
		a += "," + tr
	}
	a += "," + acts
	return fmt.Sprintf("SecRule %s %s \"%s\"", tgt, op, a)
}

const header = "SecRuleEngine On\nSecRequestBodyAccess On\n"

func programs(thorough bool, emit func(p program)) {
	second := []string{"ARGS_GET", "ARGS", "ARGS_GET:/^a/", "REQUEST_COOKIES"}
	secondTr := []string{"t:lowercase", "t:lowercase,t:trim"}
	if thorough {
		second = targets
		secondTr = transforms
	}
	for _, t1 := range targets {
		for _, tr1 := range transforms {
			for _, op1 := range ops {
				r1 := rule(1, t1, tr1, op1, "pass,log,setvar:tx.c=+1")
				emit(program{conf: header + r1 + "\n"})
				for _, t2 := range second {
					for _, tr2 := range secondTr {
						for i, op2 := range ops {
							acts := "pass,log,setvar:tx.c=+1"
							if i == 1 {
								acts = "deny,status:403,log"
							}
							r2 := rule(2, t2, tr2, op2, acts)
							emit(program{conf: header + r1 + "\n" + r2 + "\n"})
						}
					}
				}
			}
		}
	}
	// chains reading MATCHED_VAR / MATCHED_VAR_NAME after a starter that matched several values:
	// whether the chain completes must not depend on which value was matched last
	for _, t1 := range []string{"ARGS_GET", "ARGS", "REQUEST_COOKIES"} {
		for _, link := range []string{"SecRule MATCHED_VAR \"@rx ^[x1]\" \"t:none\"", "SecRule MATCHED_VAR \"@rx ^x\" \"t:lowercase\"", "SecRule MATCHED_VAR_NAME \"@rx :b$\" \"t:none\""} {
			emit(program{conf: header + fmt.Sprintf("SecRule %s \"@rx .\" \"id:1,phase:2,pass,log,chain\"\n  %s\n", t1, link)})
		}
	}
	// chains whose inner links only gate the chain (no actions of their own) and match several values under different
	// names: the values each link reports, what MATCHED_VARS(_NAMES) holds for the next link and the counters must not
	// depend on which value an iteration meets first
	for _, t1 := range []string{"ARGS_GET", "ARGS", "REQUEST_COOKIES"} {
		for _, last := range []string{
			"SecRule MATCHED_VARS_NAMES \"@rx :b$\" \"setvar:tx.c=+1\"",
			"SecRule MATCHED_VARS \"@rx ^[x1]\" \"setvar:tx.c=+1\"",
			"SecRule &MATCHED_VARS \"@ge 3\" \"setvar:tx.c=+1\"",
		} {
			emit(program{conf: header + fmt.Sprintf("SecRule %s \"@rx .\" \"id:1,phase:2,pass,log,chain\"\n  SecRule %s \"@rx .\" \"chain\"\n  %s\nSecRule TX:c \"@ge 2\" \"id:2,phase:2,deny,status:403,log\"\n", t1, t1, last)})
		}
		emit(program{conf: header + fmt.Sprintf("SecRule %s \"@rx .\" \"id:1,phase:2,pass,log,chain\"\n  SecRule %s \"@rx ^[x1]\" \"t:none\"\n", t1, t1)})
	}
	// argument limit: which arguments survive must not depend on order
	for _, t1 := range []string{"ARGS_GET", "ARGS"} {
		for _, lim := range []string{"2", "3", "4"} {
			emit(program{conf: header + "SecArgumentsLimit " + lim + "\n" + rule(1, t1, "", ops[0], "pass,log,setvar:tx.c=+1") + "\n"})
		}
	}
}

func run(c *runner.Ctx) {
	bound := 2
	if c.Thorough() {
		bound = 3
	}
	idx := 0
	programs(c.Thorough(), func(p program) {
		idx++
		if !c.Mine(idx) || c.Expired() {
			return
		}
		w, err := scen.Build(p.conf)
		if err != nil {
			c.Violation("build:"+err.Error(), "configuration of the generator does not compile: "+err.Error(), scen.Scenario{Conf: p.conf})
			return
		}
		defer scen.Close(w)
		for _, rq := range requests {
			sc := scen.Scenario{Conf: p.conf, Req: rq}
			outcomes, st, orders := explore(w, rq, bound)
			c.Count("evaluations", int64(st.Execs))
			c.Count("choice_points", int64(st.Points))
			c.Count("scenarios", 1)
			if st.Capped {
				c.Incomplete("execution cap hit in one scenario")
			}
			if orders >= 2 {
				b, _ := json.Marshal(sc)
				c.Distinct(string(b))
				if c.WantSample() {
					c.Sample(map[string]any{"scenario": sc, "executions": st.Execs, "distinct_orders": orders, "outcome": firstKey(outcomes)})
				}
			}
			for k := range outcomes {
				c.Outcome(k)
			}
			if len(outcomes) > 1 {
				c.Violation(classify(sc, outcomes), describe(outcomes), replayScenario{Scenario: sc, Choices: pickTwo(outcomes)})
			}
		}
	})
	c.Extra("deviation_bound", bound)
}

type replayScenario struct {
	scen.Scenario
	Choices [][]int `json:"choices"`
}

// explore runs rq under every map order within the bound; returns the set of
// outcome texts (mapped to one choice list producing it), stats, and the number
// of distinct choice lists.
func explore(waf coraza.WAF, rq scen.Req, bound int) (map[string][]int, mc.Stats, int) {
	outcomes := map[string][]int{}
	orders := 0
	st := mc.Explore(mc.Options{Bound: bound, MaxExecs: 20000}, func(cx *mc.Ctx) {
		o := scen.Run(waf, rq, scen.Options{Vars: true, SkipVars: skip})
		k := o.Core() + "TX=" + fmt.Sprint(o.Vars["TX/TX"]) + "\n"
		orders++
		if _, ok := outcomes[k]; !ok {
			outcomes[k] = cx.Choices()
		}
	})
	return outcomes, st, orders
}

var skip = map[string]bool{}

func firstKey(m map[string][]int) string {
	for k := range m {
		return k
	}
	return ""
}

func pickTwo(m map[string][]int) [][]int {
	keys := make([]string, 0, len(m))
	for k := range m {
		keys = append(keys, k)
	}
	sort.Strings(keys)
	out := [][]int{}
	for _, k := range keys {
		out = append(out, m[k])
		if len(out) == 2 {
			break
		}
	}
	return out
}

func describe(m map[string][]int) string {
	keys := make([]string, 0, len(m))
	for k := range m {
		keys = append(keys, k)
	}
	sort.Strings(keys)
	var sb strings.Builder
	fmt.Fprintf(&sb, "%d different outcomes for one (configuration, request) under different map orders:\n", len(keys))
	for i, k := range keys {
		if i == 3 {
			break
		}
		fmt.Fprintf(&sb, "--- order %v:\n%s", m[k], k)
	}
	return sb.String()
}

// classify derives a root-cause signature from the scenario's features.
func classify(sc scen.Scenario, m map[string][]int) string {
	if strings.Contains(sc.Conf, "SecRule MATCHED_VAR \"") || strings.Contains(sc.Conf, "SecRule MATCHED_VAR_NAME \"") {
		return "chain-on-MATCHED_VAR-depends-on-which-value-matched-last"
	}
	return "unclassified:" + sc.Conf + "|" + sc.Req.URI + "|" + sc.Req.Body
}

func replay(raw json.RawMessage) (bool, string) {
	var rs replayScenario
	if err := json.Unmarshal(raw, &rs); err != nil {
		return false, err.Error()
	}
	w, err := scen.Build(rs.Conf)
	if err != nil {
		return true, "build: " + err.Error()
	}
	defer scen.Close(w)
	seen := map[string]bool{}
	var sb strings.Builder
	for _, ch := range rs.Choices {
		mc.Replay(ch, func(cx *mc.Ctx) {
			o := scen.Run(w, rs.Req, scen.Options{Vars: true})
			k := o.Core() + "TX=" + fmt.Sprint(o.Vars["TX/TX"]) + "\n"
			seen[k] = true
			fmt.Fprintf(&sb, "map-order choices %v ->\n%s", ch, k)
		})
	}
	return len(seen) > 1, sb.String()
}
