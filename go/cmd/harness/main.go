// Command harness contains every check; it is compiled inside the coraza
// module through go build -overlay (see /verif/tools/instr).
package main

import (
	"github.com/corazawaf/coraza/v3/internal/verif/runner"

	_ "github.com/corazawaf/coraza/v3/internal/verif/c04"
)

func main() { runner.Main() }
