// Package runner is the plumbing shared by all checks: sharding over worker
// processes, counters, distinct-case accounting, samples, violations, known
// findings, replay files and evidence files (DESIGN.md §2.7).
package runner

import (
	"bufio"
	"context"
	"encoding/binary"
	"encoding/json"
	"flag"
	"fmt"
	"hash/fnv"
	"os"
	"os/exec"
	"path/filepath"
	"sort"
	"strconv"
	"strings"
	"sync"
	"time"
)

// Check is one property's decision procedure.
type Check struct {
	ID    string
	Level string // exploration | fault_enumeration | model_checking
	Rule  string // how cases are enumerated and what makes one distinct / non-trivial
	// Assumptions listed in the evidence file.
	Assumptions []string
	// Run enumerates the whole space of the tier, skipping cases for which
	// !c.Mine(i), and reports through c.
	Run func(c *Ctx)
	// Replay re-executes one recorded scenario without the explorer and says
	// whether it (still) violates, plus a human-readable observation.
	Replay func(scenario json.RawMessage) (violates bool, text string)
	// Serial forces a single worker.
	Serial bool
	// Threads > 0: the check runs controlled threads (package sched); workers get
	// GOMAXPROCS = Threads+1 and the pool is sized to the machine accordingly.
	Threads int
	// Variants lists the harness builds the check runs in ("" = default build;
	// others are driver build variants such as "race", "nomemoize",
	// "nomultiline", whose binaries the driver exports as VERIF_BIN_<variant>).
	// The worker pool is split evenly between them; Ctx.Variant says which
	// build a worker is. Default: just the default build.
	Variants []string
}

var registry = map[string]*Check{}

// Register adds a check.
func Register(c *Check) { registry[c.ID] = c }

// Violation found by a check.
type Violation struct {
	Sig      string          `json:"signature"`
	What     string          `json:"what"`
	Scenario json.RawMessage `json:"scenario"`
	Count    int             `json:"count"`
	Size     int             `json:"size"`
}

type workerOut struct {
	// Cases: VERIF_RECORD_CASES=1 only - per open known-finding signature, the hashes of the failing cases
	Cases      map[string][]uint64   `json:"cases,omitempty"`
	Counters   map[string]int64      `json:"counters"`
	Distinct   []uint64              `json:"distinct"`
	DistinctN  int                   `json:"distinct_n"`
	Outcomes   []uint64              `json:"outcomes"`
	Samples    []json.RawMessage     `json:"samples"`
	Violations map[string]*Violation `json:"violations"`
	Exhaustive bool                  `json:"exhaustive"`
	Notes      []string              `json:"notes"`
	Extra      map[string]any        `json:"extra"`
}

func gomaxprocs(ck *Check) string {
	if ck.Threads > 0 {
		return strconv.Itoa(ck.Threads + 1)
	}
	return "2"
}

// Ctx is handed to Check.Run.
type Ctx struct {
	Tier    string
	Seed    int64
	Worker  int
	Workers int
	Verif   string // /verif
	Variant string // build variant this worker runs in ("" = default)
	Work    string // private scratch directory of this worker (removed afterwards)
	Check   string // id of the check being run

	pins     map[string]map[uint64]struct{} // recorded failing cases per open known-finding signature
	open     map[string]bool
	deadline time.Time
	out      workerOut
	distinct map[uint64]struct{}
	outcomes map[uint64]struct{}
	hb       string
	outFile  string
	raceLog  string
	raceOff  map[string]int
	mu       sync.Mutex
}

const distinctCap = 4_000_000

// Thorough reports whether the thorough tier runs.
func (c *Ctx) Thorough() bool { return c.Tier == "thorough" }

// Mine says whether case number i belongs to this worker.
func (c *Ctx) Mine(i int) bool { return c.Workers <= 1 || i%c.Workers == c.Worker }

// Count adds to a named counter (summed over workers).
func (c *Ctx) Count(name string, n int64) { c.out.Counters[name] += n }

// Get reads a counter of this worker.
func (c *Ctx) Get(name string) int64 { return c.out.Counters[name] }

// Distinct records the canonical text of a non-trivial case.
func (c *Ctx) Distinct(key string) {
	h := hash(key)
	if _, ok := c.distinct[h]; ok {
		return
	}
	if len(c.distinct) >= distinctCap {
		return
	}
	c.distinct[h] = struct{}{}
}

// Outcome records a distinct observed outcome (vacuity indicator).
func (c *Ctx) Outcome(key string) {
	if len(c.outcomes) < 100000 {
		c.outcomes[hash(key)] = struct{}{}
	}
}

func hash(s string) uint64 {
	h := fnv.New64a()
	h.Write([]byte(s))
	return h.Sum64()
}

// Sample keeps up to 3 written-out cases per worker.
func (c *Ctx) Sample(v any) {
	if len(c.out.Samples) >= 3 {
		return
	}
	b, err := json.Marshal(v)
	if err == nil {
		c.out.Samples = append(c.out.Samples, b)
	}
}

// WantSample reports whether Sample would keep another case.
func (c *Ctx) WantSample() bool { return len(c.out.Samples) < 3 }

// Note adds a free-text remark to the evidence.
func (c *Ctx) Note(f string, a ...any) {
	if len(c.out.Notes) < 20 {
		c.out.Notes = append(c.out.Notes, fmt.Sprintf(f, a...))
	}
}

// Extra attaches a key to the evidence coverage object (last writer wins).
func (c *Ctx) Extra(k string, v any) { c.out.Extra[k] = v }

// Expired reports whether the internal deadline has passed; the check should
// then stop and the run is marked non-exhaustive.
func (c *Ctx) Expired() bool {
	if !c.deadline.IsZero() && time.Now().After(c.deadline) {
		c.out.Exhaustive = false
		return true
	}
	return false
}

// Incomplete marks the run as not exhaustive (a cap was hit).
func (c *Ctx) Incomplete(why string) {
	c.out.Exhaustive = false
	c.Note("incomplete: %s", why)
}

// Violation records a violation. sig identifies the root cause (it is what
// known_findings.jsonl entries are matched against); scenario must be enough
// to replay it. Among violations with the same signature the smallest
// scenario (by JSON length) is kept.
func (c *Ctx) Violation(sig, what string, scenario any) {
	b, _ := json.Marshal(scenario)
	if set, pinned := c.pinnedCases(sig); pinned {
		h := hash(string(b))
		if os.Getenv("VERIF_RECORD_CASES") != "" {
			if c.out.Cases == nil {
				c.out.Cases = map[string][]uint64{}
			}
			c.out.Cases[sig] = append(c.out.Cases[sig], h)
		} else if set != nil {
			if _, recorded := set[h]; !recorded {
				// same root-cause class as a known finding, but not one of the cases recorded for it
				what = "this case carries the signature of a known finding (" + sig + ") but is not among the failing cases recorded for it in known_findings.d/\n" + what
				sig += ":case-not-among-the-recorded-failing-cases"
			}
		}
	}
	v := c.out.Violations[sig]
	if v == nil {
		if len(c.out.Violations) >= 200 {
			return
		}
		c.out.Violations[sig] = &Violation{Sig: sig, What: what, Scenario: b, Count: 1, Size: len(b)}
		return
	}
	v.Count++
	if len(b) < v.Size {
		v.What, v.Scenario, v.Size = what, b, len(b)
	}
}

// caseFile is where the failing cases of an open known finding are recorded for a tier:
// sorted little-endian uint64 hashes of the scenario JSON of every failing case.
func caseFile(verif, check, sig, tier string) string {
	return filepath.Join(verif, "known_findings.d", fmt.Sprintf("%s-%016x.%s.u64", check, hash(sig), tier))
}

// pinnedCases tells whether sig is the signature of an open known finding of this
// check and, if the finding's failing cases were recorded for this tier, returns them.
func (c *Ctx) pinnedCases(sig string) (map[uint64]struct{}, bool) {
	if c.pins == nil {
		c.pins = map[string]map[uint64]struct{}{}
		c.open = map[string]bool{}
		for _, f := range loadFindings(c.Verif) {
			if f.Property == c.Check && f.Status == "open" {
				c.open[f.Signature] = true
			}
		}
	}
	if !c.open[sig] {
		return nil, false
	}
	set, loaded := c.pins[sig]
	if !loaded {
		if b, err := os.ReadFile(caseFile(c.Verif, c.Check, sig, c.Tier)); err == nil {
			set = make(map[uint64]struct{}, len(b)/8)
			for i := 0; i+8 <= len(b); i += 8 {
				set[binary.LittleEndian.Uint64(b[i:])] = struct{}{}
			}
		}
		c.pins[sig] = set
	}
	return set, true
}

// RaceReports returns the race detector reports written since the last call
// (the runner points GORACE=log_path at a per-worker file). Empty in builds
// without -race.
func (c *Ctx) RaceReports() string {
	matches, _ := filepath.Glob(c.raceLog + ".*")
	var sb strings.Builder
	for _, m := range matches {
		b, err := os.ReadFile(m)
		if err != nil {
			continue
		}
		off := c.raceOff[m]
		if len(b) > off {
			sb.Write(b[off:])
			c.raceOff[m] = len(b)
		}
	}
	return sb.String()
}

// RaceSite extracts the first coraza frame of a race report.
func RaceSite(report string) string { return raceSite(report) }

// Heartbeat records (on disk) the case about to be executed, so that a
// process-killing failure can be attributed.
func (c *Ctx) Heartbeat(scenario any) {
	b, _ := json.Marshal(scenario)
	_ = os.WriteFile(c.hb, b, 0o644)
}

// ---------------------------------------------------------------------------

type finding struct {
	Property  string `json:"property"`
	Signature string `json:"signature"`
	Status    string `json:"status"`
	Commit    string `json:"commit,omitempty"`
	What      string `json:"what"`
}

func loadFindings(verif string) []finding {
	f, err := os.Open(filepath.Join(verif, "known_findings.jsonl"))
	if err != nil {
		return nil
	}
	defer f.Close()
	var out []finding
	sc := bufio.NewScanner(f)
	sc.Buffer(make([]byte, 1<<20), 1<<20)
	for sc.Scan() {
		line := strings.TrimSpace(sc.Text())
		if line == "" || strings.HasPrefix(line, "#") {
			continue
		}
		var fd finding
		if json.Unmarshal([]byte(line), &fd) == nil {
			out = append(out, fd)
		}
	}
	return out
}

// Main is the entry point of the harness binary.
func Main() {
	if len(os.Args) < 2 {
		fmt.Fprintln(os.Stderr, "usage: harness run|worker|replay|list ...")
		os.Exit(2)
	}
	switch os.Args[1] {
	case "list":
		ids := make([]string, 0, len(registry))
		for id := range registry {
			ids = append(ids, id)
		}
		sort.Strings(ids)
		fmt.Println(strings.Join(ids, "\n"))
	case "run":
		os.Exit(runParent(os.Args[2:]))
	case "worker":
		os.Exit(runWorker(os.Args[2:]))
	case "replay":
		os.Exit(runReplay(os.Args[2:]))
	default:
		fmt.Fprintln(os.Stderr, "unknown subcommand", os.Args[1])
		os.Exit(2)
	}
}

type opts struct {
	check    string
	tier     string
	workers  int
	worker   int
	verif    string
	outFile  string
	deadline int
	seed     int64
	workdir  string
	variant  string
}

func parse(args []string) opts {
	var o opts
	fs := flag.NewFlagSet("harness", flag.ExitOnError)
	fs.StringVar(&o.check, "check", "", "property id")
	fs.StringVar(&o.tier, "tier", "quick", "quick|thorough")
	fs.IntVar(&o.workers, "workers", 16, "worker processes")
	fs.IntVar(&o.worker, "worker", 0, "index of this worker")
	fs.StringVar(&o.verif, "verif", "/verif", "verif directory")
	fs.StringVar(&o.outFile, "out", "", "worker output file")
	fs.IntVar(&o.deadline, "deadline", 0, "internal deadline in seconds (0 = none)")
	fs.Int64Var(&o.seed, "seed", 0, "seed (VERIF_SEED)")
	fs.StringVar(&o.workdir, "workdir", "", "scratch directory")
	fs.StringVar(&o.variant, "variant", "", "build variant of this worker")
	_ = fs.Parse(args)
	return o
}

func runWorker(args []string) int {
	o := parse(args)
	ck := registry[o.check]
	if ck == nil {
		fmt.Fprintln(os.Stderr, "unknown check", o.check)
		return 2
	}
	c := &Ctx{Check: o.check, Tier: o.tier, Seed: o.seed, Worker: o.worker, Workers: o.workers, Verif: o.verif, Variant: o.variant,
		Work:     filepath.Join(o.workdir, fmt.Sprintf("w%s%d", o.variant, o.worker)),
		distinct: map[uint64]struct{}{}, outcomes: map[uint64]struct{}{},
		outFile: o.outFile, hb: o.outFile + ".hb", raceLog: strings.TrimSuffix(o.outFile, ".json"), raceOff: map[string]int{}}
	c.raceLog = filepath.Join(filepath.Dir(o.outFile), "race-"+strings.TrimSuffix(filepath.Base(o.outFile), ".json"))
	_ = os.MkdirAll(c.Work, 0o755)
	c.out.Counters = map[string]int64{}
	c.out.Violations = map[string]*Violation{}
	c.out.Extra = map[string]any{}
	c.out.Exhaustive = true
	if o.deadline > 0 {
		c.deadline = time.Now().Add(time.Duration(o.deadline) * time.Second)
	}
	code := 0
	func() {
		defer func() {
			if r := recover(); r != nil {
				if e, ok := r.(error); ok && strings.HasPrefix(e.Error(), "HARNESS-NONDETERMINISM") {
					fmt.Fprintln(os.Stderr, e.Error())
					code = 3
					return
				}
				panic(r)
			}
		}()
		ck.Run(c)
	}()
	if err := c.flush(); err != nil {
		fmt.Fprintln(os.Stderr, err)
		return 2
	}
	return code
}

// flush writes the worker's result file.
func (c *Ctx) flush() error {
	for h := range c.distinct {
		c.out.Distinct = append(c.out.Distinct, h)
	}
	c.out.DistinctN = len(c.distinct)
	for h := range c.outcomes {
		c.out.Outcomes = append(c.out.Outcomes, h)
	}
	b, _ := json.Marshal(&c.out)
	if err := os.WriteFile(c.outFile, b, 0o644); err != nil {
		return err
	}
	_ = os.Remove(c.hb)
	return nil
}

// Watch guards one case against a hang of the code under test: if stop is not called within d, the case is
// reported as a violation ("hang:"+label, replayable through scenario), the worker's results so far are
// written and the worker exits (a hung goroutine cannot be recovered, the process state is lost with it).
// d must be far beyond what the case takes on a loaded machine; it is a timeout, not an exploration.
func (c *Ctx) Watch(label string, scenario any, d time.Duration) (stop func()) {
	t := time.AfterFunc(d, func() {
		if f, ok := scenario.(func() any); ok {
			scenario = f() // evaluated now: the choices made up to the hang
		}
		if c.outFile == "" {
			// replay context: there is no result file to write
			b, _ := json.Marshal(scenario)
			fmt.Printf("HANG %s: the case did not return within %s: %s\n", label, d, b)
			os.Exit(1)
		}
		c.Violation("hang:"+label, fmt.Sprintf("the case did not return within %s (the code under test blocks for ever, or loops)", d), scenario)
		c.Incomplete("worker stopped after a hang")
		_ = c.flush()
		os.Exit(0)
	})
	return func() { t.Stop() }
}

func runParent(args []string) int {
	o := parse(args)
	ck := registry[o.check]
	if ck == nil {
		fmt.Fprintln(os.Stderr, "unknown check", o.check)
		return 2
	}
	start := time.Now()
	if s := os.Getenv("VERIF_SEED"); s != "" {
		o.seed, _ = strconv.ParseInt(s, 10, 64)
	}
	if ck.Serial {
		o.workers = 1
	}
	work, err := os.MkdirTemp(filepath.Join(o.verif, ".work"), "run-"+o.check+"-")
	if err != nil {
		fmt.Fprintln(os.Stderr, err)
		return 2
	}
	defer os.RemoveAll(work)
	self, _ := os.Executable()

	type res struct {
		name string
		err  error
		tail string
	}
	variants := ck.Variants
	if len(variants) == 0 {
		variants = []string{""}
	}
	if only := os.Getenv("VERIF_ONLY_VARIANT"); only != "" {
		// debugging aid: restrict the run to one build variant ("default" = the default build)
		if only == "default" {
			only = ""
		}
		variants = []string{only}
	}
	if ck.Threads > 0 {
		o.workers = o.workers * 2 / (ck.Threads + 1)
	}
	per := o.workers / len(variants)
	if per < 1 {
		per = 1
	}
	total := per * len(variants)
	ch := make(chan res, total)
	for _, variant := range variants {
		bin := self
		if variant != "" {
			bin = os.Getenv("VERIF_BIN_" + strings.ReplaceAll(variant, "-", "_"))
			if bin == "" {
				fmt.Fprintf(os.Stderr, "CHECK-BROKEN: no binary for variant %q (VERIF_BIN_%s unset)\n", variant, variant)
				return 2
			}
		}
		for i := 0; i < per; i++ {
			go func(variant, bin string, i int) {
				name := fmt.Sprintf("worker-%s%d", variant, i)
				out := filepath.Join(work, name+".json")
				// backstop: a worker that is still running long after its cooperative deadline is killed
				ctx, cancel := context.WithCancel(context.Background())
				if o.deadline > 0 {
					ctx, cancel = context.WithTimeout(context.Background(), time.Duration(o.deadline+600)*time.Second)
				}
				defer cancel()
				cmd := exec.CommandContext(ctx, bin, "worker", "-check", o.check, "-tier", o.tier, "-workers", strconv.Itoa(per),
					"-worker", strconv.Itoa(i), "-verif", o.verif, "-out", out, "-deadline", strconv.Itoa(o.deadline),
					"-seed", strconv.FormatInt(o.seed, 10), "-workdir", work, "-variant", variant)
				cmd.Env = append(os.Environ(), "GOMAXPROCS="+gomaxprocs(ck), "GOGC=400", "TMPDIR="+work,
					"GORACE=log_path="+filepath.Join(work, "race-"+name)+" history_size=2 exitcode=0")
				var tail tailBuf
				cmd.Stderr = &tail
				cmd.Stdout = &tail
				err := cmd.Run()
				ch <- res{name, err, tail.String()}
			}(variant, bin, i)
		}
	}
	merged := workerOut{Counters: map[string]int64{}, Violations: map[string]*Violation{}, Exhaustive: true, Extra: map[string]any{}}
	distinct := map[uint64]struct{}{}
	outcomes := map[uint64]struct{}{}
	broken := false
	for i := 0; i < total; i++ {
		r := <-ch
		outFile := filepath.Join(work, r.name+".json")
		if r.err != nil {
			hb, hbErr := os.ReadFile(outFile + ".hb")
			if hbErr == nil && len(hb) > 0 {
				// attributable crash: a violation whose scenario is the heartbeat
				sig := "crash:" + crashClass(r.tail)
				v := merged.Violations[sig]
				if v == nil {
					merged.Violations[sig] = &Violation{Sig: sig, What: "worker process died: " + lastLines(r.tail, 30), Scenario: hb, Count: 1, Size: len(hb)}
				} else {
					v.Count++
				}
				merged.Exhaustive = false
				continue
			}
			fmt.Fprintf(os.Stderr, "CHECK-BROKEN %s: %v\n%s\n", r.name, r.err, lastLines(r.tail, 60))
			broken = true
			continue
		}
		b, err := os.ReadFile(outFile)
		if err != nil {
			fmt.Fprintf(os.Stderr, "CHECK-BROKEN %s wrote no result: %v\n%s\n", r.name, err, lastLines(r.tail, 40))
			broken = true
			continue
		}
		var w workerOut
		if err := json.Unmarshal(b, &w); err != nil {
			fmt.Fprintf(os.Stderr, "CHECK-BROKEN %s result: %v\n", r.name, err)
			broken = true
			continue
		}
		for k, v := range w.Counters {
			merged.Counters[k] += v
		}
		for _, h := range w.Distinct {
			distinct[h] = struct{}{}
		}
		for _, h := range w.Outcomes {
			outcomes[h] = struct{}{}
		}
		if len(merged.Samples) < 5 {
			merged.Samples = append(merged.Samples, w.Samples...)
		}
		for k, v := range w.Extra {
			merged.Extra[k] = v
		}
		merged.Notes = append(merged.Notes, w.Notes...)
		merged.Exhaustive = merged.Exhaustive && w.Exhaustive
		for sig, hs := range w.Cases {
			if merged.Cases == nil {
				merged.Cases = map[string][]uint64{}
			}
			merged.Cases[sig] = append(merged.Cases[sig], hs...)
		}
		for sig, v := range w.Violations {
			if m := merged.Violations[sig]; m == nil {
				merged.Violations[sig] = v
			} else {
				m.Count += v.Count
				if v.Size < m.Size {
					m.What, m.Scenario, m.Size = v.What, v.Scenario, v.Size
				}
			}
		}
	}
	if broken {
		return 2
	}

	// VERIF_RECORD_CASES=1 (never set by a registered command): write down the failing cases of every open
	// known finding for this tier, so that later runs report any failing case that is not among them
	if os.Getenv("VERIF_RECORD_CASES") != "" {
		if !merged.Exhaustive {
			fmt.Fprintln(os.Stderr, "VERIF_RECORD_CASES: run was cut, nothing recorded")
		} else {
			_ = os.MkdirAll(filepath.Join(o.verif, "known_findings.d"), 0o755)
			for sig, hs := range merged.Cases {
				sort.Slice(hs, func(i, j int) bool { return hs[i] < hs[j] })
				buf := make([]byte, 0, 8*len(hs))
				var prev uint64
				n := 0
				for i, h := range hs {
					if i > 0 && h == prev {
						continue
					}
					buf = binary.LittleEndian.AppendUint64(buf, h)
					prev = h
					n++
				}
				path := caseFile(o.verif, o.check, sig, o.tier)
				if err := os.WriteFile(path, buf, 0o644); err != nil {
					fmt.Fprintln(os.Stderr, err)
					return 2
				}
				fmt.Printf("recorded %d failing cases (%d reports) of %q in %s\n", n, len(hs), sig, path)
			}
		}
	}

	// classify violations against the known-findings file
	findings := loadFindings(o.verif)
	var sigs []string
	for s := range merged.Violations {
		sigs = append(sigs, s)
	}
	sort.Strings(sigs)
	nviol := 0
	known := 0
	// VERIF_OUTDIR redirects replay and evidence files (used for runs against a deliberately broken copy of the
	// tree, which must not overwrite the evidence of the real tree)
	outRoot := o.verif
	if e := os.Getenv("VERIF_OUTDIR"); e != "" {
		outRoot = e
	}
	_ = os.MkdirAll(filepath.Join(outRoot, "replays"), 0o755)
	if stale, _ := filepath.Glob(filepath.Join(outRoot, "replays", o.check+"-"+o.tier+"-*.json")); len(stale) > 0 {
		for _, f := range stale {
			_ = os.Remove(f)
		}
	}
	for _, s := range sigs {
		v := merged.Violations[s]
		isKnown := false
		for _, f := range findings {
			if f.Property == o.check && f.Status == "open" && f.Signature == s {
				fmt.Printf("KNOWN-FINDING: property=%s %s [%s; %d failing cases]\n", o.check, f.What, s, v.Count)
				isKnown = true
				known++
				break
			}
		}
		if isKnown {
			continue
		}
		nviol++
		if nviol > 25 {
			continue
		}
		path := filepath.Join(outRoot, "replays", fmt.Sprintf("%s-%s-%016x.json", o.check, o.tier, hash(s)))
		rep := map[string]any{"property": o.check, "tier": o.tier, "signature": s, "what": v.What, "scenario": v.Scenario, "failing_cases": v.Count}
		b, _ := json.MarshalIndent(rep, "", " ")
		_ = os.WriteFile(path, b, 0o644)
		fmt.Printf("VIOLATION property=%s replay=%s\n", o.check, path)
		fmt.Printf("  signature: %s\n  what: %s\n", s, indent(v.What))
	}

	// evidence
	if len(merged.Samples) > 5 {
		merged.Samples = merged.Samples[:5]
	}
	cov := map[string]any{}
	for k, v := range merged.Extra {
		cov[k] = v
	}
	for k, v := range merged.Counters {
		cov[k] = v
	}
	cov["rule"] = ck.Rule
	cov["samples"] = merged.Samples
	cov["exhaustive"] = merged.Exhaustive
	cov["distinct_outcomes"] = len(outcomes)
	cov["workers"] = total
	if len(merged.Notes) > 0 {
		if len(merged.Notes) > 20 {
			// what was cut short matters most: those notes first
			var first, rest []string
			for _, n := range merged.Notes {
				if strings.HasPrefix(n, "incomplete:") {
					first = append(first, n)
				} else {
					rest = append(rest, n)
				}
			}
			merged.Notes = append(first, rest...)
			if len(merged.Notes) > 24 {
				merged.Notes = merged.Notes[:24]
			}
		}
		cov["notes"] = merged.Notes
	}
	if _, ok := cov["evaluations"]; !ok {
		cov["evaluations"] = merged.Counters["evaluations"]
	}
	cov["distinct_nontrivial"] = len(distinct)
	cov["known_findings_reported"] = known
	ev := map[string]any{
		"property_id": o.check,
		"tier":        o.tier,
		"seed":        o.seed,
		"level":       ck.Level,
		"coverage":    cov,
		"assumptions": ck.Assumptions,
		"wall_s":      time.Since(start).Seconds(),
		"violations":  nviol,
	}
	if ck.Assumptions == nil {
		ev["assumptions"] = []string{}
	}
	b, _ := json.MarshalIndent(ev, "", " ")
	_ = os.MkdirAll(filepath.Join(outRoot, "evidence"), 0o755)
	if err := os.WriteFile(filepath.Join(outRoot, "evidence", o.check+".json"), b, 0o644); err != nil {
		fmt.Fprintln(os.Stderr, err)
		return 2
	}
	fmt.Printf("%s %s: evaluations=%d distinct_nontrivial=%d distinct_outcomes=%d exhaustive=%v violations=%d known=%d wall=%.1fs\n",
		o.check, o.tier, merged.Counters["evaluations"], len(distinct), len(outcomes), merged.Exhaustive, nviol, known, time.Since(start).Seconds())
	if len(distinct) < 2 {
		fmt.Fprintf(os.Stderr, "CHECK-BROKEN %s: vacuous run (distinct_nontrivial=%d)\n", o.check, len(distinct))
		return 2
	}
	if nviol > 0 {
		return 1
	}
	return 0
}

func runReplay(args []string) int {
	if len(args) < 1 {
		fmt.Fprintln(os.Stderr, "usage: harness replay <file> [n]")
		return 2
	}
	b, err := os.ReadFile(args[0])
	if err != nil {
		fmt.Fprintln(os.Stderr, err)
		return 2
	}
	var rep struct {
		Property string          `json:"property"`
		Scenario json.RawMessage `json:"scenario"`
	}
	if err := json.Unmarshal(b, &rep); err != nil {
		fmt.Fprintln(os.Stderr, err)
		return 2
	}
	ck := registry[rep.Property]
	if ck == nil || ck.Replay == nil {
		fmt.Fprintln(os.Stderr, "no replay for", rep.Property)
		return 2
	}
	n := 1
	if len(args) > 1 {
		n, _ = strconv.Atoi(args[1])
	}
	viol := 0
	for i := 0; i < n; i++ {
		v, text := ck.Replay(rep.Scenario)
		if i == 0 {
			fmt.Println(text)
		}
		if v {
			viol++
		}
	}
	fmt.Printf("replayed %d time(s): %d violating\n", n, viol)
	if viol == n {
		return 1
	}
	if viol == 0 {
		return 0
	}
	return 3
}

type tailBuf struct {
	mu  sync.Mutex
	buf []byte
}

func (t *tailBuf) Write(p []byte) (int, error) {
	t.mu.Lock()
	defer t.mu.Unlock()
	t.buf = append(t.buf, p...)
	if len(t.buf) > 1<<16 {
		t.buf = t.buf[len(t.buf)-1<<15:]
	}
	return len(p), nil
}
func (t *tailBuf) String() string { t.mu.Lock(); defer t.mu.Unlock(); return string(t.buf) }

func lastLines(s string, n int) string {
	lines := strings.Split(strings.TrimRight(s, "\n"), "\n")
	if len(lines) > n {
		lines = lines[len(lines)-n:]
	}
	return strings.Join(lines, "\n")
}

func indent(s string) string { return strings.ReplaceAll(s, "\n", "\n    ") }

// crashClass extracts a stable class from a dying worker's output.
func crashClass(tail string) string {
	for _, l := range strings.Split(tail, "\n") {
		l = strings.TrimSpace(l)
		switch {
		case strings.HasPrefix(l, "WARNING: DATA RACE"):
			return "data-race:" + raceSite(tail)
		case strings.HasPrefix(l, "fatal error:"):
			return l
		case strings.HasPrefix(l, "panic:"):
			return l
		}
	}
	return "unknown"
}

// raceSite returns the first coraza frame of a race report.
func raceSite(tail string) string {
	// A report has two access sections ("Write at"/"Read at", "Previous write at"/
	// "Previous read at"). The root cause is named by the writing access: the first
	// coraza frame of a write section (of the first section when both are writes).
	first, firstWrite := "", ""
	section := ""
	for _, l := range strings.Split(tail, "\n") {
		l = strings.TrimSpace(l)
		switch {
		case strings.HasPrefix(l, "Write at"), strings.HasPrefix(l, "Previous write at"), strings.HasPrefix(l, "Atomic write at"), strings.HasPrefix(l, "Previous atomic write at"):
			section = "w"
			continue
		case strings.HasPrefix(l, "Read at"), strings.HasPrefix(l, "Previous read at"), strings.HasPrefix(l, "Atomic read at"), strings.HasPrefix(l, "Previous atomic read at"):
			section = "r"
			continue
		case strings.HasPrefix(l, "Goroutine "):
			section = "g"
			continue
		}
		if section != "w" && section != "r" {
			continue
		}
		if strings.HasPrefix(l, "github.com/corazawaf/coraza/v3") && !strings.Contains(l, "internal/verif") && strings.HasSuffix(l, ")") {
			if i := strings.LastIndex(l, "/"); i >= 0 {
				l = l[i+1:]
			}
			l = strings.TrimSuffix(l, "()")
			if i := strings.Index(l, "["); i >= 0 {
				l = l[:i]
			}
			if first == "" {
				first = l
			}
			if section == "w" && firstWrite == "" {
				firstWrite = l
			}
			section = "done-" + section
		}
	}
	if firstWrite != "" {
		return "write in " + firstWrite
	}
	if first != "" {
		return first
	}
	return "?"
}

// NewCtxForReplay returns a context usable outside a worker (Replay functions
// that share code with Run).
func NewCtxForReplay() *Ctx {
	c := &Ctx{Tier: "quick", Workers: 1, Verif: "/verif", Work: os.TempDir(), distinct: map[uint64]struct{}{}, outcomes: map[uint64]struct{}{}, raceOff: map[string]int{}}
	c.out.Counters = map[string]int64{}
	c.out.Violations = map[string]*Violation{}
	c.out.Extra = map[string]any{}
	c.out.Exhaustive = true
	return c
}
