// Package c01 decides C01: rule matching is exact (DESIGN.md §3 C01).
package c01

import (
	"encoding/json"
	"fmt"
	"sort"
	"strconv"
	"strings"
	"time"

	"github.com/corazawaf/coraza/v3/internal/verif/mc"
	"github.com/corazawaf/coraza/v3/internal/verif/probe"
	"github.com/corazawaf/coraza/v3/internal/verif/runner"
	"github.com/corazawaf/coraza/v3/internal/verif/scen"
	sm "github.com/corazawaf/coraza/v3/internal/verif/secmodel"
)

func init() {
	runner.Register(&runner.Check{
		ID:    "C01",
		Level: "exploration",
		Rule: "program = one rule (8 collections x {none, :k, :K, :/re/, :/RE/, &, &:k} selectors x {none, !X:k, !X:K, !X:/re/} exclusions x 3 transformation lists x 5 operators x negation x multiMatch x phase 1/2), " +
			"plus two-rule programs (configuration order) and chains of 2 links; request = every list of <=2 (name,value) pairs over names {a,A,b,(empty)} x values {x,X,' x',(empty),\\xff} placed in the collections the rule reads; " +
			"every (program, request) is run on the real engine and compared with the reference interpreter secmodel: fired rules in order and the multiset of (variable,key,value) per fired rule; " +
			"distinct_nontrivial = distinct (program, request) cases in which the model is specified and at least one value was selected by the target list",
		Assumptions: []string{
			"secmodel restates the property for the generated alphabet; cases where the documentation is silent (regex selector vs. letter case of a name that differs between exact and case-insensitive matching, exclusions naming another collection, non-ASCII bytes under case transformations) are counted as skipped_unspecified and not asserted",
			"default build (case-insensitive ARGS keys); operators and transformations outside the alphabet are decided in isolation by C14/C15",
		},
		Run:    run,
		Replay: replay,
	})
}

type kase struct {
	Rules []*sm.Rule `json:"rules"`
	Req   sm.Request `json:"req"`
	Order []int      `json:"order,omitempty"`
}

var colls = []string{"ARGS_GET", "ARGS_POST", "ARGS", "ARGS_NAMES", "ARGS_GET_NAMES", "REQUEST_HEADERS", "REQUEST_COOKIES", "REQUEST_COOKIES_NAMES"}

// places a collection reads from (0 get, 1 post, 2 hdr, 3 cookie) plus one
// unrelated place so that cross-talk is visible.
func places(coll string) []int {
	switch coll {
	case "ARGS_GET", "ARGS_GET_NAMES", "ARGS_POST", "ARGS", "ARGS_NAMES":
		return []int{0, 1}
	case "REQUEST_HEADERS":
		return []int{2, 0}
	case "RESPONSE_HEADERS", "RESPONSE_HEADERS_NAMES":
		return []int{4, 2}
	default:
		return []int{3, 2}
	}
}

type sel struct {
	key, rx string
	count   bool
}

func genRules(thorough bool, emit func(r *sm.Rule)) {
	sels := []sel{{}, {key: "a"}, {key: "A"}, {rx: "^a"}, {rx: "^A$"}, {count: true}, {count: true, key: "a"}}
	type ex struct{ key, rx string }
	excls := []*ex{nil, {key: "a"}, {key: "B"}, {rx: "^b"}, {rx: "^A"}}
	trans := [][]string{nil, {"lowercase"}, {"lowercase", "trim"}}
	type op struct{ op, arg string }
	ops := []op{{"streq", "x"}, {"contains", "x"}, {"rx", "^x"}, {"eq", "1"}, {"unconditionalMatch", ""}}
	if !thorough {
		excls = []*ex{nil, {key: "a"}, {rx: "^b"}, {rx: "^A"}}
		ops = []op{{"streq", "x"}, {"rx", "^x"}, {"eq", "1"}}
	}
	for _, c := range colls {
		for _, s := range sels {
			for _, e := range excls {
				for _, tr := range trans {
					for _, o := range ops {
						for _, neg := range []bool{false, true} {
							for _, multi := range []bool{false, true} {
								if multi && len(tr) == 0 {
									continue
								}
								for _, phase := range []int{1, 2} {
									if phase == 1 && !thorough && c != "ARGS" && c != "ARGS_POST" {
										continue
									}
									r := &sm.Rule{ID: 1, Phase: phase, Targets: []sm.Target{{Coll: c, Key: s.key, Rx: s.rx, Count: s.count}},
										Trans: tr, Op: o.op, Arg: o.arg, Neg: neg, Multi: multi}
									if e != nil {
										r.Excls = []sm.Excl{{Coll: c, Key: e.key, Rx: e.rx}}
									}
									emit(r)
								}
							}
						}
					}
				}
			}
		}
	}
}

// genRulesLate: the response and logging phases (the property quantifies over every phase and over responses). Request
// collections read in phases 3-5, response header collections read in every phase (empty before phase 3).
func genRulesLate(thorough bool, emit func(r *sm.Rule)) {
	sels := []sel{{}, {key: "a"}, {key: "A"}, {rx: "^a"}, {rx: "^A$"}, {count: true}, {count: true, key: "a"}}
	type ex struct{ key, rx string }
	excls := []*ex{nil, {key: "a"}}
	type op struct{ op, arg string }
	ops := []op{{"streq", "x"}, {"rx", "^x"}, {"eq", "1"}}
	if thorough {
		excls = append(excls, &ex{rx: "^b"})
		ops = append(ops, op{"unconditionalMatch", ""})
	}
	for _, c := range []string{"ARGS", "REQUEST_COOKIES", "RESPONSE_HEADERS", "RESPONSE_HEADERS_NAMES"} {
		phases := []int{3, 4, 5}
		if strings.HasPrefix(c, "RESPONSE") {
			phases = []int{1, 2, 3, 4, 5}
		}
		for _, s := range sels {
			for _, e := range excls {
				for _, tr := range [][]string{nil, {"lowercase"}} {
					for _, o := range ops {
						for _, neg := range []bool{false, true} {
							for _, multi := range []bool{false, true} {
								if multi && len(tr) == 0 {
									continue
								}
								for _, phase := range phases {
									r := &sm.Rule{ID: 1, Phase: phase, Targets: []sm.Target{{Coll: c, Key: s.key, Rx: s.rx, Count: s.count}},
										Trans: tr, Op: o.op, Arg: o.arg, Neg: neg, Multi: multi}
									if e != nil {
										r.Excls = []sm.Excl{{Coll: c, Key: e.key, Rx: e.rx}}
									}
									emit(r)
								}
							}
						}
					}
				}
			}
		}
	}
}

// late: generated requests carry a response (set by the caller around genRequests).
var late bool

func genRequests(thorough bool, pl []int, emit func(q sm.Request)) {
	names := []string{"a", "A", "b"}
	values := []string{"x", "X", " x"}
	if thorough {
		names = []string{"a", "A", "b", ""}
		values = []string{"x", "X", " x", "", "\xff"}
	}
	type item struct {
		place int
		p     sm.Pair
	}
	var items []item
	for _, p := range pl {
		for _, n := range names {
			if n == "" && p >= 2 {
				continue // empty header / cookie names are dropped by documented behaviour
			}
			for _, v := range values {
				if p >= 2 && (strings.TrimSpace(v) != v || v == "\xff") {
					continue // header / cookie values are trimmed by the cookie grammar; keep them plain
				}
				items = append(items, item{p, sm.Pair{N: n, V: v}})
			}
		}
	}
	build := func(its ...item) sm.Request {
		var q sm.Request
		for _, it := range its {
			switch it.place {
			case 0:
				q.Get = append(q.Get, it.p)
			case 1:
				q.Post = append(q.Post, it.p)
			case 2:
				q.Hdr = append(q.Hdr, it.p)
			case 3:
				q.Cookie = append(q.Cookie, it.p)
			case 4:
				q.RespHdr = append(q.RespHdr, it.p)
			}
		}
		q.Resp = late
		return q
	}
	emit(build())
	for _, a := range items {
		emit(build(a))
	}
	for _, a := range items {
		for _, b := range items {
			emit(build(a, b))
		}
	}
}

func run(c *runner.Ctx) {
	idx := 0
	// part 1: single rules
	genRules(c.Thorough(), func(r *sm.Rule) {
		idx++
		if !c.Mine(idx) || c.Expired() {
			return
		}
		checkProgram(c, []*sm.Rule{r}, places(r.Targets[0].Coll))
	})
	// part 1b: response and logging phases
	late = true
	genRulesLate(c.Thorough(), func(r *sm.Rule) {
		idx++
		if !c.Mine(idx) || c.Expired() {
			return
		}
		checkProgram(c, []*sm.Rule{r}, places(r.Targets[0].Coll))
	})
	late = false
	// part 2: two-rule programs (configuration order, two targets) and chains
	second := []*sm.Rule{
		{Targets: []sm.Target{{Coll: "ARGS_GET"}}, Op: "rx", Arg: "^x", Trans: []string{"lowercase"}},
		{Targets: []sm.Target{{Coll: "ARGS", Key: "a"}, {Coll: "ARGS_NAMES"}}, Op: "streq", Arg: "x"},
		{Targets: []sm.Target{{Coll: "ARGS_POST"}, {Coll: "ARGS_GET", Rx: "^b"}}, Op: "contains", Arg: "x", Neg: true},
		{Targets: []sm.Target{{Coll: "ARGS_GET", Count: true}}, Op: "eq", Arg: "1"},
		// multiMatch after a rule with the same list: the operator must still see every intermediate value
		{Targets: []sm.Target{{Coll: "ARGS_GET"}}, Op: "rx", Arg: "^X", Trans: []string{"uppercase", "lowercase"}, Multi: true},
		{Targets: []sm.Target{{Coll: "ARGS"}}, Op: "streq", Arg: "X", Trans: []string{"lowercase", "trim", "uppercase"}, Multi: true},
	}
	first := []*sm.Rule{
		{Targets: []sm.Target{{Coll: "ARGS"}}, Op: "streq", Arg: "x", Trans: []string{"lowercase", "trim"}},
		{Targets: []sm.Target{{Coll: "ARGS_GET", Key: "A"}}, Op: "rx", Arg: "^x", Neg: true},
		{Targets: []sm.Target{{Coll: "ARGS_NAMES"}}, Excls: []sm.Excl{{Coll: "ARGS_NAMES", Key: "b"}}, Op: "streq", Arg: "a", Trans: []string{"lowercase"}, Multi: true},
		{Targets: []sm.Target{{Coll: "ARGS_GET"}}, Op: "rx", Arg: "^x", Trans: []string{"uppercase", "lowercase"}},
		{Targets: []sm.Target{{Coll: "ARGS"}}, Op: "contains", Arg: "y", Trans: []string{"lowercase", "trim", "uppercase"}},
	}
	// part 3: many values in one collection
	checkWide(c, &idx)
	// part 4: empty values through transformations that map "" to something else
	checkEmpty(c, &idx)
	// part 5: MATCHED_VARS belongs to the rule being evaluated
	checkMatchedVarsScope(c, &idx)
	for _, f := range first {
		for _, s := range second {
			for _, ph := range [][2]int{{2, 2}, {2, 1}, {1, 2}, {3, 3}, {4, 3}, {5, 4}, {5, 2}, {4, 4}, {5, 5}} {
				for _, chain := range []bool{false, true} {
					idx++
					if !c.Mine(idx) || c.Expired() {
						continue
					}
					late = ph[0] >= 3
					a, b := *f, *s
					a.ID, a.Phase = 1, ph[0]
					if chain {
						b.ID, b.Phase = 0, 0
						a.Chain = &b
						checkProgram(c, []*sm.Rule{&a}, []int{0, 1})
					} else {
						b.ID, b.Phase = 2, ph[1]
						checkProgram(c, []*sm.Rule{&a, &b}, []int{0, 1})
					}
					late = false
				}
			}
		}
	}
}

// wideRequests: many values in one collection (power-of-two sizes and their neighbours up to 300, below the default
// argument limit): under many distinct names, and all under one name. Exactness must not depend on how many values match.
func wideRequests(emit func(q sm.Request)) {
	for _, n := range []int{9, 17, 31, 32, 33, 64, 65, 100, 128, 129, 256, 257, 300} {
		for shape := 0; shape < 2; shape++ {
			var q sm.Request
			for i := 0; i < n; i++ {
				name := fmt.Sprintf("k%03d", i)
				if shape == 1 {
					name = "a"
				}
				v := "x" + strconv.Itoa(i)
				if i%5 == 4 {
					v = "y" + strconv.Itoa(i) // does not match ^x
				}
				q.Get = append(q.Get, sm.Pair{N: name, V: v})
				q.Post = append(q.Post, sm.Pair{N: name, V: strings.ToUpper(v)})
				if n <= 64 {
					q.Cookie = append(q.Cookie, sm.Pair{N: name, V: v})
				}
			}
			emit(q)
		}
	}
}

func checkWide(c *runner.Ctx, idx *int) {
	progs := [][]*sm.Rule{
		{{ID: 1, Phase: 2, Targets: []sm.Target{{Coll: "ARGS_GET"}}, Op: "rx", Arg: "^x"}},
		{{ID: 1, Phase: 2, Targets: []sm.Target{{Coll: "ARGS"}}, Op: "rx", Arg: "^x", Trans: []string{"lowercase"}}},
		{{ID: 1, Phase: 2, Targets: []sm.Target{{Coll: "ARGS_POST"}}, Op: "rx", Arg: "^x", Trans: []string{"lowercase"}, Multi: true}},
		{{ID: 1, Phase: 2, Targets: []sm.Target{{Coll: "ARGS_NAMES"}}, Op: "rx", Arg: "^k"}},
		{{ID: 1, Phase: 2, Targets: []sm.Target{{Coll: "ARGS_GET", Rx: "^k0"}}, Excls: []sm.Excl{{Coll: "ARGS_GET", Rx: "7$"}}, Op: "contains", Arg: "x"}},
		{{ID: 1, Phase: 2, Targets: []sm.Target{{Coll: "ARGS_GET", Count: true}}, Op: "eq", Arg: "33"}},
		{{ID: 1, Phase: 2, Targets: []sm.Target{{Coll: "REQUEST_COOKIES"}}, Op: "rx", Arg: "^x"}},
		{{ID: 1, Phase: 2, Targets: []sm.Target{{Coll: "ARGS_GET", Key: "a"}}, Op: "rx", Arg: "^x", Neg: true}},
		{{ID: 1, Phase: 2, Targets: []sm.Target{{Coll: "ARGS_GET"}}, Op: "rx", Arg: "^x", Chain: &sm.Rule{Targets: []sm.Target{{Coll: "ARGS_POST"}}, Op: "rx", Arg: "^Y"}}},
	}
	for _, rules := range progs {
		*idx++
		if !c.Mine(*idx) || c.Expired() {
			continue
		}
		conf := sm.Config(rules)
		w, err := scen.Build(conf)
		if err != nil {
			c.Violation("build:"+firstLine(err.Error()), "generated configuration rejected: "+err.Error()+"\n"+conf, kase{Rules: rules})
			continue
		}
		wideRequests(func(q sm.Request) {
			want, spec := sm.Eval(rules, q)
			if !spec {
				c.Count("skipped_unspecified", 1)
				return
			}
			o := scen.Run(w, q.Scen(), scen.Options{})
			c.Count("evaluations", 1)
			c.Count("wide_requests", 1)
			got, exp := render(o), renderWant(want)
			if got != exp {
				c.Violation("many-values:"+classify(rules, q, o, want), fmt.Sprintf("configuration:\n%srequest with %d GET / %d POST / %d cookie values\n--- engine:\n%s--- reference model:\n%s", conf, len(q.Get), len(q.Post), len(q.Cookie), clip(got), clip(exp)), kase{Rules: rules, Req: q})
			}
			c.Outcome(got)
			b, _ := json.Marshal(kase{Rules: rules, Req: q})
			c.Distinct(string(b))
		})
		scen.Close(w)
	}
}

// checkEmpty: an empty value is a value: it goes through the rule's transformations like any other ("" has length 0).
func checkEmpty(c *runner.Ctx, idx *int) {
	type op struct{ op, arg string }
	for ci, coll := range []string{"ARGS_GET", "ARGS_POST", "ARGS", "REQUEST_HEADERS", "REQUEST_COOKIES"} {
		place := []int{0, 1, 0, 2, 3}[ci]
		for _, key := range []string{"", "a"} {
			for _, tr := range [][]string{{"length"}, {"trim", "length"}, {"lowercase"}, nil} {
				for _, o := range []op{{"eq", "0"}, {"streq", "0"}, {"rx", "^0$"}, {"rx", "^$"}} {
					for _, neg := range []bool{false, true} {
						for _, multi := range []bool{false, true} {
							if multi && len(tr) == 0 {
								continue
							}
							*idx++
							if !c.Mine(*idx) || c.Expired() {
								continue
							}
							r := &sm.Rule{ID: 1, Phase: 2, Targets: []sm.Target{{Coll: coll, Key: key}}, Trans: tr, Op: o.op, Arg: o.arg, Neg: neg, Multi: multi}
							rules := []*sm.Rule{r}
							conf := sm.Config(rules)
							w, err := scen.Build(conf)
							if err != nil {
								c.Violation("build:"+firstLine(err.Error()), "generated configuration rejected: "+err.Error()+"\n"+conf, kase{Rules: rules})
								continue
							}
							vals := []string{"", "x", "  "}
							if place >= 2 {
								vals = []string{"", "x"} // header / cookie values are trimmed by their grammars
							}
							for _, v1 := range vals {
								for _, v2 := range append([]string{"-"}, vals...) {
									var q sm.Request
									ps := []sm.Pair{{N: "a", V: v1}}
									if v2 != "-" {
										ps = append(ps, sm.Pair{N: "b", V: v2})
									}
									switch place {
									case 0:
										q.Get = ps
									case 1:
										q.Post = ps
									case 2:
										q.Hdr = ps
									case 3:
										q.Cookie = ps
									}
									want, spec := sm.Eval(rules, q)
									if !spec {
										c.Count("skipped_unspecified", 1)
										continue
									}
									o := scen.Run(w, q.Scen(), scen.Options{})
									c.Count("evaluations", 1)
									got, exp := render(o), renderWant(want)
									if got != exp {
										c.Violation("empty-value:"+classify(rules, q, o, want), "configuration:\n"+conf+"request: "+fmt.Sprintf("%+v", q)+"\n--- engine:\n"+got+"--- reference model:\n"+exp, kase{Rules: rules, Req: q})
									}
									c.Outcome(got)
									b, _ := json.Marshal(kase{Rules: rules, Req: q})
									c.Distinct(string(b))
								}
							}
							scen.Close(w)
						}
					}
				}
			}
		}
	}
}

// checkMatchedVarsScope: MATCHED_VARS / MATCHED_VARS_NAMES hold the values matched by the links of the chain that is
// being evaluated. A rule that is not part of a chain therefore never finds anything in them - whatever an earlier
// rule matched, and in particular when an earlier chain matched its first links and then failed.
func checkMatchedVarsScope(c *runner.Ctx, idx *int) {
	for _, starterPhase := range []int{1, 2} {
		for _, readerPhase := range []int{1, 2} {
			if readerPhase < starterPhase {
				continue
			}
			for _, links := range []int{2, 3} {
				for _, failing := range []int{0, 1, 2} { // 0 = the chain completes
					if failing >= links {
						continue
					}
					*idx++
					if !c.Mine(*idx) || c.Expired() {
						continue
					}
					var sb strings.Builder
					sb.WriteString("SecRuleEngine On\nSecRequestBodyAccess On\n")
					fmt.Fprintf(&sb, "SecRule ARGS_GET \"@rx ^x\" \"id:1,phase:%d,pass,log,chain\"\n", starterPhase)
					for l := 1; l < links; l++ {
						op := "@rx ."
						if l == failing {
							op = "@rx ^never-there$"
						}
						last := "t:none"
						if l < links-1 {
							last = "chain"
						}
						fmt.Fprintf(&sb, "  SecRule ARGS_GET_NAMES \"%s\" \"%s\"\n", op, last)
					}
					fmt.Fprintf(&sb, "SecRule MATCHED_VARS|MATCHED_VARS_NAMES \"@rx .\" \"id:2,phase:%d,pass,log\"\n", readerPhase)
					fmt.Fprintf(&sb, "SecRule &MATCHED_VARS \"@eq 0\" \"id:3,phase:%d,pass,log\"\n", readerPhase)
					fmt.Fprintf(&sb, "SecRule &MATCHED_VARS_NAMES \"!@eq 0\" \"id:4,phase:%d,pass,log\"\n", readerPhase)
					conf := sb.String()
					w, err := scen.Build(conf)
					if err != nil {
						c.Violation("build:"+firstLine(err.Error()), "generated configuration rejected: "+err.Error()+"\n"+conf, kase{})
						continue
					}
					for _, uri := range []string{"/p?a=x", "/p?a=x&b=x2", "/p?a=y", "/p?a=x&a=x3&c=y"} {
						o := scen.Run(w, scen.Req{URI: uri}, scen.Options{})
						c.Count("evaluations", 1)
						matchesStarter := strings.Contains(uri, "=x")
						want := map[int]bool{1: matchesStarter && failing == 0, 2: false, 3: true, 4: false}
						got := map[int]bool{}
						for _, m := range o.Matched {
							got[m.ID] = true
						}
						c.Outcome(fmt.Sprint(got))
						c.Distinct(fmt.Sprintf("mvscope:%d:%d:%d:%d:%s", starterPhase, readerPhase, links, failing, uri))
						for id := 1; id <= 4; id++ {
							if got[id] != want[id] {
								c.Violation("matched-vars-outlive-their-rule", fmt.Sprintf("configuration:\n%srequest %s: rule %d fired=%v, want %v (MATCHED_VARS of an earlier rule must not be visible to a later one)\n%s", conf, uri, id, got[id], want[id], render(o)), map[string]any{"mvscope": true, "conf": conf, "uri": uri})
								break
							}
						}
					}
					scen.Close(w)
				}
			}
		}
	}
}

func clip(s string) string {
	if len(s) > 1500 {
		return s[:700] + "\n...[" + strconv.Itoa(len(s)) + " bytes]...\n" + s[len(s)-700:]
	}
	return s
}

func checkProgram(c *runner.Ctx, rules []*sm.Rule, pl []int) {
	defer c.Watch("program", kase{Rules: rules}, 3*time.Minute)()
	conf := sm.Config(rules)
	w, err := scen.Build(conf)
	if err != nil {
		c.Violation("build:"+firstLine(err.Error()), "generated configuration rejected: "+err.Error()+"\n"+conf, kase{Rules: rules})
		return
	}
	defer scen.Close(w)
	bound := 0
	if c.Thorough() {
		bound = 1
	}
	// Where the documentation leaves the expected selection open (e.g. the letter case of regex keys) the model gives
	// no expectation. One law holds regardless: for a single rule without counting targets, whether a value is selected
	// and matched does not depend on which other values the request carries. The match data of a two-value request is
	// the union of the match data of its two one-value requests (engine against engine, no expectation involved).
	additive := len(rules) == 1 && rules[0].Chain == nil
	for _, t := range rules[0].Targets {
		additive = additive && !t.Count
	}
	alone := map[string][]string{} // one-value request -> match data of rule 1 on the engine
	pairKey := func(place string, p sm.Pair) string { return place + "\x00" + p.N + "\x00" + p.V }
	items := func(q sm.Request) []string {
		var ks []string
		for _, p := range q.Get {
			ks = append(ks, pairKey("get", p))
		}
		for _, p := range q.Post {
			ks = append(ks, pairKey("post", p))
		}
		for _, p := range q.Hdr {
			ks = append(ks, pairKey("hdr", p))
		}
		for _, p := range q.Cookie {
			ks = append(ks, pairKey("cookie", p))
		}
		for _, p := range q.RespHdr {
			ks = append(ks, pairKey("resphdr", p))
		}
		return ks
	}
	datasOf := func(o *probe.Outcome) []string {
		var ds []string
		for _, m := range o.Matched {
			ds = append(ds, m.Datas...)
		}
		sort.Strings(ds)
		return ds
	}
	genRequests(c.Thorough(), pl, func(q sm.Request) {
		want, spec := sm.Eval(rules, q)
		if !spec {
			c.Count("skipped_unspecified", 1)
			if !additive {
				return
			}
			its := items(q)
			if len(its) < 1 || len(its) > 2 {
				return
			}
			o := scen.Run(w, q.Scen(), scen.Options{})
			c.Count("evaluations", 1)
			c.Count("additivity_checks", 1)
			ds := datasOf(o)
			if len(its) == 1 {
				alone[its[0]] = ds
				return
			}
			a, okA := alone[its[0]]
			b, okB := alone[its[1]]
			if !okA || !okB {
				return
			}
			union := append(append([]string{}, a...), b...)
			sort.Strings(union)
			if fmt.Sprint(union) != fmt.Sprint(ds) {
				c.Violation("selection-of-a-value-depends-on-the-other-values", "configuration:\n"+conf+"request: "+fmt.Sprintf("%+v", q)+fmt.Sprintf("\nmatch data with both values: %q\nmatch data of each value alone: %q and %q", ds, a, b), kase{Rules: rules, Req: q})
			}
			return
		}
		single := ""
		if additive {
			if its := items(q); len(its) == 1 {
				single = its[0]
			}
		}
		rq := q.Scen()
		st := mc.Explore(mc.Options{Bound: bound, MaxExecs: 200}, func(cx *mc.Ctx) {
			o := scen.Run(w, rq, scen.Options{})
			c.Count("evaluations", 1)
			if single != "" {
				alone[single] = datasOf(o)
			}
			got := render(o)
			exp := renderWant(want)
			if got != exp {
				k := kase{Rules: rules, Req: q, Order: cx.Choices()}
				c.Violation(classify(rules, q, o, want), "configuration:\n"+conf+"request: "+fmt.Sprintf("%+v", q)+"\n--- engine:\n"+got+"--- reference model:\n"+exp, k)
			}
			c.Outcome(got)
		})
		if st.Capped {
			c.Incomplete("order exploration cap")
		}
		if nonTrivial(rules, q) {
			b, _ := json.Marshal(kase{Rules: rules, Req: q})
			c.Distinct(string(b))
			if c.WantSample() && len(want) > 0 {
				c.Sample(map[string]any{"config": conf, "request": q, "fired": want})
			}
		}
	})
}

func nonTrivial(rules []*sm.Rule, q sm.Request) bool {
	for _, r := range rules {
		for l := r; l != nil; l = l.Chain {
			nc := *l
			nc.Targets = nil
			for _, t := range l.Targets {
				t.Count = false
				nc.Targets = append(nc.Targets, t)
			}
			if s, ok := sm.Select(&nc, q, 5); ok && len(s) > 0 {
				return true
			}
		}
	}
	return false
}

func render(o *probe.Outcome) string {
	var sb strings.Builder
	if o.Panic != "" {
		fmt.Fprintf(&sb, "PANIC %s\n", o.Panic)
	}
	for _, m := range o.Matched {
		ds := make([]string, len(m.Datas))
		for i, d := range m.Datas {
			ds[i] = normCount(d)
		}
		sort.Strings(ds)
		fmt.Fprintf(&sb, "rule %d %q\n", m.ID, ds)
	}
	return sb.String()
}

// normCount lower-cases the key of a count item ("&X:k" reports the selector).
func normCount(d string) string { return d }

func renderWant(fs []sm.Fired) string {
	var sb strings.Builder
	for _, f := range fs {
		fmt.Fprintf(&sb, "rule %d %q\n", f.ID, f.Datas)
	}
	return sb.String()
}

func firstLine(s string) string {
	if i := strings.IndexByte(s, '\n'); i >= 0 {
		return s[:i]
	}
	return s
}

func hasUpper(s string) bool { return strings.ToLower(s) != s }

// classify names the root cause by the narrowest feature of the program that
// explains the mismatch.
func classify(rules []*sm.Rule, q sm.Request, o *probe.Outcome, want []sm.Fired) string {
	if o.Panic != "" {
		return "panic:" + o.Panic
	}
	for _, r := range rules {
		for l := r; l != nil; l = l.Chain {
			for _, t := range l.Targets {
				if t.Rx != "" && hasUpper(t.Rx) && strings.HasPrefix(t.Coll, "ARGS") {
					return "args-regex-key-with-uppercase-selects-nothing"
				}
				if t.Key != "" && hasUpper(t.Key) && strings.HasSuffix(t.Coll, "_NAMES") && strings.HasPrefix(t.Coll, "ARGS") {
					return "args-names-string-key-with-uppercase-selects-nothing"
				}
			}
		}
	}
	b, _ := json.Marshal(rules)
	return "unclassified:" + string(b)
}

func replay(raw json.RawMessage) (bool, string) {
	var mv struct {
		MV   bool   `json:"mvscope"`
		Conf string `json:"conf"`
		URI  string `json:"uri"`
	}
	if err := json.Unmarshal(raw, &mv); err == nil && mv.MV {
		w, err := scen.Build(mv.Conf)
		if err != nil {
			return true, "build: " + err.Error()
		}
		defer scen.Close(w)
		o := scen.Run(w, scen.Req{URI: mv.URI}, scen.Options{})
		got := map[int]bool{}
		for _, m := range o.Matched {
			got[m.ID] = true
		}
		// rule 2 reads MATCHED_VARS outside any chain: it must never fire; rule 3 (&MATCHED_VARS @eq 0) always does
		return got[2] || !got[3] || got[4], fmt.Sprintf("configuration:\n%srequest %s\n%s", mv.Conf, mv.URI, render(o))
	}
	var k kase
	if err := json.Unmarshal(raw, &k); err != nil {
		return false, err.Error()
	}
	conf := sm.Config(k.Rules)
	w, err := scen.Build(conf)
	if err != nil {
		return true, "build: " + err.Error()
	}
	defer scen.Close(w)
	want, spec := sm.Eval(k.Rules, k.Req)
	if !spec {
		// no expectation from the model: the additivity law (see checkProgram)
		datas := func(q sm.Request) []string {
			var ds []string
			for _, m := range scen.Run(w, q.Scen(), scen.Options{}).Matched {
				ds = append(ds, m.Datas...)
			}
			sort.Strings(ds)
			return ds
		}
		var union []string
		parts := 0
		one := func(q sm.Request) { union = append(union, datas(q)...); parts++ }
		for _, p := range k.Req.Get {
			one(sm.Request{Get: []sm.Pair{p}, Resp: k.Req.Resp})
		}
		for _, p := range k.Req.Post {
			one(sm.Request{Post: []sm.Pair{p}, Resp: k.Req.Resp})
		}
		for _, p := range k.Req.Hdr {
			one(sm.Request{Hdr: []sm.Pair{p}, Resp: k.Req.Resp})
		}
		for _, p := range k.Req.Cookie {
			one(sm.Request{Cookie: []sm.Pair{p}, Resp: k.Req.Resp})
		}
		for _, p := range k.Req.RespHdr {
			one(sm.Request{RespHdr: []sm.Pair{p}, Resp: true})
		}
		sort.Strings(union)
		both := datas(k.Req)
		return parts == 2 && fmt.Sprint(both) != fmt.Sprint(union), fmt.Sprintf("configuration:\n%srequest: %+v\nmatch data with all values: %q\nunion of the match data of each value alone: %q\n", conf, k.Req, both, union)
	}
	var got string
	mc.Replay(k.Order, func(cx *mc.Ctx) { got = render(scen.Run(w, k.Req.Scen(), scen.Options{})) })
	exp := renderWant(want)
	return spec && got != exp, fmt.Sprintf("configuration:\n%srequest: %+v\n--- engine:\n%s--- reference model (specified=%v):\n%s", conf, k.Req, got, spec, exp)
}
