package vrt

import (
	"runtime"
	"strings"
)

// Locks taken under the controlled scheduler and not released yet. Only the
// thread that is running touches the list (the scheduler runs one thread at a
// time), hence the norace accessors.
type heldLock struct {
	p  uintptr
	pc uintptr
}

var held []heldLock

// NoteLock records that the lock at address p was taken by the caller's caller.
//
//go:norace
func NoteLock(p uintptr) {
	var pcs [1]uintptr
	runtime.Callers(3, pcs[:])
	held = append(held, heldLock{p, pcs[0]})
}

// NoteUnlock forgets the most recent acquisition of the lock at address p.
//
//go:norace
func NoteUnlock(p uintptr) {
	for i := len(held) - 1; i >= 0; i-- {
		if held[i].p == p {
			held = append(held[:i], held[i+1:]...)
			return
		}
	}
}

// ResetHeldLocks empties the list (start of a controlled execution).
//
//go:norace
func ResetHeldLocks() { held = held[:0] }

// HeldLocks names the functions that took the locks still held.
//
//go:norace
func HeldLocks() []string {
	var out []string
	for _, h := range held {
		fn := "?"
		if f := runtime.FuncForPC(h.pc - 1); f != nil {
			fn = f.Name()
			fn = fn[strings.LastIndex(fn, "/")+1:]
		}
		out = append(out, fn)
	}
	return out
}
