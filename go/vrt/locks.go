package vrt

import (
	"runtime"
	"strings"
)

// Locks taken under the controlled scheduler and not released yet. Only the
// thread that is running touches the table (the scheduler runs one thread at a
// time). The accessors are norace AND use nothing but plain indexed loads and
// stores on a fixed array: append / copy go through runtime.slicecopy, which
// reports to the race detector on behalf of its caller even when the caller is
// norace (a false report met in the first version of this file).
type heldLock struct {
	p  uintptr
	pc uintptr
}

const maxHeld = 512

var (
	held     [maxHeld]heldLock
	nHeld    int
	heldLost bool // more than maxHeld locks held at once: tracking abandoned for this execution
)

// NoteLock records that the lock at address p was taken by the caller's caller.
//
//go:norace
func NoteLock(p uintptr) {
	if nHeld >= maxHeld {
		heldLost = true
		return
	}
	var pcs [1]uintptr
	runtime.Callers(3, pcs[:])
	held[nHeld].p = p
	held[nHeld].pc = pcs[0]
	nHeld++
}

// NoteUnlock forgets the most recent acquisition of the lock at address p.
//
//go:norace
func NoteUnlock(p uintptr) {
	for i := nHeld - 1; i >= 0; i-- {
		if held[i].p == p {
			for j := i; j < nHeld-1; j++ {
				held[j].p = held[j+1].p
				held[j].pc = held[j+1].pc
			}
			nHeld--
			return
		}
	}
}

// ResetHeldLocks empties the table (start of a controlled execution).
//
//go:norace
func ResetHeldLocks() { nHeld = 0; heldLost = false }

// HeldLocks names the functions that took the locks still held.
//
//go:norace
func HeldLocks() []string {
	if heldLost {
		return nil
	}
	var out []string
	for i := 0; i < nHeld; i++ {
		out = append(out, funcName(held[i].pc))
	}
	return out
}

func funcName(pc uintptr) string {
	fn := "?"
	if f := runtime.FuncForPC(pc - 1); f != nil {
		fn = f.Name()
		fn = fn[strings.LastIndex(fn, "/")+1:]
	}
	return fn
}
