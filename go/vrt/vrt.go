// Package vrt is the runtime the instrumented coraza sources call into.
// It must not import any coraza package.
package vrt

import (
	"fmt"
	"iter"
	"sort"
)

// Kind classifies a choice point.
type Kind uint8

const (
	Input Kind = iota // free: part of the scenario space
	Env               // environment answer: any answer != 0 is one deviation
	Sched             // scheduling decision: cost decided by the scheduler
)

func (k Kind) String() string { return [...]string{"input", "env", "sched"}[k] }

// Chooser is implemented by the explorer.
type Chooser interface {
	Choose(n int, kind Kind, label string) int
}

// Active is the chooser of the execution in progress (nil = free run: every
// choice answers 0 and map ranges use the sorted order).
var Active Chooser

// MapOrderOff disables map-order choices (sorted order is used) while true.
var MapOrderOff bool

// MapSiteFilter, when non-nil, restricts map-order choices to sites for which it returns true.
var MapSiteFilter func(site string) bool

// MapRangeCount counts MapRange calls that offered a real choice (>=2 keys) in this process.
var MapRangeCount int

// Choose asks the active chooser; 0 without one.
func Choose(n int, kind Kind, label string) int {
	if n <= 1 || Active == nil {
		return 0
	}
	return Active.Choose(n, kind, label)
}

// MapRange iterates m in an order owned by the explorer: keys are snapshotted
// and sorted canonically, then at each step the explorer picks which of the
// remaining keys comes next (choice 0 everywhere = sorted order).
// Keys deleted during iteration are skipped, like the runtime does; keys added
// during iteration are not visited (the runtime may or may not visit them).
func MapRange[M ~map[K]V, K comparable, V any](m M, site string) iter.Seq2[K, V] {
	return func(yield func(K, V) bool) {
		if len(m) == 0 {
			return
		}
		keys := make([]K, 0, len(m))
		for k := range m {
			keys = append(keys, k)
		}
		sortKeys(keys)
		choose := wantChoice(site, len(keys))
		for len(keys) > 0 {
			i := 0
			if choose && len(keys) > 1 {
				i = Active.Choose(len(keys), Env, site)
			}
			k := keys[i]
			keys = append(keys[:i], keys[i+1:]...)
			v, ok := m[k]
			if !ok {
				continue
			}
			if !yield(k, v) {
				return
			}
		}
	}
}

// wantChoice reads the harness-owned switches. It is //go:norace because the
// harness toggles them around observations made from controlled threads whose
// hand-off is invisible to the race detector.
//
//go:norace
func wantChoice(site string, n int) bool {
	if Active == nil || MapOrderOff || n <= 1 {
		return false
	}
	if MapSiteFilter != nil && !MapSiteFilter(site) {
		return false
	}
	MapRangeCount++
	return true
}

// SetMapOrderOff sets MapOrderOff and returns the previous value.
//
//go:norace
func SetMapOrderOff(b bool) bool {
	old := MapOrderOff
	MapOrderOff = b
	return old
}

func sortKeys[K comparable](keys []K) {
	if len(keys) < 2 {
		return
	}
	switch ks := any(keys).(type) {
	case []string:
		sort.Strings(ks)
		return
	case []int:
		sort.Ints(ks)
		return
	}
	strs := make([]string, len(keys))
	for i, k := range keys {
		strs[i] = fmt.Sprintf("%020v", any(k))
	}
	sort.Sort(&byStr[K]{keys, strs})
}

type byStr[K any] struct {
	keys []K
	strs []string
}

func (b *byStr[K]) Len() int           { return len(b.keys) }
func (b *byStr[K]) Less(i, j int) bool { return b.strs[i] < b.strs[j] }
func (b *byStr[K]) Swap(i, j int) {
	b.keys[i], b.keys[j] = b.keys[j], b.keys[i]
	b.strs[i], b.strs[j] = b.strs[j], b.strs[i]
}

// ---------------------------------------------------------------------------
// Scheduler hook (implemented by package sched). nil = free running.

// SchedHook is what the sync shims talk to.
type SchedHook interface {
	// Yield is a scheduling point before a non-blocking synchronisation operation.
	Yield(label string)
	// WaitUntil is a scheduling point before a potentially blocking operation:
	// the calling thread is enabled only while cond() is true. cond is
	// evaluated by whichever thread holds the turn.
	WaitUntil(label string, cond func() bool)
}

// Sched is the active scheduler.
var Scheduler SchedHook

// PoolMode controls the deterministic sync.Pool replacement.
//
//	0: never reuse (Get always calls New; Put drops)
//	1: always reuse (LIFO)
//	2: ask the explorer at every Get that could reuse
var PoolMode int

// FaultHook, when non-nil, is consulted by the os shim before every
// file-system operation; a non-nil error is returned to the caller instead of
// performing the operation. mode "short" on writes asks for a short write.
var FaultHook func(op, name string) (err error, short bool)
