// Package vos shadows the file-system operations of package os that coraza
// uses for body spill-over, upload storage and audit writing: one fault /
// log point per operation (vrt.FaultHook).
package vos

import (
	"io"
	"io/fs"
	"os"

	"github.com/corazawaf/coraza/v3/internal/verif/vrt"
)

// File shadows os.File.
type File struct{ *os.File }

var (
	Stdout = &File{os.Stdout}
	Stderr = &File{os.Stderr}
)

func fault(op, name string) (error, bool) {
	if h := vrt.FaultHook; h != nil {
		return h(op, name)
	}
	return nil, false
}

func wrap(f *os.File, err error) (*File, error) {
	if err != nil {
		return nil, err
	}
	return &File{f}, nil
}

func CreateTemp(dir, pattern string) (*File, error) {
	if err, _ := fault("create", dir+"/"+pattern); err != nil {
		return nil, err
	}
	return wrap(os.CreateTemp(dir, pattern))
}

func OpenFile(name string, flag int, perm fs.FileMode) (*File, error) {
	if err, _ := fault("open", name); err != nil {
		return nil, err
	}
	return wrap(os.OpenFile(name, flag, perm))
}

func Create(name string) (*File, error) {
	if err, _ := fault("create", name); err != nil {
		return nil, err
	}
	return wrap(os.Create(name))
}

func Open(name string) (*File, error) {
	if err, _ := fault("open", name); err != nil {
		return nil, err
	}
	return wrap(os.Open(name))
}

func NewFile(fd uintptr, name string) *File { return &File{os.NewFile(fd, name)} }

func Remove(name string) error {
	if err, _ := fault("remove", name); err != nil {
		return err
	}
	return os.Remove(name)
}

func WriteFile(name string, data []byte, perm fs.FileMode) error {
	if err, _ := fault("writefile", name); err != nil {
		return err
	}
	return os.WriteFile(name, data, perm)
}

func MkdirAll(path string, perm fs.FileMode) error {
	if err, _ := fault("mkdir", path); err != nil {
		return err
	}
	return os.MkdirAll(path, perm)
}

// Mkdir, Stat, Lstat, RemoveAll, Rename and ReadFile are not used by the library today; they are shimmed so that a
// change which starts using them stays under fault injection and (in internal/auditlog) under the scheduler.
func Mkdir(path string, perm fs.FileMode) error {
	if err, _ := fault("mkdir", path); err != nil {
		return err
	}
	return os.Mkdir(path, perm)
}

func Stat(name string) (fs.FileInfo, error) {
	if err, _ := fault("stat", name); err != nil {
		return nil, err
	}
	return os.Stat(name)
}

func Lstat(name string) (fs.FileInfo, error) {
	if err, _ := fault("stat", name); err != nil {
		return nil, err
	}
	return os.Lstat(name)
}

func RemoveAll(path string) error {
	if err, _ := fault("remove", path); err != nil {
		return err
	}
	return os.RemoveAll(path)
}

func Rename(oldpath, newpath string) error {
	if err, _ := fault("rename", oldpath); err != nil {
		return err
	}
	return os.Rename(oldpath, newpath)
}

func ReadFile(name string) ([]byte, error) {
	if err, _ := fault("read", name); err != nil {
		return nil, err
	}
	return os.ReadFile(name)
}

func (f *File) Write(b []byte) (int, error) {
	if err, short := fault("write", f.File.Name()); err != nil {
		if short && len(b) > 1 {
			n, _ := f.File.Write(b[:len(b)/2])
			return n, err
		}
		return 0, err
	}
	return f.File.Write(b)
}

func (f *File) WriteString(s string) (int, error) { return f.Write([]byte(s)) }

func (f *File) Read(b []byte) (int, error) {
	if err, _ := fault("read", f.File.Name()); err != nil {
		return 0, err
	}
	return f.File.Read(b)
}

func (f *File) ReadAt(b []byte, off int64) (int, error) {
	if err, _ := fault("readat", f.File.Name()); err != nil {
		return 0, err
	}
	return f.File.ReadAt(b, off)
}

func (f *File) Close() error {
	if err, _ := fault("close", f.File.Name()); err != nil {
		_ = f.File.Close()
		return err
	}
	return f.File.Close()
}

func (f *File) Sync() error {
	if err, _ := fault("sync", f.File.Name()); err != nil {
		return err
	}
	return f.File.Sync()
}

// ReadFrom keeps io.Copy on the shimmed Write path.
func (f *File) ReadFrom(r io.Reader) (int64, error) {
	buf := make([]byte, 32*1024)
	var total int64
	for {
		n, rerr := r.Read(buf)
		if n > 0 {
			w, werr := f.Write(buf[:n])
			total += int64(w)
			if werr != nil {
				return total, werr
			}
			if w < n {
				return total, io.ErrShortWrite
			}
		}
		if rerr == io.EOF {
			return total, nil
		}
		if rerr != nil {
			return total, rerr
		}
	}
}
