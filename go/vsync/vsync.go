// Package vsync shadows the sync primitives coraza uses. Every operation is a
// scheduling point for vrt.Scheduler; the real primitive is still executed
// underneath so that the race detector sees the true happens-before edges.
// Model state is only touched inside //go:norace functions.
package vsync

import (
	"sync"
	"unsafe"

	"github.com/corazawaf/coraza/v3/internal/verif/vrt"
)

// Mutex shadows sync.Mutex.
type Mutex struct {
	mu   sync.Mutex
	held bool
}

//go:norace
func (m *Mutex) isFree() bool { return !m.held }

//go:norace
func (m *Mutex) setHeld(b bool) { m.held = b }

func (m *Mutex) Lock() {
	if s := vrt.Scheduler; s != nil {
		s.WaitUntil("Mutex.Lock", m.isFree)
		m.setHeld(true)
		vrt.NoteLock(uintptr(unsafe.Pointer(m)))
	}
	m.mu.Lock()
}

func (m *Mutex) TryLock() bool {
	if s := vrt.Scheduler; s != nil {
		s.Yield("Mutex.TryLock")
		if !m.isFree() {
			return false
		}
		m.setHeld(true)
		vrt.NoteLock(uintptr(unsafe.Pointer(m)))
	}
	return m.mu.TryLock()
}

func (m *Mutex) Unlock() {
	if s := vrt.Scheduler; s != nil {
		s.Yield("Mutex.Unlock")
		m.setHeld(false)
		vrt.NoteUnlock(uintptr(unsafe.Pointer(m)))
	}
	m.mu.Unlock()
}

// RWMutex shadows sync.RWMutex.
type RWMutex struct {
	mu      sync.RWMutex
	writer  bool
	readers int
}

//go:norace
func (m *RWMutex) canW() bool { return !m.writer && m.readers == 0 }

//go:norace
func (m *RWMutex) canR() bool { return !m.writer }

//go:norace
func (m *RWMutex) set(w bool, dr int) { m.writer = w; m.readers += dr }

//go:norace
func (m *RWMutex) addR(dr int) { m.readers += dr }

func (m *RWMutex) Lock() {
	if s := vrt.Scheduler; s != nil {
		s.WaitUntil("RWMutex.Lock", m.canW)
		m.set(true, 0)
		vrt.NoteLock(uintptr(unsafe.Pointer(m)))
	}
	m.mu.Lock()
}

func (m *RWMutex) Unlock() {
	if s := vrt.Scheduler; s != nil {
		s.Yield("RWMutex.Unlock")
		m.set(false, 0)
		vrt.NoteUnlock(uintptr(unsafe.Pointer(m)))
	}
	m.mu.Unlock()
}

func (m *RWMutex) RLock() {
	if s := vrt.Scheduler; s != nil {
		s.WaitUntil("RWMutex.RLock", m.canR)
		m.addR(1)
		vrt.NoteLock(uintptr(unsafe.Pointer(m)))
	}
	m.mu.RLock()
}

func (m *RWMutex) RUnlock() {
	if s := vrt.Scheduler; s != nil {
		s.Yield("RWMutex.RUnlock")
		m.addR(-1)
		vrt.NoteUnlock(uintptr(unsafe.Pointer(m)))
	}
	m.mu.RUnlock()
}

// Once shadows sync.Once.
type Once struct {
	once    sync.Once
	running bool
	done    bool
}

//go:norace
func (o *Once) notRunning() bool { return !o.running }

//go:norace
func (o *Once) st(running, done bool) { o.running, o.done = running, done }

//go:norace
func (o *Once) isDone() bool { return o.done }

func (o *Once) Do(f func()) {
	if s := vrt.Scheduler; s != nil {
		s.WaitUntil("Once.Do", o.notRunning)
		if o.isDone() {
			o.once.Do(f) // no-op, keeps the happens-before edge
			return
		}
		o.st(true, false)
		defer o.st(false, true)
	}
	o.once.Do(f)
}

// WaitGroup shadows sync.WaitGroup.
type WaitGroup struct {
	wg sync.WaitGroup
	n  int
}

//go:norace
func (w *WaitGroup) add(d int) { w.n += d }

//go:norace
func (w *WaitGroup) zero() bool { return w.n <= 0 }

func (w *WaitGroup) Add(d int) {
	if s := vrt.Scheduler; s != nil {
		s.Yield("WaitGroup.Add")
		w.add(d)
	}
	w.wg.Add(d)
}
func (w *WaitGroup) Done() { w.Add(-1) }
func (w *WaitGroup) Wait() {
	if s := vrt.Scheduler; s != nil {
		s.WaitUntil("WaitGroup.Wait", w.zero)
	}
	w.wg.Wait()
}
func (w *WaitGroup) Go(f func()) {
	w.Add(1)
	go func() { defer w.Done(); f() }()
}

// Map shadows sync.Map.
type Map struct{ m sync.Map }

func y(l string) {
	if s := vrt.Scheduler; s != nil {
		s.Yield(l)
	}
}

func (m *Map) Load(k any) (any, bool)           { y("Map.Load"); return m.m.Load(k) }
func (m *Map) Store(k, v any)                   { y("Map.Store"); m.m.Store(k, v) }
func (m *Map) LoadOrStore(k, v any) (any, bool) { y("Map.LoadOrStore"); return m.m.LoadOrStore(k, v) }
func (m *Map) LoadAndDelete(k any) (any, bool)  { y("Map.LoadAndDelete"); return m.m.LoadAndDelete(k) }
func (m *Map) Delete(k any)                     { y("Map.Delete"); m.m.Delete(k) }
func (m *Map) Swap(k, v any) (any, bool)        { y("Map.Swap"); return m.m.Swap(k, v) }
func (m *Map) CompareAndSwap(k, o, n any) bool {
	y("Map.CompareAndSwap")
	return m.m.CompareAndSwap(k, o, n)
}
func (m *Map) CompareAndDelete(k, o any) bool {
	y("Map.CompareAndDelete")
	return m.m.CompareAndDelete(k, o)
}
func (m *Map) Clear() { y("Map.Clear"); m.m.Clear() }
func (m *Map) Range(f func(k, v any) bool) {
	y("Map.Range")
	m.m.Range(func(k, v any) bool {
		y("Map.Range.next")
		return f(k, v)
	})
}

// Pool is a deterministic replacement of sync.Pool (see vrt.PoolMode).
type Pool struct {
	New   func() any
	mu    sync.Mutex
	items []any
}

func (p *Pool) Get() any {
	y("Pool.Get")
	p.mu.Lock()
	var x any
	if n := len(p.items); n > 0 && vrt.PoolMode != 0 {
		reuse := true
		if vrt.PoolMode == 2 {
			reuse = vrt.Choose(2, vrt.Env, "Pool.Get reuse/fresh") == 0
		}
		if reuse {
			x = p.items[n-1]
			p.items = p.items[:n-1]
		}
	}
	p.mu.Unlock()
	if x == nil && p.New != nil {
		x = p.New()
	}
	return x
}

func (p *Pool) Put(x any) {
	y("Pool.Put")
	if vrt.PoolMode == 0 {
		return
	}
	p.mu.Lock()
	p.items = append(p.items, x)
	p.mu.Unlock()
}

// Len reports how many objects are pooled (harness use).
func (p *Pool) Len() int { p.mu.Lock(); defer p.mu.Unlock(); return len(p.items) }
