// Package c05 decides C05: transactions are isolated from earlier
// transactions on the same WAF (DESIGN.md §3 C05).
package c05

import (
	"encoding/json"
	"fmt"
	"io"
	"os"
	"sort"
	"strings"
	"time"

	coraza "github.com/corazawaf/coraza/v3"
	"github.com/corazawaf/coraza/v3/internal/verif/auditcap"
	"github.com/corazawaf/coraza/v3/internal/verif/probe"
	"github.com/corazawaf/coraza/v3/internal/verif/runner"
	"github.com/corazawaf/coraza/v3/internal/verif/scen"
	"github.com/corazawaf/coraza/v3/internal/verif/vrt"
	"github.com/corazawaf/coraza/v3/types"
)

func init() {
	runner.Register(&runner.Check{
		ID:    "C05",
		Level: "model_checking",
		Rule: "history = predecessor transaction (subset of <=1 quick / <=2 thorough behaviour flags out of " + fmt.Sprint(len(flags)) + ": match, deny in phase 1-4, capture, setvar, 13 ctl options, skip / skipAfter pending at a phase end, three allow scopes, body spilled to disk, multipart upload, JSON body) " +
			"x abandonment point (stop after any of 10 API calls) x ProcessLogging or not x Close once or twice, followed by a probe transaction (3 probes) on the forcibly recycled object (deterministic pool shim, reuse forced); " +
			"oracle: the probe's full observable outcome (calls, interruption, matched rules, every variable collection, body readers, audit record) equals the same probe on a brand-new WAF with a brand-new object; readers obtained before Close yield nothing afterwards; after a double Close two simultaneously open transactions are distinct objects. " +
			"states = distinct (predecessor observable end state) reached, transitions = API calls executed on the real code",
		Assumptions: []string{
			"sync.Pool is replaced by a deterministic LIFO so that the probe really receives the predecessor's object (the runtime would only sometimes do that)",
			"ENV, time, duration and unique-id variables are masked (process-global or clock-derived by documentation)",
		},
		Run:    run,
		Replay: replay,
	})
}

// flags of the rich configuration: a request carrying `X-F: <flag>` switches the behaviour on.
var flags = []string{
	"match", "deny1", "deny2", "deny3", "deny4", "capture", "setvar",
	"ctlengineoff", "ctlenginedet", "ctlauditoff", "ctlauditparts", "ctlreqbodyoff", "ctlreqlimit", "ctlforcebody", "ctlprocjson", "ctlprocxml", "ctlrespbodyoff",
	"ctlremoveid", "ctlremovetag", "ctlremovetarget", "ctlremovetargettag", "ctlresplimit", "ctlrespproc",
	"skip3", "skipafter", "allow", "allowrequest", "allowphase", "skip3p2", "skipafterp3",
	"bigbody", "multipart", "jsonbody", "auditrule",
	"ctlremovetag,rmid902",                        // ctl:ruleRemoveByTag (the very action the last probe executes) followed by ctl:ruleRemoveById of a rule without that tag
	"engonpermit", "engonpermitreq", "engonblock", // ctl:ruleEngine=On followed by allow / allow:request / deny (matters on a WAF configured DetectionOnly)
}

func rule(phase int, id int, flag, actions string) string {
	return fmt.Sprintf("SecRule REQUEST_HEADERS:X-F \"@contains %s\" \"id:%d,phase:%d,%s\"\n", flag, id, phase, actions)
}

// variant 2: the WAF is configured DetectionOnly (the engine's own resets then run in that mode), audit engine On.
// variant 0: SecAuditEngine On; variant 1: RelevantOnly without a status pattern (a record is written only
// when a fired rule marked the transaction for auditing, so a mark left behind by a predecessor is visible)
var variant int

func conf(work string) string {
	var sb strings.Builder
	if variant == 2 {
		sb.WriteString("SecRuleEngine DetectionOnly\n")
	} else {
		sb.WriteString("SecRuleEngine On\n")
	}
	sb.WriteString("SecRequestBodyAccess On\nSecResponseBodyAccess On\nSecResponseBodyMimeType text/plain application/json\n")
	sb.WriteString("SecRequestBodyLimit 64\nSecRequestBodyInMemoryLimit 8\nSecResponseBodyLimit 64\n")
	// exactly as many arguments as the probes carry: anything a recycled object still counts pushes them over the limit
	sb.WriteString("SecArgumentsLimit 2\n")
	fmt.Fprintf(&sb, "SecTmpDir %s\nSecUploadDir %s\nSecUploadKeepFiles Off\n", work, work)
	if variant == 1 {
		sb.WriteString("SecAuditEngine RelevantOnly\n")
	} else {
		sb.WriteString("SecAuditEngine On\n")
	}
	sb.WriteString("SecAuditLogType verifcap\nSecAuditLog /dev/null\nSecAuditLogParts ABCFHKZ\n")
	// ---- phase 1
	sb.WriteString(rule(1, 101, "match", "pass,log,severity:2,msg:'m1'"))
	sb.WriteString(rule(1, 102, "deny1", "deny,status:403,log"))
	sb.WriteString("SecRule REQUEST_HEADERS:X-F \"@rx (cap)(ture)\" \"id:103,phase:1,pass,nolog,capture\"\n")
	sb.WriteString(rule(1, 104, "setvar", "pass,nolog,setvar:tx.leak=1,setvar:tx.score=+5"))
	sb.WriteString(rule(1, 105, "ctlengineoff", "pass,nolog,ctl:ruleEngine=Off"))
	sb.WriteString(rule(1, 106, "ctlenginedet", "pass,nolog,ctl:ruleEngine=DetectionOnly"))
	sb.WriteString(rule(1, 107, "ctlauditoff", "pass,nolog,ctl:auditEngine=Off"))
	sb.WriteString(rule(1, 108, "ctlauditparts", "pass,nolog,ctl:auditLogParts=-B"))
	sb.WriteString(rule(1, 109, "ctlreqbodyoff", "pass,nolog,ctl:requestBodyAccess=Off"))
	sb.WriteString(rule(1, 110, "ctlreqlimit", "pass,nolog,ctl:requestBodyLimit=3"))
	sb.WriteString(rule(1, 111, "ctlforcebody", "pass,nolog,ctl:forceRequestBodyVariable=On"))
	sb.WriteString(rule(1, 112, "ctlprocjson", "pass,nolog,ctl:requestBodyProcessor=JSON"))
	sb.WriteString(rule(1, 113, "ctlprocxml", "pass,nolog,ctl:requestBodyProcessor=XML"))
	sb.WriteString(rule(1, 114, "ctlrespbodyoff", "pass,nolog,ctl:responseBodyAccess=Off"))
	sb.WriteString(rule(1, 115, "ctlremoveid", "pass,nolog,ctl:ruleRemoveById=900"))
	sb.WriteString(rule(1, 116, "ctlremovetag", "pass,nolog,ctl:ruleRemoveByTag=always"))
	sb.WriteString(rule(1, 117, "ctlremovetarget", "pass,nolog,ctl:ruleRemoveTargetById=901;ARGS:a"))
	sb.WriteString(rule(1, 118, "ctlremovetargettag", "pass,nolog,ctl:ruleRemoveTargetByTag=always;ARGS:a"))
	sb.WriteString(rule(1, 119, "allowrequest", "allow:request,nolog"))
	sb.WriteString(rule(1, 120, "allowphase", "allow:phase,nolog"))
	sb.WriteString(rule(1, 121, "allow,", "allow,nolog"))
	sb.WriteString(rule(1, 122, "auditrule", "pass,nolog,auditlog,msg:'a1'"))
	sb.WriteString(rule(1, 130, "rmid902", "pass,nolog,ctl:ruleRemoveById=902"))
	sb.WriteString(rule(1, 123, "engonpermit,", "pass,nolog,ctl:ruleEngine=On"))
	sb.WriteString(rule(1, 124, "engonpermit,", "allow,nolog"))
	sb.WriteString(rule(1, 125, "engonpermitreq", "pass,nolog,ctl:ruleEngine=On"))
	sb.WriteString(rule(1, 126, "engonpermitreq", "allow:request,nolog"))
	sb.WriteString(rule(1, 127, "engonblock", "pass,nolog,ctl:ruleEngine=On"))
	sb.WriteString(rule(1, 128, "engonblock", "deny,status:403,log"))
	// derived variables are read in both request phases of every transaction, so that whatever they cache is exercised
	sb.WriteString("SecRule ARGS_COMBINED_SIZE|FILES_COMBINED_SIZE|QUERY_STRING|REQUEST_LINE|REQUEST_BASENAME|REQUEST_FILENAME|REQUEST_URI_RAW|&ARGS|&ARGS_NAMES|&REQUEST_HEADERS \"@rx .\" \"id:131,phase:1,pass,log,msg:'derived p1'\"\n")
	sb.WriteString(rule(1, 198, "skip3,", "pass,nolog,skip:3"))
	sb.WriteString(rule(1, 199, "skipafter,", "pass,nolog,skipAfter:ABSENT_MARKER"))
	// ---- phase 2
	sb.WriteString("SecRule ARGS \"@rx .\" \"id:900,phase:2,pass,log,severity:5,tag:always,msg:'args %{HIGHEST_SEVERITY}'\"\n")
	sb.WriteString("SecRule ARGS:a|ARGS:b \"@rx .\" \"id:901,phase:2,pass,log,tag:always,msg:'ab'\"\n")
	sb.WriteString("SecRule REQUEST_BODY \"@rx .\" \"id:902,phase:2,pass,log,msg:'body'\"\n")
	sb.WriteString("SecRule FILES \"@rx .\" \"id:903,phase:2,pass,log,msg:'files'\"\n")
	sb.WriteString("SecRule TX:leak|TX:score|TX:1 \"@rx .\" \"id:904,phase:2,pass,log,msg:'tx residue'\"\n")
	sb.WriteString("SecRule ARGS_COMBINED_SIZE|FILES_COMBINED_SIZE|REQBODY_PROCESSOR|&ARGS|&ARGS_POST|&FILES|&ARGS_NAMES \"@rx .\" \"id:905,phase:2,pass,log,msg:'derived p2'\"\n")
	sb.WriteString(rule(2, 202, "deny2", "deny,status:403,log"))
	sb.WriteString(rule(2, 298, "skip3p2", "pass,nolog,skip:3"))
	// ---- phase 3
	sb.WriteString("SecRule RESPONSE_HEADERS:X-R \"@rx .\" \"id:910,phase:3,pass,log,msg:'rh'\"\n")
	sb.WriteString(rule(3, 301, "ctlresplimit", "pass,nolog,ctl:responseBodyLimit=3"))
	sb.WriteString(rule(3, 302, "ctlrespproc", "pass,nolog,ctl:responseBodyProcessor=JSON"))
	sb.WriteString(rule(3, 303, "deny3", "deny,status:403,log"))
	sb.WriteString(rule(3, 399, "skipafterp3", "pass,nolog,skipAfter:ABSENT_MARKER"))
	// ---- phase 4
	sb.WriteString("SecRule RESPONSE_BODY \"@rx .\" \"id:920,phase:4,pass,log,msg:'rb'\"\n")
	sb.WriteString(rule(4, 401, "deny4", "deny,status:403,log"))
	// ---- phase 5
	sb.WriteString("SecAction \"id:950,phase:5,pass,nolog,noauditlog,msg:'logging'\"\n")
	return sb.String()
}

type pred struct {
	Flags   []string `json:"flags"`
	Stop    int      `json:"stop_after"` // number of API calls of the canonical sequence performed (0..10)
	Logging bool     `json:"logging"`
	Closes  int      `json:"closes"`
}

type kase struct {
	Pred    pred `json:"predecessor"`
	Probe   int  `json:"probe"`
	Variant int  `json:"audit_variant,omitempty"`
}

const multipartBody = "--B\r\nContent-Disposition: form-data; name=\"f\"; filename=\"x.txt\"\r\nContent-Type: text/plain\r\n\r\nfiledata\r\n--B\r\nContent-Disposition: form-data; name=\"a\"\r\n\r\nmp\r\n--B--\r\n"

// runPred performs the predecessor. Returns the request body reader obtained before Close.
func runPred(w coraza.WAF, p pred, calls *int) (types.Transaction, func() string) {
	tx := w.NewTransaction()
	fl := strings.Join(p.Flags, ",") + ","
	has := func(f string) bool { return strings.Contains(fl, f+",") }
	body, ct := "a=pa&zz=pz&pad=0123456789", "application/x-www-form-urlencoded"
	switch {
	case has("multipart"):
		body, ct = multipartBody, "multipart/form-data; boundary=B"
	case has("jsonbody"), has("ctlprocjson"):
		body, ct = `{"a":"ja","n":{"b":"jb"}}`, "application/json"
	case has("ctlprocxml"):
		body, ct = `<r a="xa">xt</r>`, "text/xml"
	case has("bigbody"):
		body = "a=pa&big=" + strings.Repeat("y", 40)
	}
	respBody, respCT := "predecessor response", "text/plain"
	if has("ctlrespproc") {
		respBody, respCT = `{"ra":"rv"`, "application/json" // malformed on purpose
	}
	step := 0
	do := func(f func()) bool {
		if step >= p.Stop {
			return false
		}
		step++
		*calls++
		f()
		return true
	}
	var reader func() string
	func() {
		if !do(func() { tx.ProcessConnection("10.9.9.9", 999, "10.8.8.8", 88) }) {
			return
		}
		if !do(func() { tx.ProcessURI("/pred?a=qa&p=qp", "POST", "HTTP/1.0") }) {
			return
		}
		if !do(func() {
			tx.AddRequestHeader("X-F", fl)
			tx.AddRequestHeader("Content-Type", ct)
			tx.AddRequestHeader("Cookie", "pc=1")
			tx.AddRequestHeader("X-Pred", "1")
		}) {
			return
		}
		if !do(func() { tx.ProcessRequestHeaders() }) {
			return
		}
		// two chunks: the first stays in memory, the second crosses the in-memory limit (spill after a prefix)
		if !do(func() {
			_, _, _ = tx.WriteRequestBody([]byte(body[:4]))
			_, _, _ = tx.WriteRequestBody([]byte(body[4:]))
		}) {
			return
		}
		if r, err := tx.RequestBodyReader(); err == nil {
			// several handles (the probe itself takes readers, inside the body phase and for its own read-back: a stale
			// handle must stay silent whichever of them the recycled buffer hands out next)
			rs := []io.Reader{r}
			for i := 0; i < 4; i++ {
				if r2, err := tx.RequestBodyReader(); err == nil {
					rs = append(rs, r2)
				}
			}
			reader = func() string {
				for _, r := range rs {
					if s := probe.ReadAll(r, nil); s != `""` {
						return s
					}
				}
				return `""`
			}
		}
		if !do(func() { _, _ = tx.ProcessRequestBody() }) {
			return
		}
		if !do(func() {
			tx.AddResponseHeader("Content-Type", respCT)
			tx.AddResponseHeader("X-R", "pred")
		}) {
			return
		}
		if !do(func() { tx.ProcessResponseHeaders(201, "HTTP/1.0") }) {
			return
		}
		if !do(func() { _, _, _ = tx.WriteResponseBody([]byte(respBody)) }) {
			return
		}
		do(func() { _, _ = tx.ProcessResponseBody() })
	}()
	if p.Logging {
		*calls++
		tx.ProcessLogging()
	}
	return tx, reader
}

var probes = []scen.Req{
	{URI: "/probe?a=1&c=3"},
	{URI: "/probe?b=2", Headers: [][2]string{scen.Form(), {"X-F", "match,capture,"}}, Body: "a=2&b=3"},
	{URI: "/probe", Status: 200, RespHeaders: [][2]string{{"Content-Type", "text/plain"}, {"X-R", "1"}}, RespBody: "probe response"},
	{URI: "/quiet"}, // fires no rule that logs or audits
	// executes a by-tag exclusion itself: what a predecessor added to "the rules with that tag" must not come along
	{URI: "/probe?b=7", Headers: [][2]string{scen.Form(), {"X-F", "ctlremovetag"}}, Body: "a=8"},
}

// runProbe returns the full canonical outcome of probe i on w.
func runProbe(w coraza.WAF, i int, beforeClose ...func()) string {
	auditcap.Take()
	var sb strings.Builder
	var tx types.Transaction
	o := &probe.Outcome{}
	o.Panic = probe.Safe(func() {
		tx = w.NewTransaction()
		scen.Drive(tx, probes[i], o)
		o.Interruption = probe.Itr(tx.Interruption())
		o.Matched = probe.Matches(tx)
		o.Vars = probe.Vars(tx, nil)
		// the probe takes its own body reader and, before reading it, the hooks run (a reader of the closed predecessor
		// must stay silent also when the recycled buffer has just handed out a reader again)
		rr, rerr := tx.RequestBodyReader()
		for _, f := range beforeClose {
			f()
		}
		fmt.Fprintf(&sb, "reqbody=%s respbody=%s\n", probe.ReadAll(rr, rerr), probe.ReadAll(tx.ResponseBodyReader()))
		fmt.Fprintf(&sb, "flags: off=%v reqacc=%v respacc=%v processable=%v\n", tx.IsRuleEngineOff(), tx.IsRequestBodyAccessible(), tx.IsResponseBodyAccessible(), tx.IsResponseBodyProcessable())
	})
	for _, f := range beforeClose {
		f()
	}
	if tx != nil {
		if p := probe.Safe(func() { _ = tx.Close() }); p != "" {
			fmt.Fprintf(&sb, "CLOSE PANIC %s\n", p)
		}
	}
	fmt.Fprintf(&sb, "panic=%q calls=%v itr=%s\n", o.Panic, o.Calls, o.Interruption)
	for _, m := range o.Matched {
		fmt.Fprintf(&sb, "rule %d %q msg=%q\n", m.ID, m.Datas, m.Msg)
	}
	names := make([]string, 0, len(o.Vars))
	for n := range o.Vars {
		names = append(names, n)
	}
	sort.Strings(names)
	for _, n := range names {
		fmt.Fprintf(&sb, "%s=%q\n", n, o.Vars[n])
	}
	for _, r := range auditcap.Take() {
		fmt.Fprintf(&sb, "audit: %s\n", r)
	}
	return sb.String()
}

func build(c *runner.Ctx) (coraza.WAF, error) { return scen.Build(conf(c.Work)) }

func preds(thorough bool, emit func(p pred)) {
	var sets [][]string
	sets = append(sets, nil)
	for _, f := range flags {
		sets = append(sets, []string{f})
	}
	if thorough {
		for i, f := range flags {
			for _, g := range flags[i+1:] {
				sets = append(sets, []string{f, g})
			}
		}
	}
	for _, s := range sets {
		for stop := 0; stop <= 10; stop++ {
			if len(s) == 2 && stop != 4 && stop != 5 && stop != 6 && stop != 8 && stop != 10 {
				continue
			}
			for _, logging := range []bool{false, true} {
				for closes := 1; closes <= 2; closes++ {
					if len(s) == 2 && (closes == 2 || !logging && stop == 10) {
						continue
					}
					emit(pred{Flags: s, Stop: stop, Logging: logging, Closes: closes})
				}
			}
		}
	}
}

// diffLines returns the lines that differ between two outcomes (bounded).
func diffLines(got, want string) string {
	g, w := strings.Split(got, "\n"), strings.Split(want, "\n")
	gs, ws := map[string]bool{}, map[string]bool{}
	for _, l := range g {
		gs[l] = true
	}
	for _, l := range w {
		ws[l] = true
	}
	var sb strings.Builder
	n := 0
	for _, l := range g {
		if !ws[l] && n < 8 {
			fmt.Fprintf(&sb, "  recycled: %s\n", l)
			n++
		}
	}
	for _, l := range w {
		if !gs[l] && n < 16 {
			fmt.Fprintf(&sb, "  fresh:    %s\n", l)
			n++
		}
	}
	return sb.String()
}

// firstDiffKey names the first differing observation (the part before '=' / ':').
func firstDiffKey(got, want string) string {
	w := map[string]bool{}
	for _, l := range strings.Split(want, "\n") {
		w[l] = true
	}
	for _, l := range strings.Split(got, "\n") {
		if !w[l] {
			if i := strings.IndexAny(l, "=:"); i > 0 {
				return l[:i]
			}
			return l
		}
	}
	g := map[string]bool{}
	for _, l := range strings.Split(got, "\n") {
		g[l] = true
	}
	for _, l := range strings.Split(want, "\n") {
		if !g[l] {
			if i := strings.IndexAny(l, "=:"); i > 0 {
				return "missing " + l[:i]
			}
			return "missing " + l
		}
	}
	return "?"
}

func checkCase(c *runner.Ctx, refs []string, p pred, report func(sig, text string, k kase)) {
	for pi := range probes {
		w, err := build(c)
		if err != nil {
			report("build:"+err.Error(), err.Error(), kase{Pred: p, Probe: pi})
			return
		}
		calls := 0
		vrt.PoolMode = 1
		var got string
		var oldReader func() string
		pan := probe.Safe(func() {
			tx, rd := runPred(w, p, &calls)
			oldReader = rd
			for i := 0; i < p.Closes; i++ {
				_ = tx.Close()
			}
			if rd != nil {
				if s := rd(); s != `""` {
					report("reader-of-closed-transaction-yields-data", fmt.Sprintf("a request body reader obtained before Close still yields %s after Close", s), kase{Pred: p, Probe: pi})
				}
			}
			if p.Closes == 2 {
				t1 := w.NewTransaction()
				t2 := w.NewTransaction()
				if t1 == t2 {
					report("double-close-aliases-two-transactions", "after Close was called twice, two transactions opened at the same time are the same object", kase{Pred: p, Probe: pi})
				}
				_ = t2.Close()
				_ = t1.Close()
			}
			got = runProbe(w, pi, func() {
				// while the recycled object holds the probe's body, a reader of the closed predecessor must stay silent
				if oldReader != nil {
					if s := oldReader(); s != `""` {
						report("reader-of-closed-transaction-yields-data", fmt.Sprintf("a request body reader of the closed predecessor yields %s while the recycled object holds the probe's body", s), kase{Pred: p, Probe: pi})
					}
				}
			})
			if oldReader != nil {
				if s := oldReader(); s != `""` {
					report("reader-of-closed-transaction-yields-data", fmt.Sprintf("a request body reader of the closed predecessor yields %s while the recycled object serves the probe", s), kase{Pred: p, Probe: pi})
				}
			}
		})
		vrt.PoolMode = 0
		scen.Close(w)
		c.Count("transitions", int64(calls+12))
		c.Count("evaluations", 1)
		c.Count("traces_validated_against_impl", 1)
		if pan != "" {
			report("panic:"+pan, "panic: "+pan, kase{Pred: p, Probe: pi})
			continue
		}
		c.Outcome(got)
		if os.Getenv("C05_DEBUG") != "" {
			fmt.Printf("probe %d on recycled object:\n%s\n--- fresh:\n%s\n", pi, got, refs[pi])
		}
		if got != refs[pi] {
			report("probe-differs:"+firstDiffKey(got, refs[pi]), "probe outcome on the recycled object differs from the outcome on a brand-new WAF:\n"+diffLines(got, refs[pi]), kase{Pred: p, Probe: pi})
		}
	}
}

func references(c *runner.Ctx) ([]string, error) {
	vrt.PoolMode = 0
	refs := make([]string, len(probes))
	for i := range probes {
		w, err := build(c)
		if err != nil {
			return nil, err
		}
		refs[i] = runProbe(w, i)
		again := runProbe(w, i)
		scen.Close(w)
		if again != refs[i] {
			return nil, fmt.Errorf("reference probe %d is not reproducible:\n%s", i, diffLines(again, refs[i]))
		}
	}
	return refs, nil
}

// flagRule maps a flag to the id of the rule it must switch on.
var flagRule = map[string]int{"match": 101, "deny1": 102, "capture": 103, "setvar": 104, "ctlengineoff": 105, "ctlenginedet": 106, "ctlauditoff": 107, "ctlauditparts": 108,
	"ctlreqbodyoff": 109, "ctlreqlimit": 110, "ctlforcebody": 111, "ctlprocjson": 112, "ctlprocxml": 113, "ctlrespbodyoff": 114, "ctlremoveid": 115, "ctlremovetag": 116,
	"ctlremovetarget": 117, "ctlremovetargettag": 118, "allowrequest": 119, "allowphase": 120, "allow": 121, "auditrule": 122, "ctlremovetag,rmid902": 130, "engonpermit": 123, "engonpermitreq": 125, "engonblock": 127, "skip3": 198, "skipafter": 199,
	"deny2": 202, "skip3p2": 298, "ctlresplimit": 301, "ctlrespproc": 302, "deny3": 303, "skipafterp3": 399, "deny4": 401}

// selfTest makes sure every flag really switches its rule on (a harness whose
// predecessors do nothing would pass vacuously).
func selfTest(c *runner.Ctx) {
	w, err := build(c)
	if err != nil {
		panic("C05 self test: " + err.Error())
	}
	defer scen.Close(w)
	for _, f := range flags {
		id, ok := flagRule[f]
		if !ok {
			continue
		}
		calls := 0
		tx, _ := runPred(w, pred{Flags: []string{f}, Stop: 10, Logging: true, Closes: 1}, &calls)
		fired := false
		for _, m := range tx.MatchedRules() {
			if m.Rule().ID() == id {
				fired = true
			}
		}
		_ = tx.Close()
		if !fired {
			panic(fmt.Sprintf("C05 self test: flag %q did not trigger rule %d", f, id))
		}
	}
}

func run(c *runner.Ctx) {
	for variant = 0; variant <= 2; variant++ {
		runVariant(c)
	}
	variant = 0
}

func runVariant(c *runner.Ctx) {
	selfTest(c)
	refs, err := references(c)
	if err != nil {
		c.Violation("reference:"+err.Error(), err.Error(), nil)
		return
	}
	if c.Worker == 0 {
		c.Sample(map[string]any{"probe": probes[1], "fresh_outcome": refs[1]})
	}
	idx := 0
	states := map[string]bool{}
	preds(c.Thorough(), func(p pred) {
		idx++
		if !c.Mine(idx) || c.Expired() {
			return
		}
		stopWatch := c.Watch("predecessor-then-probe", kase{Pred: p, Variant: variant}, 2*time.Minute)
		defer stopWatch()
		checkCase(c, refs, p, func(sig, text string, k kase) {
			k.Variant = variant
			c.Violation(sig, fmt.Sprintf("audit variant %d; predecessor: flags=%v stop_after=%d logging=%v closes=%d; probe %d (%s)\n%s", variant, k.Pred.Flags, k.Pred.Stop, k.Pred.Logging, k.Pred.Closes, k.Probe, probes[k.Probe].URI, text), k)
		})
		b, _ := json.Marshal(p)
		c.Distinct(fmt.Sprintf("v%d%s", variant, b))
		states[string(b)] = true
		if c.WantSample() {
			c.Sample(map[string]any{"predecessor": p, "probes": len(probes)})
		}
	})
	c.Count("states", int64(len(states)))
}

func replay(raw json.RawMessage) (bool, string) {
	var k kase
	if err := json.Unmarshal(raw, &k); err != nil {
		return false, err.Error()
	}
	c := runner.NewCtxForReplay()
	c.Work = tmpWork()
	variant = k.Variant
	defer func() { variant = 0 }()
	refs, err := references(c)
	if err != nil {
		return true, err.Error()
	}
	var sb strings.Builder
	viol := false
	checkCase(c, refs, k.Pred, func(sig, text string, kk kase) {
		if kk.Probe != k.Probe {
			return
		}
		viol = true
		fmt.Fprintf(&sb, "VIOLATED %s\npredecessor: %+v probe %d\n%s\n", sig, kk.Pred, kk.Probe, text)
	})
	return viol, sb.String()
}
