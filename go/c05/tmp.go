package c05

import "os"

func tmpWork() string {
	d, err := os.MkdirTemp("", "c05-replay-")
	if err != nil {
		return os.TempDir()
	}
	return d
}
