// Package bfs is the explicit-state search over operation sequences
// (DESIGN.md §2.4): a state is the operation history that reaches it,
// successors are built by replaying the history on a fresh real object plus one
// more operation, and a canonical key computed from observations deduplicates.
package bfs

// Result of a search.
type Result struct {
	States      int  // distinct canonical states
	Transitions int  // operations applied to a reached state (each = one replay on the real code)
	Depth       int  // depth completed
	Capped      bool // MaxStates hit
}

// Search explores breadth first. step executes history h (indices into the
// operation alphabet) on a fresh system and returns the canonical key of the
// state reached; expand=false marks a terminal state. Invariants are checked
// inside step by the caller. The empty history is the initial state.
func Search(nOps, maxDepth, maxStates int, step func(h []int) (key string, expand bool)) Result {
	var res Result
	seen := map[string]struct{}{}
	k0, exp := step(nil)
	seen[k0] = struct{}{}
	res.States = 1
	frontier := [][]int{}
	if exp {
		frontier = append(frontier, nil)
	}
	for depth := 1; depth <= maxDepth && len(frontier) > 0; depth++ {
		var next [][]int
		for _, h := range frontier {
			for op := 0; op < nOps; op++ {
				nh := make([]int, len(h)+1)
				copy(nh, h)
				nh[len(h)] = op
				k, exp := step(nh)
				res.Transitions++
				if _, ok := seen[k]; ok {
					continue
				}
				if maxStates > 0 && res.States >= maxStates {
					res.Capped = true
					continue
				}
				seen[k] = struct{}{}
				res.States++
				if exp {
					next = append(next, nh)
				}
			}
		}
		frontier = next
		res.Depth = depth
	}
	return res
}
