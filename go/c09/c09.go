// Package c09 decides C09: non-disruptive actions run once per match and
// counters add up exactly (DESIGN.md §3 C09).
package c09

import (
	"encoding/json"
	"fmt"
	"regexp"
	"sort"
	"strconv"
	"strings"
	"time"

	"github.com/corazawaf/coraza/v3/internal/verif/probe"
	"github.com/corazawaf/coraza/v3/internal/verif/runner"
	"github.com/corazawaf/coraza/v3/internal/verif/scen"
)

func init() {
	runner.Register(&runner.Check{
		ID:    "C09",
		Level: "exploration",
		Rule: "program = SecAction initialising tx.t=2, then 1-2 (quick) / 1-3 (thorough) rules of phase 2, each = target {ARGS_GET, ARGS_GET:a, REQUEST_HEADERS:X-H} x operator `@rx ^(x)(.*)` x 1-2 actions from " +
			"{setvar:tx.s=+1, =+3, =-1, =5, =+%{tx.t}, tx.u=%{matched_var}, !tx.s, tx.s (flag), tx.n_%{matched_var_name}=+1, tx.%{matched_var}=+1 (key is one macro), capture+tx.c=%{tx.1}, msg with %{matched_var}} x severity x optional chain link with its own setvar x optional multiMatch+t:lowercase, " +
			"then a threshold rule `TX:s @gt 2 -> deny`; requests carry 0..3 matching values per rule (repeated names). " +
			"Oracle: an arithmetic reference model of the TX collection (actions once per matched value, in evaluation order; link actions per matched value of the link; starter's deny once per completed chain), HIGHEST_SEVERITY = min, per-match messages, threshold interruption. " +
			"distinct_nontrivial = distinct (program, request) in which some rule matched >= 2 values or a chain was completed",
		Assumptions: []string{
			"evaluation order inside a collection is the sorted-name order the harness fixes (map order is C04's subject); arithmetic on unset or non-numeric operands is not generated",
		},
		Run:    run,
		Replay: replay,
	})
}

type ruleT struct {
	Target   string   `json:"target"`
	Actions  []string `json:"actions"`
	Severity string   `json:"severity,omitempty"`
	Multi    bool     `json:"multi,omitempty"`
	MultiTr  []string `json:"multi_tr,omitempty"` // transformation list used with multiMatch (default: lowercase)
	NoLog    bool     `json:"nolog,omitempty"`    // a silent rule still fires: its actions run and its severity counts
	Link     *linkT   `json:"link,omitempty"`
}

type linkT struct {
	Target string `json:"target"`
	Action string `json:"action"`
}

type kase struct {
	Rules []ruleT `json:"rules"`
	Req   int     `json:"req"`
	// Phases: phase of rule i (non-decreasing; nil = every rule in phase 2). The initialising SecAction stands in the
	// first rule's phase, the threshold rule in the last one's. A phase >= 3 gives the exchange a response.
	Phases []int `json:"phases,omitempty"`
}

func phaseOf(phases []int, i int) int {
	if i < len(phases) {
		return phases[i]
	}
	return 2
}

func withResponse(q scen.Req, phases []int) scen.Req {
	for _, p := range phases {
		if p >= 3 {
			q.Status = 200
			q.RespHeaders = [][2]string{{"Content-Type", "text/plain"}}
		}
	}
	return q
}

type pair struct{ n, v string }

type reqT struct {
	get []pair
	hdr []pair
}

var requests = []reqT{
	{},
	{get: []pair{{"a", "x1"}}},
	{get: []pair{{"a", "x1"}, {"a", "x2"}, {"b", "x3"}}},
	{get: []pair{{"b", "y"}, {"a", "X1"}, {"A", "x2"}}, hdr: []pair{{"X-H", "x9"}}},
	{get: []pair{{"a", "y"}, {"b", "x1"}, {"b", "x1"}, {"c", "xx"}}, hdr: []pair{{"X-H", "x1"}, {"X-H", "X2"}}},
	{get: []pair{{"a", "xa"}, {"a", "xb"}, {"a", "xc"}}, hdr: []pair{{"X-H", "y"}}},
	wide(40, false),
	wide(33, true),
}

// wide: many matching values (counters must add up however many there are), under distinct names or under one name.
func wide(n int, oneName bool) reqT {
	var r reqT
	for i := 0; i < n; i++ {
		name := fmt.Sprintf("k%02d", i)
		if oneName {
			name = "a"
		}
		v := fmt.Sprintf("x%d", i)
		if i%7 == 6 {
			v = "y" // no match
		}
		r.get = append(r.get, pair{name, v})
	}
	for i := 0; i < 12; i++ {
		r.hdr = append(r.hdr, pair{"X-H", fmt.Sprintf("x%d", i)})
	}
	return r
}

func (r reqT) scen() scen.Req {
	var parts []string
	for _, p := range r.get {
		parts = append(parts, p.n+"="+p.v)
	}
	q := scen.Req{URI: "/p"}
	if len(parts) > 0 {
		q.URI += "?" + strings.Join(parts, "&")
	}
	for _, h := range r.hdr {
		q.Headers = append(q.Headers, [2]string{h.n, h.v})
	}
	return q
}

var actionMenu = [][]string{
	{"setvar:tx.s=+1"},
	{"setvar:tx.s=+3"},
	{"setvar:tx.s=-1"},
	{"setvar:tx.s=5"},
	{"setvar:tx.s=+%{tx.t}"},
	{"setvar:tx.u=%{matched_var}"},
	{"setvar:!tx.s"},
	{"setvar:tx.s"},
	{"setvar:tx.n_%{matched_var_name}=+1"},
	{"capture", "setvar:tx.c=%{tx.1}"},
	{"msg:'m %{matched_var}'"},
	{"setvar:tx.s=+1", "setvar:tx.s=+%{tx.s}"}, // s is set by the first action before it is read
	{"setvar:tx.s=+1", "setvar:tx.t=+1"},
	{"setvar:tx.u=%{tx.t}", "setvar:tx.t=+1", "setvar:tx.s=+1"},
	{"setvar:tx.neg=-3", "setvar:tx.s=+%{tx.neg}"}, // signed operand copied by a macro: s + (-3)
	{"setvar:tx.neg=-3", "setvar:tx.s=-%{tx.neg}"}, // s - (-3)
	{"setvar:tx.s=+%{tx.t}", "setvar:tx.s=-%{tx.t}", "setvar:tx.s=+1"},
	{"setvar:tx.s=+1", "setvar:!tx.s", "setvar:tx.s=+3"}, // set, delete, set again: per matched value
	{"setvar:tx.k=1", "setvar:!tx.k", "setvar:tx.k=2", "setvar:tx.s=+1"},
	{"setvar:tx.%{matched_var}=+1"},                              // the whole key is one macro
	{"setvar:tx.%{matched_var}=+1", "setvar:!tx.%{matched_var}"}, // ... also when deleting
	{"setvar:tx.s=+1", "setvar:tx.s=+1"},                           // the same action listed twice runs twice per matched value
	{"setvar:tx.s=+%{tx.t}", "setvar:tx.u=1", "setvar:tx.s=+%{tx.t}"},
}

var targets = []string{"ARGS_GET", "ARGS_GET:a", "REQUEST_HEADERS:X-H"}

func ruleMenu(thorough bool) []ruleT {
	var out []ruleT
	for _, t := range targets {
		for i, a := range actionMenu {
			sev := ""
			if i%3 == 1 {
				sev = "CRITICAL"
			} else if i%3 == 2 {
				sev = "NOTICE"
			}
			out = append(out, ruleT{Target: t, Actions: a, Severity: sev})
			if sev == "CRITICAL" {
				out = append(out, ruleT{Target: t, Actions: a, Severity: sev, NoLog: true})
			}
			if i < 5 || thorough {
				out = append(out, ruleT{Target: t, Actions: a, Multi: true})
			}
			if i < 2 {
				// pipelines that come back to an earlier value: each stage is still one evaluation
				out = append(out, ruleT{Target: t, Actions: a, Multi: true, MultiTr: []string{"uppercase", "lowercase"}})
				out = append(out, ruleT{Target: t, Actions: a, Multi: true, MultiTr: []string{"lowercase", "uppercase", "lowercase"}})
			}
			if i < 4 || thorough {
				out = append(out, ruleT{Target: t, Actions: a, Severity: sev, Link: &linkT{Target: "ARGS_GET:b", Action: "setvar:tx.l=+1"}})
			}
		}
	}
	// deny on the starter of a chain: once per completed chain only
	out = append(out, ruleT{Target: "ARGS_GET:a", Actions: []string{"setvar:tx.s=+1", "deny", "status:403"}, Link: &linkT{Target: "ARGS_GET:b", Action: "setvar:tx.l=+1"}})
	return out
}

func conf(rules []ruleT, phases ...int) string {
	var sb strings.Builder
	fmt.Fprintf(&sb, "SecRuleEngine On\nSecRequestBodyAccess On\nSecAction \"id:1,phase:%d,pass,nolog,setvar:tx.t=2\"\n", phaseOf(phases, 0))
	last := phaseOf(phases, len(rules)-1)
	for i, r := range rules {
		acts := []string{fmt.Sprintf("id:%d", (i+1)*10), fmt.Sprintf("phase:%d", phaseOf(phases, i)), "log"}
		if r.NoLog {
			acts[2] = "nolog"
		}
		hasDisruptive := false
		for _, a := range r.Actions {
			if a == "deny" {
				hasDisruptive = true
			}
		}
		if !hasDisruptive {
			acts = append(acts, "pass")
		}
		if r.Multi {
			acts = append(acts, "multiMatch")
			trs := r.MultiTr
			if trs == nil {
				trs = []string{"lowercase"}
			}
			for _, t := range trs {
				acts = append(acts, "t:"+t)
			}
		}
		if r.Severity != "" {
			acts = append(acts, "severity:'"+r.Severity+"'")
		}
		acts = append(acts, r.Actions...)
		if r.Link != nil {
			acts = append(acts, "chain")
		}
		fmt.Fprintf(&sb, "SecRule %s \"@rx ^(x)(.*)\" \"%s\"\n", r.Target, strings.Join(acts, ","))
		if r.Link != nil {
			fmt.Fprintf(&sb, "  SecRule %s \"@rx ^x\" \"%s\"\n", r.Link.Target, r.Link.Action)
		}
	}
	fmt.Fprintf(&sb, "SecRule TX \"@streq never-matches\" \"id:98,phase:%d,pass,nolog\"\n", last)
	fmt.Fprintf(&sb, "SecRule TX:s \"@gt 2\" \"id:99,phase:%d,log,deny,status:418\"\n", last)
	return sb.String()
}

// ---- reference model ------------------------------------------------------

type state struct {
	tx       map[string]string
	sev      int // 255 = unset
	mvar     string
	mvarName string
	itr      int
	fired    []string
}

type match struct{ varName, key, val string }

var rxOp = regexp.MustCompile(`(?s)^(x)(.*)`)

// selectValues returns the values of a target in the engine's (sorted-name) order.
func selectValues(target string, rq reqT) []match {
	var src []pair
	coll, key, _ := strings.Cut(target, ":")
	switch coll {
	case "ARGS_GET":
		src = rq.get
	case "REQUEST_HEADERS":
		src = rq.hdr
	}
	var out []match
	for _, p := range src {
		if key != "" && !strings.EqualFold(p.n, key) {
			continue
		}
		out = append(out, match{coll, p.n, p.v})
	}
	if coll == "ARGS_GET" {
		// the query string is parsed into a map and added in sorted order of the names as sent
		sort.SliceStable(out, func(i, j int) bool { return out[i].key < out[j].key })
	}
	// collections are visited in sorted order of the case-folded name (the harness fixes map order)
	sort.SliceStable(out, func(i, j int) bool { return strings.ToLower(out[i].key) < strings.ToLower(out[j].key) })
	return out
}

func (s *state) expand(m string) string {
	re := regexp.MustCompile(`%\{([^}]*)\}`)
	return re.ReplaceAllStringFunc(m, func(tok string) string {
		name := strings.ToLower(tok[2 : len(tok)-1])
		switch {
		case name == "matched_var":
			return s.mvar
		case name == "matched_var_name":
			return s.mvarName
		case strings.HasPrefix(name, "tx."):
			return s.tx[name[3:]]
		}
		return ""
	})
}

func (s *state) setvar(a string) {
	a = strings.TrimPrefix(a, "setvar:")
	if strings.HasPrefix(a, "!") {
		delete(s.tx, strings.ToLower(s.expand(strings.TrimPrefix(a, "!tx."))))
		return
	}
	k, v, has := strings.Cut(a, "=")
	k = strings.ToLower(s.expand(strings.TrimPrefix(k, "tx.")))
	if !has {
		s.tx[k] = "1"
		return
	}
	v = s.expand(v)
	switch {
	case strings.HasPrefix(v, "+"), strings.HasPrefix(v, "-"):
		d, _ := strconv.Atoi(v[1:])
		cur, _ := strconv.Atoi(s.tx[k])
		if v[0] == '+' {
			s.tx[k] = strconv.Itoa(cur + d)
		} else {
			s.tx[k] = strconv.Itoa(cur - d)
		}
	default:
		s.tx[k] = v
	}
}

var sevNum = map[string]int{"CRITICAL": 2, "NOTICE": 5}

// evalLink evaluates one rule or link: per matched value, MATCHED_VAR* are set
// and the non-disruptive actions run once. Returns the rendered match data.
func (s *state) evalLink(target string, multi []string, capture bool, actions []string, msgT string) []string {
	var out []string
	for _, m := range selectValues(target, rq(s)) {
		vals := []string{m.val}
		cur := m.val
		for _, t := range multi {
			nv := cur
			switch t {
			case "lowercase":
				nv = strings.ToLower(cur)
			case "uppercase":
				nv = strings.ToUpper(cur)
			}
			// every intermediate value that differs from its predecessor is evaluated (also one seen before)
			if nv != cur {
				vals = append(vals, nv)
				cur = nv
			}
		}
		for _, v := range vals {
			g := rxOp.FindStringSubmatch(v)
			if g == nil {
				continue
			}
			s.mvar = v
			s.mvarName = m.varName + ":" + m.key
			if capture {
				for i := 0; i < 10; i++ {
					if i < len(g) {
						s.tx[strconv.Itoa(i)] = g[i]
					}
				}
			}
			for _, a := range actions {
				if strings.HasPrefix(a, "setvar:") {
					s.setvar(a)
				}
			}
			msg := ""
			if msgT != "" {
				msg = s.expand(msgT)
			}
			out = append(out, fmt.Sprintf("%s|%s|%s|msg=%s", m.varName, m.key, v, msg))
		}
	}
	return out
}

// the request is threaded through the state to keep signatures short
var curReq reqT

func rq(*state) reqT { return curReq }

func model(rules []ruleT, r reqT) (tx map[string]string, sev int, itr int, fired []string) {
	curReq = r
	s := &state{tx: map[string]string{"t": "2"}, sev: 255}
	for i, rl := range rules {
		id := (i + 1) * 10
		capture, msgT, deny := false, "", false
		for _, a := range rl.Actions {
			switch {
			case a == "capture":
				capture = true
			case strings.HasPrefix(a, "msg:"):
				msgT = strings.Trim(strings.TrimPrefix(a, "msg:"), "'")
			case a == "deny":
				deny = true
			}
		}
		starterMsg := msgT
		if rl.Link != nil {
			starterMsg = "" // the starter's message is expanded after the chain completes
		}
		var multi []string
		if rl.Multi {
			multi = rl.MultiTr
			if multi == nil {
				multi = []string{"lowercase"}
			}
		}
		md := s.evalLink(rl.Target, multi, capture, rl.Actions, starterMsg)
		if len(md) == 0 {
			continue
		}
		if rl.Link != nil {
			lmd := s.evalLink(rl.Link.Target, nil, false, []string{rl.Link.Action}, "")
			if len(lmd) == 0 {
				continue
			}
			md = append(md, lmd...)
			if msgT != "" {
				// postponed expansion on the first match data
				parts := strings.SplitN(md[0], "|msg=", 2)
				md[0] = parts[0] + "|msg=" + s.expand(msgT)
			}
		}
		if n, ok := sevNum[rl.Severity]; ok && n < s.sev {
			s.sev = n
		}
		sort.Strings(md)
		s.fired = append(s.fired, fmt.Sprintf("rule %d %q", id, md))
		if deny {
			s.itr = id
			return s.tx, s.sev, s.itr, s.fired
		}
	}
	if n, _ := strconv.Atoi(s.tx["s"]); n > 2 {
		s.itr = 99
		s.fired = append(s.fired, fmt.Sprintf("rule 99 [\"TX|s|%s|msg=\"]", s.tx["s"]))
	}
	return s.tx, s.sev, s.itr, s.fired
}

func renderModel(rules []ruleT, r reqT) string {
	tx, sev, itr, fired := model(rules, r)
	var keys []string
	for k := range tx {
		keys = append(keys, k)
	}
	sort.Strings(keys)
	var sb strings.Builder
	for _, f := range fired {
		sb.WriteString(f + "\n")
	}
	sb.WriteString("TX:")
	var kv []string
	for _, k := range keys {
		if len(k) == 1 && k[0] >= '0' && k[0] <= '9' {
			continue
		}
		kv = append(kv, k+"="+tx[k])
	}
	sort.Strings(kv) // the engine side sorts the rendered entries, not the keys ("x10=1" < "x1=1")
	for _, e := range kv {
		sb.WriteString(" " + e)
	}
	fmt.Fprintf(&sb, "\nHIGHEST_SEVERITY=%d interrupted_by=%d\n", sev, itr)
	return sb.String()
}

func renderEngine(o *probe.Outcome) string {
	var sb strings.Builder
	if o.Panic != "" {
		fmt.Fprintf(&sb, "PANIC %s\n", o.Panic)
	}
	for _, m := range o.Matched {
		if m.ID == 1 {
			continue
		}
		var md []string
		for _, d := range m.DatasOrd {
			// VAR|key|value|msg=..|data=..|lvl=..
			i := strings.Index(d, "|data=")
			md = append(md, d[:i])
		}
		sort.Strings(md)
		fmt.Fprintf(&sb, "rule %d %q\n", m.ID, md)
	}
	sb.WriteString("TX:")
	var kv []string
	for _, e := range o.Vars["TX/TX"] {
		k, _, _ := strings.Cut(e, "=")
		if len(k) == 1 && k[0] >= '0' && k[0] <= '9' || k == "10" {
			continue
		}
		kv = append(kv, e)
	}
	sort.Strings(kv)
	for _, e := range kv {
		sb.WriteString(" " + e)
	}
	sev := 255
	if v := o.Vars["HighestSeverity/HIGHEST_SEVERITY"]; len(v) > 0 {
		fmt.Sscanf(v[0], "=%d", &sev)
	}
	itr := 0
	fmt.Sscanf(o.Interruption, "{rule=%d", &itr)
	fmt.Fprintf(&sb, "\nHIGHEST_SEVERITY=%d interrupted_by=%d\n", sev, itr)
	return sb.String()
}

func run(c *runner.Ctx) {
	menu := ruleMenu(c.Thorough())
	n := 2
	if c.Thorough() {
		n = 3
	}
	idx := 0
	reduced := map[string]bool{}
	for i, r := range menu {
		if i%4 == 0 {
			reduced[fmt.Sprint(r)] = true
		}
	}
	var rec func(cur []ruleT)
	rec = func(cur []ruleT) {
		if len(cur) > 0 {
			idx++
			if c.Mine(idx) && !c.Expired() {
				checkProgram(c, append([]ruleT{}, cur...))
			}
			// the same counters in the other phases and across phases ("in every phase"): every one-rule program in
			// phases 1, 3 and 4; programs of two rules of the reduced menu split over two phases
			var variants [][]int
			switch {
			case len(cur) == 1:
				variants = [][]int{{1}, {3}, {4}}
			case len(cur) == 2 && reduced[fmt.Sprint(cur[0])] && reduced[fmt.Sprint(cur[1])]:
				variants = [][]int{{1, 2}, {2, 4}, {3, 3}, {1, 1}}
			}
			for _, v := range variants {
				idx++
				if c.Mine(idx) && !c.Expired() {
					checkProgram(c, append([]ruleT{}, cur...), v...)
				}
			}
		}
		if len(cur) == n {
			return
		}
		m := menu
		if len(cur) == 2 {
			// third rule: reduced menu
			m = nil
			for i, r := range menu {
				if i%7 == 0 {
					m = append(m, r)
				}
			}
		}
		for _, r := range m {
			rec(append(cur, r))
		}
	}
	rec(nil)
}

func checkProgram(c *runner.Ctx, rules []ruleT, phases ...int) {
	defer c.Watch("program", kase{Rules: rules, Phases: phases}, 3*time.Minute)()
	cf := conf(rules, phases...)
	w, err := scen.Build(cf)
	if err != nil {
		c.Violation("build:"+err.Error(), "generated configuration rejected: "+err.Error()+"\n"+cf, kase{Rules: rules, Phases: phases})
		return
	}
	defer scen.Close(w)
	for ri, r := range requests {
		c.Count("evaluations", 1)
		if phases != nil {
			c.Count("evaluations_outside_phase_2", 1)
		}
		o := scen.Run(w, withResponse(r.scen(), phases), scen.Options{Vars: true})
		got, want := renderEngine(o), renderModel(rules, r)
		c.Outcome(got)
		if strings.Contains(want, "\" \"") || hasLink(rules) && strings.Contains(want, "rule ") {
			b, _ := json.Marshal(kase{rules, ri, phases})
			c.Distinct(string(b))
			if c.WantSample() {
				c.Sample(map[string]any{"config": cf, "request": r.scen(), "expected": want})
			}
		}
		if got != want {
			c.Violation(classify(rules, o), "configuration:\n"+cf+"request: "+r.scen().URI+fmt.Sprintf(" headers=%v", r.scen().Headers)+"\n--- engine:\n"+got+"--- reference model:\n"+want, kase{rules, ri, phases})
		}
	}
}

func hasLink(rules []ruleT) bool {
	for _, r := range rules {
		if r.Link != nil {
			return true
		}
	}
	return false
}

func classify(rules []ruleT, o *probe.Outcome) string {
	if o.Panic != "" {
		return "panic:" + o.Panic
	}
	seen := map[string]bool{}
	var feats []string
	for _, r := range rules {
		for _, a := range r.Actions {
			if !seen[a] {
				seen[a] = true
				feats = append(feats, a)
			}
		}
		if r.Multi && !seen["multi"] {
			seen["multi"] = true
			feats = append(feats, "multiMatch")
		}
		if r.Link != nil && !seen["chain"] {
			seen["chain"] = true
			feats = append(feats, "chain")
		}
	}
	sort.Strings(feats)
	return "unclassified:" + strings.Join(feats, ";")
}

func replay(raw json.RawMessage) (bool, string) {
	var k kase
	if err := json.Unmarshal(raw, &k); err != nil {
		return false, err.Error()
	}
	cf := conf(k.Rules, k.Phases...)
	w, err := scen.Build(cf)
	if err != nil {
		return true, "build: " + err.Error()
	}
	defer scen.Close(w)
	r := requests[k.Req]
	o := scen.Run(w, withResponse(r.scen(), k.Phases), scen.Options{Vars: true})
	got, want := renderEngine(o), renderModel(k.Rules, r)
	return got != want, fmt.Sprintf("configuration:\n%srequest: %s headers=%v\n--- engine:\n%s--- reference model:\n%s", cf, r.scen().URI, r.scen().Headers, got, want)
}
