package c15

import (
	"fmt"
	"sort"
	"strings"
	"unicode/utf8"
)

// phrases lists the phrases a @pm-family case denotes, by the documented
// syntax of each form.
func pmPhrases(cs *Case) (ph []string, skip string) {
	switch cs.Op {
	case "pm":
		arg := string(cs.Arg)
		if arg == "" {
			return nil, "@pm without phrases (undocumented)"
		}
		ph = strings.Split(arg, " ")
	case "pmFromFile", "pmf":
		if cs.File == nil {
			return nil, "phrase file missing from the scenario"
		}
		for _, l := range strings.Split(string(*cs.File), "\n") {
			if l == "" || l[0] == '#' {
				continue // documented: comments and empty lines are ignored
			}
			if strings.TrimSpace(l) != l {
				return nil, "phrase file line with surrounding white space (trimming undocumented)"
			}
			ph = append(ph, l)
		}
	case "pmFromDataset":
		for _, d := range cs.Dataset {
			ph = append(ph, string(d))
		}
	}
	if len(ph) == 0 {
		return nil, "empty phrase list (undocumented)"
	}
	for _, p := range ph {
		if p == "" {
			return nil, "empty phrase (undocumented)"
		}
	}
	return ph, ""
}

type occ struct{ start, end int }

// occurrences = every (start,end) at which some phrase equals the input
// under ASCII case folding (naive search).
func occurrences(ph []string, v string) []occ {
	var out []occ
	seen := map[occ]bool{}
	for _, p := range ph {
		for i := 0; i+len(p) <= len(v); i++ {
			if eqFold(v[i:i+len(p)], p) {
				o := occ{i, i + len(p)}
				if !seen[o] {
					seen[o] = true
					out = append(out, o)
				}
			}
		}
	}
	sort.Slice(out, func(i, j int) bool {
		if out[i].start != out[j].start {
			return out[i].start < out[j].start
		}
		return out[i].end < out[j].end
	})
	return out
}

func disjoint(os []occ) bool {
	for i := 1; i < len(os); i++ {
		if os[i].start < os[i-1].end {
			return false
		}
	}
	return true
}

func hasHigh(s string) bool {
	for i := 0; i < len(s); i++ {
		if s[i] >= 0x80 {
			return true
		}
	}
	return false
}

func pmSpec(cs *Case) *spec {
	sp := &spec{family: "pm"}
	ph, skip := pmPhrases(cs)
	if skip != "" {
		sp.skipUnit = skip
		return sp
	}
	sp.wantFn = func(in string, capture bool) *want { return pmWant(ph, in) }
	return sp
}

func pmWant(ph []string, in string) *want {
	occs := occurrences(ph, in)
	v := len(occs) > 0
	unamb := disjoint(occs)
	a := alt{name: "spec", verdict: v}
	a.caps = func(o *Obs) string {
		n := len(o.Caps)
		if n == 0 {
			return "match-without-any-capture"
		}
		if n > 10 {
			return "more-than-10-captures"
		}
		for i := 0; i < n; i++ {
			t, ok := o.Caps[i]
			if !ok {
				return "capture-indexes-not-contiguous-from-0"
			}
			found := false
			for _, oc := range occs {
				if in[oc.start:oc.end] == t {
					found = true
					break
				}
			}
			if !found {
				return "captured-text-is-not-a-matched-text"
			}
		}
		if unamb {
			exp := len(occs)
			if exp > 10 {
				exp = 10
			}
			if n < exp {
				return fmt.Sprintf("fewer-captures-than-hits:%d-of-%d", n, exp)
			}
			if n > exp {
				return "more-captures-than-hits"
			}
			for i := 0; i < n; i++ {
				if o.Caps[i] != in[occs[i].start:occs[i].end] {
					return "captures-out-of-order"
				}
			}
		}
		return ""
	}
	text := fmt.Sprintf("some phrase of %q occurs in %q ignoring ASCII case: %v", ph, in, v)
	if v {
		var ts []string
		for i, oc := range occs {
			if i == 12 {
				break
			}
			ts = append(ts, fmt.Sprintf("%q@%d", in[oc.start:oc.end], oc.start))
		}
		text += "; occurrences " + strings.Join(ts, " ")
		if unamb {
			text += " (disjoint: TX.0-9 must be the first 10 in order)"
		}
	}
	return &want{alts: []alt{a}, text: text, class: func(o *Obs, reason string) string {
		nonASCII := false
		for _, p := range ph {
			if hasHigh(p) {
				nonASCII = true
			}
		}
		if nonASCII {
			// is the whole observation what the phrases would give after Unicode
			// lower-casing (strings.ToLower) instead of ASCII folding?
			lp := make([]string, len(ph))
			same := true
			for i, p := range ph {
				lp[i] = strings.ToLower(p)
				same = same && lp[i] == foldASCII(p)
			}
			if !same {
				if ok, _ := acceptAlts(pmWant(lp, in).alts, o.Capture, o); ok {
					return "pm:non-ascii-phrase-is-unicode-lowercased"
				}
			}
		}
		if reason != "verdict" {
			// strip the counts so that one defect keeps one signature
			if i := strings.Index(reason, "fewer-captures-than-hits"); i >= 0 {
				reason = reason[:i] + "fewer-captures-than-hits"
				if len(occs) >= 10 {
					reason += ":at-the-10-capture-limit"
				}
			}
			return "pm:" + reason
		}
		na := ""
		if nonASCII {
			na = ":non-ascii-phrase"
		}
		if !v {
			return "pm:false-positive" + na
		}
		minL, maxL := len(ph[0]), len(ph[0])
		for _, p := range ph {
			if len(p) < minL {
				minL = len(p)
			}
			if len(p) > maxL {
				maxL = len(p)
			}
		}
		exact, atEndOnly := false, true
		for _, oc := range occs {
			for _, p := range ph {
				if in[oc.start:oc.end] == p {
					exact = true
				}
			}
			if oc.end != len(in) {
				atEndOnly = false
			}
		}
		switch {
		case hasHigh(in) && utf8.RuneCountInString(in) < minL && len(in) >= minL:
			return "pm:false-negative:input-with-fewer-characters-than-the-shortest-phrase-has-bytes"
		case len(in) < maxL:
			return "pm:false-negative:input-shorter-than-the-longest-phrase"
		case len(in) == minL:
			return "pm:false-negative:input-as-long-as-the-shortest-phrase"
		case !exact:
			return "pm:false-negative:match-needs-case-folding"
		case atEndOnly:
			return "pm:false-negative:phrase-at-the-very-end"
		}
		return "pm:false-negative" + na
	}}
}
