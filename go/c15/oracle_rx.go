package c15

import (
	"fmt"
	"regexp"
	"regexp/syntax"
	"strings"
	"unicode/utf8"
)

// @rx: RE2 semantics with dot matching newline, Go's regexp as trusted base.
//
// Readings that the documentation leaves open, and that are therefore all accepted:
//   * ^ and $ as text anchors, (?s), or line anchors, (?sm) (rx.go prepends (?sm) in the default build);
//   * for patterns with \xNN escapes >= 0x80 ("binary" patterns): \xNN as the byte NN
//     (matching over bytes) or as the code point U+00NN (plain RE2).
// Dot matching newline is demanded under every reading.

type rxReading struct {
	name  string
	re    *regexp.Regexp
	bytes bool // byte reading: input transcoded byte -> code point
}

// binaryPattern: the pattern uses a \xNN / \x{NN} escape with NN in 80..ff.
func binaryPattern(p string) bool {
	for i := 0; i+3 < len(p); i++ {
		if p[i] != '\\' {
			continue
		}
		if p[i+1] != 'x' {
			i++
			continue
		}
		h := p[i+2:]
		if h[0] == '{' {
			h = h[1:]
		}
		if len(h) >= 2 && strings.IndexByte("89abcdefABCDEF", h[0]) >= 0 && hexDigit(h[1]) {
			return true
		}
	}
	return false
}

// latin1 transcodes each byte to the code point of the same value.
func latin1(s string) string {
	ascii := true
	for i := 0; i < len(s); i++ {
		if s[i] >= 0x80 {
			ascii = false
			break
		}
	}
	if ascii {
		return s
	}
	var sb strings.Builder
	for i := 0; i < len(s); i++ {
		sb.WriteRune(rune(s[i]))
	}
	return sb.String()
}

func unlatin1(s string) string {
	b := make([]byte, 0, len(s))
	for _, r := range s {
		b = append(b, byte(r))
	}
	return string(b)
}

type rxExp struct {
	match bool
	n     int      // number of groups incl. group 0
	part  []bool   // group participated
	text  []string // its text
}

func (r *rxReading) run(in string) rxExp {
	src := in
	if r.bytes {
		src = latin1(in)
	}
	m := r.re.FindStringSubmatchIndex(src)
	if m == nil {
		return rxExp{}
	}
	e := rxExp{match: true, n: len(m) / 2}
	for i := 0; i < e.n; i++ {
		if m[2*i] < 0 {
			e.part = append(e.part, false)
			e.text = append(e.text, "")
			continue
		}
		t := src[m[2*i]:m[2*i+1]]
		if r.bytes {
			t = unlatin1(t)
		}
		e.part = append(e.part, true)
		e.text = append(e.text, t)
	}
	return e
}

// capsAgainst compares observed captures with a reading: TX.i = text of group
// i for i <= min(groups, 9); a group that did not take part is "" or absent.
func (e *rxExp) capsAgainst(o *Obs) string {
	last := e.n - 1
	if last > 9 {
		last = 9
	}
	for i := 0; i <= last; i++ {
		got, ok := o.Caps[i]
		switch {
		case e.part[i] && e.text[i] != "" && !ok:
			if i == 9 {
				return "group-9-not-stored"
			}
			return fmt.Sprintf("group-%d-not-stored", i)
		case e.part[i] && got != e.text[i]:
			return "group-text-differs"
		case !e.part[i] && got != "":
			return "absent-group-has-text"
		}
	}
	if o.Prefilled {
		return ""
	}
	for i := range o.Caps {
		if i > last {
			return "capture-index-beyond-the-groups"
		}
	}
	return ""
}

func rxSpec(cs *Case) *spec {
	sp := &spec{family: "rx"}
	pat := string(cs.Arg)
	if !utf8.ValidString(pat) {
		sp.skipUnit = "pattern text that is not UTF-8 (undocumented)"
		return sp
	}
	bin := binaryPattern(pat)
	var rd []rxReading
	var cerr error
	for _, fl := range []string{"(?s)", "(?sm)"} {
		re, err := regexp.Compile(fl + pat)
		if err != nil {
			cerr = err
			break
		}
		rd = append(rd, rxReading{name: "RE2 " + fl, re: re})
		if bin {
			rd = append(rd, rxReading{name: "RE2 over bytes " + fl, re: re, bytes: true})
		}
	}
	if cerr != nil {
		sp.skipUnit = "pattern Go's regexp rejects (no reference semantics): " + cerr.Error()
		return sp
	}
	// diagnosis only: the pattern without any flag
	plain, _ := regexp.Compile(pat)
	nullLoop := nullableLoop(pat)
	sp.wantFn = func(in string, capture bool) *want {
		w := &want{}
		exps := make([]rxExp, len(rd))
		var desc []string
		for i := range rd {
			exps[i] = rd[i].run(in)
			e := &exps[i]
			a := alt{name: rd[i].name, verdict: e.match}
			a.caps = e.capsAgainst
			w.alts = append(w.alts, a)
			d := fmt.Sprintf("%s: match=%v", rd[i].name, e.match)
			if e.match {
				d += fmt.Sprintf(" groups=%q", e.text)
			}
			desc = append(desc, d)
		}
		w.text = strings.Join(desc, "; ")
		w.class = func(o *Obs, reason string) string {
			if bin && plain != nil {
				// is the whole observation what the pattern gives when compiled
				// without any flag (dot not matching newline)?
				var pa []alt
				for _, bytes := range []bool{true, false} {
					e := (&rxReading{re: plain, bytes: bytes}).run(in)
					pa = append(pa, alt{verdict: e.match, caps: e.capsAgainst})
				}
				if ok, _ := acceptAlts(pa, o.Capture, o); ok {
					return "rx:binary-pattern-compiled-without-the-dotall-flag"
				}
			}
			if strings.HasPrefix(reason, "capture:") {
				r := strings.TrimPrefix(reason, "capture:")
				if bin && nullLoop && r != "group-9-not-stored" {
					return "rx:binary-pattern:loop-over-nullable-body-not-matched-like-RE2"
				}
				if r == "group-9-not-stored" {
					return "rx:capture:group-9-not-stored-in-TX.9"
				}
				return "rx:capture:" + r
			}
			// verdict accepted by no reading
			if plain != nil && plain.MatchString(in) == o.Res && strings.Contains(in, "\n") {
				return "rx:dot-does-not-match-newline"
			}
			return "rx:" + fnfp(exps[0].match)
		}
		return w
	}
	return sp
}

// nullableLoop: the pattern repeats (*, +, {n,}) a body that can match the
// empty string, the construct whose priority order Go's regexp corrected
// (golang/go#46123) after rsc.io/binaryregexp was forked from it.
func nullableLoop(pat string) bool {
	re, err := syntax.Parse(pat, syntax.Perl)
	if err != nil {
		return false
	}
	var nullable func(r *syntax.Regexp) bool
	nullable = func(r *syntax.Regexp) bool {
		switch r.Op {
		case syntax.OpEmptyMatch, syntax.OpBeginLine, syntax.OpEndLine, syntax.OpBeginText, syntax.OpEndText,
			syntax.OpWordBoundary, syntax.OpNoWordBoundary, syntax.OpStar, syntax.OpQuest:
			return true
		case syntax.OpLiteral:
			return len(r.Rune) == 0
		case syntax.OpCapture, syntax.OpPlus:
			return nullable(r.Sub[0])
		case syntax.OpRepeat:
			return r.Min == 0 || nullable(r.Sub[0])
		case syntax.OpConcat:
			for _, s := range r.Sub {
				if !nullable(s) {
					return false
				}
			}
			return true
		case syntax.OpAlternate:
			for _, s := range r.Sub {
				if nullable(s) {
					return true
				}
			}
		}
		return false
	}
	var walk func(r *syntax.Regexp) bool
	walk = func(r *syntax.Regexp) bool {
		switch r.Op {
		case syntax.OpStar, syntax.OpPlus, syntax.OpRepeat:
			if nullable(r.Sub[0]) {
				return true
			}
		}
		for _, s := range r.Sub {
			if walk(s) {
				return true
			}
		}
		return false
	}
	return walk(re)
}
