package c15

import (
	"fmt"
	"sort"
	"strings"

	"github.com/corazawaf/coraza/v3/experimental/plugins/plugintypes"
	"github.com/corazawaf/coraza/v3/internal/verif/runner"
)

// unit = one argument (in one or several equivalent forms) x a list of inputs.
type unit struct {
	cases  []Case   // equivalent forms of the same argument (one oracle)
	inputs []string // every input of the unit
	caps   []bool   // capture modes to run
	tag    string   // distinguishes units that share cases (input chunks)
}

type runState struct {
	c *runner.Ctx
	e *env
}

func run(c *runner.Ctx) {
	e := newEnv()
	defer e.close()
	r := &runState{c: c, e: e}
	idx := 0
	sizes := enumerate(c.Thorough(), func(u *unit) {
		idx++
		if !c.Mine(idx) || c.Expired() {
			return
		}
		r.runUnit(u)
	})
	c.Extra("spaces", sizes)
	c.Extra("units", idx)
}

type built struct {
	op   plugintypes.Operator
	berr string
	rw   *ruleWAF
}

func (r *runState) runUnit(u *unit) {
	c := r.c
	sp, err := specOf(&u.cases[0])
	if err != nil {
		c.Violation("check-bug:"+err.Error(), err.Error(), u.cases[0])
		return
	}
	bs := make([]built, len(u.cases))
	for i := range u.cases {
		cs := &u.cases[i]
		if cs.Mode == "rule" {
			bs[i].rw = r.e.buildRule(cs)
			defer bs[i].rw.close()
			if bs[i].rw.waf == nil && sp.skipUnit == "" {
				c.Violation("rule-mode:configuration-rejected:"+cs.Op, fmt.Sprintf("%s\n  configuration:\n%s\n  error: %s", cs.unitKey(), bs[i].rw.conf, bs[i].rw.err), *cs)
				return
			}
		} else {
			bs[i].op, bs[i].berr = r.e.build(cs)
		}
	}
	caps := u.caps
	if len(caps) == 0 {
		caps = []bool{true}
	}
	sawT := make([]bool, len(u.cases))
	sawF := make([]bool, len(u.cases))
	var evals, skipped int64
	type fail struct {
		form int
		what string
		cs   Case
	}
	failedSig := map[string]string{}
	for _, in := range u.inputs {
		var w *want
		if sp.skipUnit == "" {
			w = sp.wantFn(in, true)
		}
		for _, capOn := range caps {
			var fails map[string][]fail
			for fi := range u.cases {
				cs := u.cases[fi]
				cs.Input, cs.Capture = Q(in), capOn
				var o *Obs
				if cs.Mode == "rule" {
					if !capOn {
						continue // the rule pair always carries `capture`
					}
					o = bs[fi].rw.run(in)
				} else {
					o = r.e.eval(bs[fi].op, bs[fi].berr, &cs, in, capOn)
				}
				evals++
				skip, sig, what := judgeWith(&cs, sp, w, o)
				if skip != "" {
					skipped++
					continue
				}
				if o.Res {
					sawT[fi] = true
				} else {
					sawF[fi] = true
				}
				c.Outcome(fmt.Sprintf("%s:%s:%v:%d:%v", cs.Mode, cs.Op, o.Res, len(o.Caps), o.Neg))
				if sig != "" && sp.parts != nil {
					key := func(in string) string { return fmt.Sprint(fi, capOn, "|", in) }
					for _, part := range sp.parts(in) {
						if s, ok := failedSig[key(part)]; ok {
							sig = s
							break
						}
					}
					failedSig[key(in)] = sig
				}
				if sig != "" {
					if fails == nil {
						fails = map[string][]fail{}
					}
					fails[sig] = append(fails[sig], fail{fi, what, cs})
				} else if c.WantSample() && o.Res && (len(in) > 1 || len(u.inputs) < 3) {
					c.Sample(map[string]any{"case": cs, "observed": o.String(), "expected": w.text})
				}
			}
			for sig, fs := range fails {
				full := sig
				if len(u.cases) > 1 {
					var forms []string
					for _, f := range fs {
						forms = append(forms, u.cases[f.form].Op)
					}
					sort.Strings(forms)
					full += "[" + strings.Join(forms, ",") + "]"
				}
				for _, f := range fs {
					c.Violation(full, f.what, f.cs)
				}
			}
		}
	}
	c.Count("evaluations", evals)
	c.Count("evaluations_"+sp.family+"_"+u.cases[0].Mode, evals)
	c.Count("skipped_unspecified", skipped)
	for fi := range u.cases {
		if sawT[fi] && sawF[fi] {
			c.Distinct(u.cases[fi].unitKey() + u.tag)
		}
	}
}

// judgeWith is judge with the specification of the input already computed.
func judgeWith(cs *Case, sp *spec, w *want, o *Obs) (skip, sig, what string) {
	if sp.skipUnit != "" || w == nil {
		if o.Panic != "" {
			return "", "panic:" + cs.Op + ":" + frame(o.Panic), fmt.Sprintf("%s\n  panicked: %s", cs, o.Panic)
		}
		return sp.skipUnit, "", ""
	}
	if o.Panic != "" {
		return "", "panic:" + cs.Op + ":" + frame(o.Panic), fmt.Sprintf("%s\n  panicked: %s", cs, o.Panic)
	}
	if w.skip != "" {
		return w.skip, "", ""
	}
	if o.BuildErr != "" {
		return "", cs.Op + ":constructor-rejects-documented-argument", fmt.Sprintf("%s\n  the operator could not be built: %s\n  expected: %s", cs, o.BuildErr, w.text)
	}
	if o.Rule && o.Res == o.Neg {
		form := ""
		if cs.Form != "" {
			form = ":" + cs.Form + "-form"
		}
		return "", "negation:not-the-complement:" + cs.Op + form, fmt.Sprintf("%s\n  rule `@%s` fired=%v and rule `!@%s` fired=%v on the same input: `!` is not the complement", cs, cs.Op, o.Res, cs.Op, o.Neg)
	}
	ok, reason := w.accept(cs, o)
	if ok {
		return "", "", ""
	}
	cl := ""
	if w.class != nil {
		cl = w.class(o, reason)
	}
	if cl == "" {
		cl = "unclassified:" + cs.String()
	}
	return "", cl, fmt.Sprintf("%s\n  observed: %s\n  expected: %s\n  mismatch: %s", cs, o, w.text, reason)
}
