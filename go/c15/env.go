package c15

import (
	"fmt"
	"strconv"
	"strings"
	"testing/fstest"

	coraza "github.com/corazawaf/coraza/v3"
	"github.com/corazawaf/coraza/v3/collection"
	"github.com/corazawaf/coraza/v3/experimental/plugins/plugintypes"
	"github.com/corazawaf/coraza/v3/internal/operators"
	"github.com/corazawaf/coraza/v3/internal/verif/probe"
	"github.com/corazawaf/coraza/v3/internal/verif/scen"
	"github.com/corazawaf/coraza/v3/types"
)

// capTx is a real transaction whose capture interface is intercepted, so that
// every CaptureField call of an operator is seen exactly.
type capTx struct {
	plugintypes.TransactionState
	on   bool
	n    int
	idx  [24]int
	val  [24]string
	over bool
}

func (c *capTx) Capturing() bool { return c.on }

func (c *capTx) CaptureField(i int, v string) {
	if !c.on {
		return // the real transaction ignores the call as well
	}
	if c.n == len(c.idx) {
		c.over = true
		return
	}
	c.idx[c.n], c.val[c.n] = i, v
	c.n++
}

type env struct {
	waf coraza.WAF
	tx  types.Transaction
	txm collection.Map
	cap *capTx
	cur *Q // TX:k currently set
	set bool
}

func newEnv() *env {
	w, err := coraza.NewWAF(coraza.NewWAFConfig())
	if err != nil {
		panic(err)
	}
	tx := w.NewTransaction()
	ts := tx.(plugintypes.TransactionState)
	return &env{waf: w, tx: tx, txm: ts.Variables().TX(), cap: &capTx{TransactionState: ts}}
}

func (e *env) close() {
	_ = e.tx.Close()
	scen.Close(e.waf)
}

// setK makes TX:k hold v (nil = absent).
func (e *env) setK(v *Q) {
	if v == nil {
		if e.set {
			e.txm.Remove("k")
			e.set = false
		}
		return
	}
	e.txm.Set("k", []string{string(*v)})
	e.set = true
}

// options of the operator factory for a case.
func options(cs *Case) plugintypes.OperatorOptions {
	o := plugintypes.OperatorOptions{Arguments: string(cs.Arg)}
	if cs.File != nil {
		o.Root = fstest.MapFS{string(cs.Arg): {Data: []byte(*cs.File)}}
		o.Path = []string{"."}
	}
	if cs.Dataset != nil {
		ds := make([]string, len(cs.Dataset))
		for i, d := range cs.Dataset {
			ds[i] = string(d)
		}
		o.Datasets = map[string][]string{string(cs.Arg): ds}
	}
	return o
}

// build constructs the operator through the real factory.
func (e *env) build(cs *Case) (op plugintypes.Operator, berr string) {
	var err error
	if p := probe.Safe(func() { op, err = operators.Get(cs.Op, options(cs)) }); p != "" {
		return nil, "PANIC " + p
	}
	if err != nil {
		return nil, err.Error()
	}
	return op, ""
}

// eval evaluates op on one input.
func (e *env) eval(op plugintypes.Operator, berr string, cs *Case, input string, capture bool) *Obs {
	o := &Obs{Capture: capture}
	if berr != "" {
		if strings.HasPrefix(berr, "PANIC ") {
			o.Panic = strings.TrimPrefix(berr, "PANIC ")
		} else {
			o.BuildErr = berr
		}
		return o
	}
	e.setK(cs.TXK)
	c := e.cap
	c.on, c.n, c.over = capture, 0, false
	o.Panic = probe.Safe(func() { o.Res = op.Evaluate(c, input) })
	if c.n > 0 {
		o.Caps = make(map[int]string, c.n)
		for i := 0; i < c.n; i++ {
			o.Caps[c.idx[i]] = c.val[i]
		}
		if c.over {
			o.Caps[999] = "more than 24 CaptureField calls"
		}
	}
	return o
}

// ---------------------------------------------------------------------------
// rule mode

type ruleWAF struct {
	waf  coraza.WAF
	err  string
	conf string
}

func (r *ruleWAF) close() {
	if r.waf != nil {
		scen.Close(r.waf)
	}
}

// ruleSafe reports whether s travels unchanged through a double-quoted SecLang
// operator field (C16 owns everything else).
func ruleSafe(s string) bool {
	if s == "" {
		return true
	}
	if s[0] == ' ' || s[len(s)-1] == ' ' {
		return false
	}
	for i := 0; i < len(s); i++ {
		b := s[i]
		switch {
		case b == '"' || b == '\'' || b == '`' || b == 0x7f:
			return false
		case b < 0x20:
			return false
		}
	}
	return true
}

func ruleConf(cs *Case) (string, bool) {
	arg := string(cs.Arg)
	if !ruleSafe(arg) || strings.Contains(arg, `\"`) {
		return "", false
	}
	var sb strings.Builder
	sb.WriteString("SecRuleEngine On\n")
	if cs.TXK != nil {
		v := string(*cs.TXK)
		if v == "" || !ruleSafe(v) || strings.ContainsAny(v, " %,:=\\") {
			return "", false
		}
		fmt.Fprintf(&sb, "SecAction \"id:90,phase:1,pass,nolog,setvar:tx.k=%s\"\n", v)
	}
	if cs.Dataset != nil {
		fmt.Fprintf(&sb, "SecDataset %s `\n", arg)
		for _, d := range cs.Dataset {
			if !ruleSafe(string(d)) || d == "" || d[0] == '#' {
				return "", false
			}
			sb.WriteString(string(d) + "\n")
		}
		sb.WriteString("`\n")
	}
	pos := "@" + cs.Op
	if arg != "" {
		pos += " " + arg
	}
	if cs.Form == "implicit" {
		if cs.Op != "rx" || arg == "" || arg[0] == '@' || arg[0] == '!' {
			return "", false
		}
		pos = arg
	}
	if cs.Op == "rx" {
		// an earlier capturing rule leaves text in TX.0-9: a group of the rule under test that takes no part in the
		// match (or matches the empty string) must not keep showing that text
		sb.WriteString("SecRule REQUEST_HEADERS:Pre \"@rx (p)(q)(r)(s)(t)(u)(v)(w)(y)\" \"id:80,phase:1,pass,nolog,capture\"\n")
	}
	fmt.Fprintf(&sb, "SecRule REQUEST_HEADERS:X \"%s\" \"id:1,phase:1,pass,nolog,capture,setvar:tx.m1=1\"\n", pos)
	fmt.Fprintf(&sb, "SecRule REQUEST_HEADERS:X \"!%s\" \"id:2,phase:1,pass,nolog,setvar:tx.m2=1\"\n", pos)
	return sb.String(), true
}

func (e *env) buildRule(cs *Case) *ruleWAF {
	conf, ok := ruleConf(cs)
	if !ok {
		return &ruleWAF{err: "case not expressible as a rule"}
	}
	var extra []func(coraza.WAFConfig) coraza.WAFConfig
	if cs.File != nil {
		fsys := fstest.MapFS{string(cs.Arg): {Data: []byte(*cs.File)}}
		extra = append(extra, func(c coraza.WAFConfig) coraza.WAFConfig { return c.WithRootFS(fsys) })
	}
	w, err := scen.Build(conf, extra...)
	if err != nil {
		return &ruleWAF{err: err.Error(), conf: conf}
	}
	return &ruleWAF{waf: w, conf: conf}
}

// run pushes one header value through a fresh transaction.
func (r *ruleWAF) run(input string) *Obs {
	o := &Obs{Rule: true, Capture: true}
	if r.waf == nil {
		o.BuildErr = r.err
		return o
	}
	var tx types.Transaction
	o.Panic = probe.Safe(func() {
		tx = r.waf.NewTransaction()
		tx.ProcessConnection("10.0.0.1", 1234, "10.0.0.2", 80)
		tx.ProcessURI("/", "GET", "HTTP/1.1")
		tx.AddRequestHeader("Pre", "pqrstuvwy")
		tx.AddRequestHeader("X", input)
		tx.ProcessRequestHeaders()
		txm := tx.(plugintypes.TransactionState).Variables().TX()
		o.Prefilled = strings.Contains(r.conf, "id:80,")
		o.Res = len(txm.Get("m1")) > 0
		o.Neg = len(txm.Get("m2")) > 0
		for i := 0; i <= 9; i++ {
			if v := txm.Get(strconv.Itoa(i)); len(v) > 0 && v[0] != "" {
				if o.Caps == nil {
					o.Caps = map[int]string{}
				}
				o.Caps[i] = v[0]
			}
		}
		tx.ProcessLogging()
	})
	if tx != nil {
		if p := probe.Safe(func() { _ = tx.Close() }); p != "" && o.Panic == "" {
			o.Panic = "Close: " + p
		}
	}
	return o
}
