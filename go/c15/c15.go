// Package c15 decides C15: every built-in operator returns exactly its
// documented predicate (DESIGN.md §3 C15).
//
// Each operator family has a direct executable definition of its predicate
// (oracle_*.go) and a finite argument x input space that is enumerated
// completely (spaces.go). Operators are built through the real factory
// (operators.Get) and evaluated against a real transaction whose capture
// interface is intercepted; a subset is repeated through real single-rule WAFs
// to bind the `!` negation, the default @rx and the TX.0-9 captures.
package c15

import (
	"encoding/json"
	"fmt"
	"sort"
	"strconv"
	"strings"

	"github.com/corazawaf/coraza/v3/internal/verif/runner"
)

func init() {
	runner.Register(&runner.Check{
		ID:    "C15",
		Level: "exploration",
		Rule: "case = (operator, argument [+ TX:k value for %{tx.k} macro arguments | phrase file | data set], input byte string, capture on/off); " +
			"arguments and inputs are ALL strings up to the tier's length bound over the per-family alphabets (see coverage.spaces), every case is executed on the real operator " +
			"(operators.Get + Evaluate on a real transaction with an intercepted capture interface; a stated subset again through a two-rule WAF `@op arg` / `!@op arg` with capture); " +
			"evaluations = operator evaluations + rule-mode transactions; distinct_nontrivial = distinct (operator, argument) units for which both verdicts (match and no match) were observed over the unit's inputs",
		Assumptions: []string{
			"trusted base of the oracle: Go's regexp (for @rx only), strconv.ParseInt, net/netip; everything else is a hand-written naive definition (substring search, ASCII folding, byte tables, %XX scan, RFC 3629 table)",
			"where the documentation does not fix the answer the case is executed (totality) but not asserted: non-integer operands of the numeric operators, ^/$ when (?s) and (?sm) disagree, \\xNN (>=0x80) escapes where the byte and the rune reading disagree, IPv4-mapped IPv6 against IPv4 networks, @pm captures when candidate occurrences overlap (only 'each capture is an occurrence' is asserted then)",
			"SecLang text handling of the argument (quoting, trimming) belongs to C16: rule-mode arguments are restricted to bytes the parser passes through unchanged",
		},
		Run:    run,
		Replay: replay,
	})
}

// Q is a byte string that survives JSON (Go-quoted ASCII inside a JSON string).
type Q string

func (q Q) MarshalJSON() ([]byte, error) { return json.Marshal(strconv.QuoteToASCII(string(q))) }

func (q *Q) UnmarshalJSON(b []byte) error {
	var s string
	if err := json.Unmarshal(b, &s); err != nil {
		return err
	}
	u, err := strconv.Unquote(s)
	if err != nil {
		return err
	}
	*q = Q(u)
	return nil
}

// Case is one replayable evaluation.
type Case struct {
	Mode    string `json:"mode"`              // "direct" (operators.Get + Evaluate) | "rule" (two-rule WAF)
	Op      string `json:"op"`                // registered operator name
	Arg     Q      `json:"arg"`               // argument text (file name for pmFromFile, data set name for pmFromDataset)
	TXK     *Q     `json:"tx_k,omitempty"`    // value of TX:k when the argument uses %{tx.k}
	File    *Q     `json:"file,omitempty"`    // content of the phrase file
	Dataset []Q    `json:"dataset,omitempty"` // content of the data set
	Form    string `json:"form,omitempty"`    // rule mode: "" = `@op arg`, "implicit" = bare pattern (default @rx)
	Input   Q      `json:"input"`
	Capture bool   `json:"capture"`
}

func (cs Case) unitKey() string {
	var sb strings.Builder
	fmt.Fprintf(&sb, "%s|%s|%q", cs.Mode, cs.Op, string(cs.Arg))
	if cs.TXK != nil {
		fmt.Fprintf(&sb, "|k=%q", string(*cs.TXK))
	}
	if cs.File != nil {
		fmt.Fprintf(&sb, "|f=%q", string(*cs.File))
	}
	for _, d := range cs.Dataset {
		fmt.Fprintf(&sb, "|d=%q", string(d))
	}
	if cs.Form != "" {
		sb.WriteString("|" + cs.Form)
	}
	return sb.String()
}

func (cs Case) String() string {
	return fmt.Sprintf("%s|in=%q|capture=%v", cs.unitKey(), string(cs.Input), cs.Capture)
}

// Obs is what one evaluation showed.
type Obs struct {
	BuildErr string         // operator constructor / NewWAF error
	Panic    string         // panic text
	Res      bool           // verdict (rule mode: rule 1 fired)
	Neg      bool           // rule mode: the `!` rule fired
	Caps     map[int]string // direct: CaptureField calls (last value per index); rule: non-empty TX.0-9
	// Prefilled: an earlier rule of the transaction stored text in TX.0-9 (indexes beyond the groups of the rule under
	// test legitimately keep it; when the rule under test does not match, all of them do)
	Prefilled bool
	Rule     bool           // rule mode observation
	Capture  bool           // the evaluation ran with capture on
}

func (o *Obs) String() string {
	if o.BuildErr != "" {
		return "constructor error: " + o.BuildErr
	}
	if o.Panic != "" {
		return "PANIC " + o.Panic
	}
	s := fmt.Sprintf("verdict=%v", o.Res)
	if o.Rule {
		s += fmt.Sprintf(" negated-rule-fired=%v", o.Neg)
	}
	return s + " captures=" + capsText(o.Caps)
}

func capsText(m map[int]string) string {
	if len(m) == 0 {
		return "{}"
	}
	ks := make([]int, 0, len(m))
	for k := range m {
		ks = append(ks, k)
	}
	sort.Ints(ks)
	var sb strings.Builder
	sb.WriteString("{")
	for i, k := range ks {
		if i > 0 {
			sb.WriteString(" ")
		}
		fmt.Fprintf(&sb, "%d:%q", k, m[k])
	}
	sb.WriteString("}")
	return sb.String()
}

// alt is one acceptable answer.
type alt struct {
	name    string
	verdict bool
	// caps checks the captures of a matching, capturing evaluation; "" = fine,
	// otherwise a short reason. nil = captures are not constrained.
	caps func(o *Obs) string
}

// want is the specification of one case.
type want struct {
	skip     string // non-empty: the documentation does not fix the answer (reason)
	buildErr *bool  // non-nil: whether the constructor must fail
	alts     []alt
	text     string // human description of the expected answer
	// class names the root cause of a mismatch (signature without the "C15" part).
	class func(o *Obs, reason string) string
}

// accept says whether o satisfies w; otherwise reason describes the first mismatch.
func (w *want) accept(cs *Case, o *Obs) (ok bool, reason string) {
	return acceptAlts(w.alts, cs.Capture, o)
}

func acceptAlts(alts []alt, capture bool, o *Obs) (ok bool, reason string) {
	if o.Panic != "" {
		return false, "panic"
	}
	reason = "verdict"
	for i := range alts {
		a := &alts[i]
		if a.verdict != o.Res {
			continue
		}
		if !capture || !o.Res || a.caps == nil {
			return true, ""
		}
		r := a.caps(o)
		if r == "" {
			return true, ""
		}
		reason = "capture:" + r
	}
	return false, reason
}

// spec is the oracle of one unit (operator + argument): it maps an input to
// the specification of the case.
type spec struct {
	family string
	// build-time expectation
	skipUnit string // whole unit unspecified
	// parts, when set, lists earlier (smaller) inputs of the same unit whose
	// failure explains a failure on in; the failure is then reported under
	// their signature (one root cause, one signature).
	parts  func(in string) []string
	wantFn func(input string, capture bool) *want
}

// judge compares one observation with the oracle. Returns skip reason,
// signature ("" = held) and a human text.
func judge(cs *Case, sp *spec, o *Obs) (skip, sig, what string) {
	var w *want
	if sp.skipUnit == "" {
		w = sp.wantFn(string(cs.Input), cs.Capture)
	}
	return judgeWith(cs, sp, w, o)
}

func frame(p string) string {
	if i := strings.LastIndex(p, " @ "); i >= 0 {
		return p[i+3:]
	}
	return p
}

func replay(raw json.RawMessage) (bool, string) {
	var cs Case
	if err := json.Unmarshal(raw, &cs); err != nil {
		return false, err.Error()
	}
	e := newEnv()
	defer e.close()
	sp, err := specOf(&cs)
	if err != nil {
		return false, "scenario not understood: " + err.Error()
	}
	var o *Obs
	if cs.Mode == "rule" {
		rw := e.buildRule(&cs)
		defer rw.close()
		o = rw.run(string(cs.Input))
	} else {
		op, berr := e.build(&cs)
		o = e.eval(op, berr, &cs, string(cs.Input), cs.Capture)
	}
	skip, sig, what := judge(&cs, sp, o)
	if skip != "" {
		return false, "not asserted (" + skip + "): " + o.String()
	}
	if sig == "" {
		return false, cs.String() + "\n  observed: " + o.String() + "\n  conforms to the documented predicate"
	}
	return true, "signature: " + sig + "\n" + what
}
