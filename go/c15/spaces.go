package c15

import (
	"fmt"
	"regexp"
	"sort"
	"strings"
)

// words returns every concatenation of lo..hi units, shortest first.
func words(units []string, lo, hi int) []string {
	var out []string
	var rec func(prefix string, left int)
	rec = func(prefix string, left int) {
		if left == 0 {
			out = append(out, prefix)
			return
		}
		for _, u := range units {
			rec(prefix+u, left-1)
		}
	}
	for l := lo; l <= hi; l++ {
		rec("", l)
	}
	return out
}

func qp(s string) *Q { q := Q(s); return &q }

func chunks(in []string, n int, f func(i int, part []string)) {
	for i, k := 0, 0; i < len(in); i, k = i+n, k+1 {
		j := i + n
		if j > len(in) {
			j = len(in)
		}
		f(k, in[i:j])
	}
}

var both = []bool{false, true}

// enumerate emits every unit of the tier and returns a description of the
// spaces (sizes) for the evidence file.
func enumerate(th bool, emit func(*unit)) map[string]any {
	sizes := map[string]any{}
	note := func(k string, f string, a ...any) { sizes[k] = fmt.Sprintf(f, a...) }

	direct := func(op, arg string) Case { return Case{Mode: "direct", Op: op, Arg: Q(arg)} }

	// ---- string operators ------------------------------------------------
	{
		sigma := []string{"a", "A", "b", " ", "\x00", "\xff"}
		L := 3
		if th {
			L = 4
		}
		W := words(sigma, 0, L)
		K2 := words(sigma, 0, 2)
		ops := []string{"streq", "contains", "strmatch", "beginsWith", "endsWith", "within"}
		n := 0
		for _, op := range ops {
			for _, a := range W[1:] {
				emit(&unit{cases: []Case{direct(op, a)}, inputs: W})
				n++
			}
			for _, k := range W {
				cs := direct(op, "%{tx.k}")
				cs.TXK = qp(k)
				emit(&unit{cases: []Case{cs}, inputs: W})
				n++
			}
			for _, form := range []string{"A%{tx.k}", "%{TX.k}b", "%{tx.k} %{tx.k}"} {
				for _, k := range K2 {
					cs := direct(op, form)
					cs.TXK = qp(k)
					emit(&unit{cases: []Case{cs}, inputs: W})
					n++
				}
			}
		}
		note("string", "6 operators x (every literal argument of length 1..%d + %%{tx.k} with every TX:k of length 0..%d + 3 mixed macro forms x every TX:k of length 0..2) over {a,A,b,space,\\x00,\\xff} x every input of length 0..%d: %d units x %d inputs", L, L, L, n, len(W))
	}

	// ---- numeric comparisons ---------------------------------------------
	{
		vals := []string{"-2", "-1", "0", "1", "2", "3", "9", "10", "+1", "01", "-0", "007", "-01",
			"2147483647", "2147483648", "-2147483648", "-2147483649", "4294967296", "9223372036854775807", "-9223372036854775808",
			"", "x", "1x", " 1", "1 ", "1.5", "9223372036854775808", "18446744073709551617", "-9223372036854775809", "99999999999999999999999", "0x10", "--1"}
		if th {
			for i := -40; i <= 40; i++ {
				s := fmt.Sprint(i)
				dup := false
				for _, v := range vals {
					if v == s {
						dup = true
					}
				}
				if !dup {
					vals = append(vals, s)
				}
			}
		}
		n := 0
		for _, op := range []string{"eq", "ge", "gt", "le", "lt"} {
			for _, a := range vals {
				if a != "" {
					emit(&unit{cases: []Case{direct(op, a)}, inputs: vals})
					n++
				}
				cs := direct(op, "%{tx.k}")
				cs.TXK = qp(a)
				emit(&unit{cases: []Case{cs}, inputs: vals})
				n++
			}
		}
		note("numeric", "5 operators x %d parameter texts (literal and through %%{tx.k}) x the same %d input texts (integers around 0, signs, leading zeros, int32/int64 limits; non-integers executed but not asserted): %d units", len(vals), len(vals), n)
	}

	// ---- @pm, @pmFromFile, @pmFromDataset ---------------------------------
	pmUnit := func(mode string, id int, ph []string, inputs []string, caps []bool) *unit {
		file := "# c\n" + ph[0] + "\n"
		if len(ph) > 1 {
			file += "\n" + strings.Join(ph[1:], "\n") // blank line, no final newline
		}
		ds := make([]Q, len(ph))
		for i, p := range ph {
			ds[i] = Q(p)
		}
		return &unit{caps: caps, inputs: inputs, cases: []Case{
			{Mode: mode, Op: "pm", Arg: Q(strings.Join(ph, " "))},
			{Mode: mode, Op: "pmFromFile", Arg: Q(fmt.Sprintf("c15-%s-%d.data", mode, id)), File: qp(file)},
			{Mode: mode, Op: "pmFromDataset", Arg: Q(fmt.Sprintf("c15ds_%s_%d", mode, id)), Dataset: ds},
		}}
	}
	{
		phr := words([]string{"a", "B", "c"}, 1, 3)
		inL := 4
		if th {
			inL = 5
		}
		inputs := words([]string{"a", "A", "b", "B", "c", "x"}, 0, inL)
		id := 0
		for _, p := range phr {
			id++
			emit(pmUnit("direct", id, []string{p}, inputs, both))
		}
		for _, p := range phr {
			for _, q := range phr {
				id++
				emit(pmUnit("direct", id, []string{p, q}, inputs, both))
			}
		}
		if th {
			for i := range phr {
				for j := i + 1; j < len(phr); j++ {
					for k := j + 1; k < len(phr); k++ {
						id++
						emit(pmUnit("direct", id, []string{phr[i], phr[j], phr[k]}, inputs, both))
					}
				}
			}
		}
		// a '#' that is not the first character of a line belongs to the phrase
		hashIn := words([]string{"a", "B", "#", "c"}, 0, 3)
		for _, ph := range [][]string{{"a#B"}, {"a#"}, {"B#c", "c"}, {"a#c", "B"}, {"c", "a#a"}} {
			id++
			emit(pmUnit("direct", id, ph, hashIn, both))
		}
		note("pm", "phrases of length 1..3 over {a,B,c} (%d); every ordered list of 1-2 phrases%s = %d lists, each as @pm / @pmFromFile (with comment and blank line) / @pmFromDataset (+ single phrases as @pmf) x every input of length 0..%d over {a,A,b,B,c,x} (%d) x capture off/on",
			len(phr), map[bool]string{true: " and every 3-subset", false: ""}[th], id, inL, len(inputs))

		// the @pmf alias of @pmFromFile
		for i, p := range phr {
			emit(&unit{caps: both, inputs: inputs, cases: []Case{{Mode: "direct", Op: "pmf", Arg: Q(fmt.Sprintf("c15-pmf-%d.data", i)), File: qp(p + "\n#" + phr[0] + "\n")}}})
		}
		// non-ASCII phrases
		nu := []string{"a", "\u00c9", "\xff", "\u212a"}
		nph := words(nu, 1, 2)
		nin := words([]string{"a", "\u00c9", "\u00e9", "\xff", "k", "\u212a", "\ufffd"}, 0, 3)
		n0 := id
		for _, p := range nph {
			id++
			emit(pmUnit("direct", id, []string{p}, nin, both))
		}
		for _, p := range nph {
			for _, q := range nph {
				id++
				emit(pmUnit("direct", id, []string{p, q}, nin, both))
			}
		}
		note("pm_non_ascii", "phrases of 1-2 units over {a, U+00C9, \\xff, U+212A}; ordered lists of 1-2 phrases (%d) in the three forms x inputs of 0..3 units over {a, U+00C9, U+00E9, \\xff, k, U+212A, U+FFFD} (%d) x capture off/on", id-n0, len(nin))

		// the 10-capture limit
		lim := words([]string{"a", "b"}, 9, 12)
		n0 = id
		lp := []string{"a", "b", "ab", "ba", "aa"}
		for _, p := range lp {
			id++
			emit(pmUnit("direct", id, []string{p}, lim, []bool{true}))
			for _, q := range lp {
				id++
				emit(pmUnit("direct", id, []string{p, q}, lim, []bool{true}))
			}
		}
		note("pm_capture_limit", "ordered lists of 1-2 phrases over {a,b,ab,ba,aa} (%d) in the three forms x every input of length 9..12 over {a,b} (%d), capture on", id-n0, len(lim))
	}

	// ---- @ipMatch -----------------------------------------------------------
	ipInputs := []string{"9.255.255.255", "10.0.0.0", "10.0.0.1", "10.0.0.2", "10.0.0.3", "10.0.0.4", "10.0.0.5", "10.0.0.6", "10.0.0.7", "10.0.0.8", "10.0.0.9",
		"10.0.1.1", "0.0.0.0", "255.255.255.255", "::", "::1", "::2", "::3", "::4", "1::", "0:0:0:0:0:0:0:1", "::a00:1", "::ffff:10.0.0.1",
		"", "x", "10.0.0", "10.0.0.256", "10.0.0.1/32", "010.0.0.1", "10.0.0.1 ", "::1/128", ":::1",
		"64:ff9b::a00:5", "64:ff9b::10.0.0.5", "64:ff9b::a00:6", "64:ff9b::"}
	ipItems := []string{"10.0.0.1", "10.0.0.0/30", "10.0.0.5/30", "10.0.0.2/32", "10.0.0.0/31", " 10.0.0.7", "0.0.0.0/0", "::1", "::/127", "::2/128", "::3/127", " ::4",
		"64:ff9b::10.0.0.5", "::ffff:10.0.0.1"} // IPv6 addresses written with a dotted quad: NAT64 (plain IPv6) and IPv4-mapped
	{
		n := 0
		for _, a := range ipItems {
			emit(&unit{cases: []Case{direct("ipMatch", a)}, inputs: ipInputs})
			n++
			for _, b := range ipItems {
				emit(&unit{cases: []Case{direct("ipMatch", a+","+b)}, inputs: ipInputs})
				n++
				if th {
					for _, d := range ipItems {
						emit(&unit{cases: []Case{direct("ipMatch", a+","+b+", "+d)}, inputs: ipInputs})
						n++
					}
				}
			}
		}
		note("ipMatch", "every ordered list of 1..%d items over %d items (bare v4/v6, /30 /31 /32 /127 /128 /0, host bits set, item after a space) = %d lists x %d inputs (every address of those networks and their neighbours, alternative spellings, non-addresses)",
			map[bool]int{true: 3, false: 2}[th], len(ipItems), n, len(ipInputs))
	}

	// ---- @validateByteRange --------------------------------------------------
	var brItems []string
	{
		ends := []int{0, 1, 127, 128, 254, 255}
		for _, s := range ends {
			brItems = append(brItems, fmt.Sprint(s))
		}
		for i, s := range ends {
			for _, e := range ends[i:] {
				brItems = append(brItems, fmt.Sprintf("%d-%d", s, e))
			}
		}
		var singles, pairsB, pairsAll []string
		for b := 0; b < 256; b++ {
			singles = append(singles, string([]byte{byte(b)}))
		}
		bd := []byte{0, 1, 2, 126, 127, 128, 129, 253, 254, 255}
		for _, x := range bd {
			for _, y := range bd {
				pairsB = append(pairsB, string([]byte{x, y}))
			}
		}
		small := append(append([]string{""}, singles...), pairsB...)
		full := small
		if th {
			for x := 0; x < 256; x++ {
				for y := 0; y < 256; y++ {
					pairsAll = append(pairsAll, string([]byte{byte(x), byte(y)}))
				}
			}
			full = append(append([]string{""}, singles...), pairsAll...)
		}
		n := 0
		for _, a := range brItems {
			emit(&unit{cases: []Case{direct("validateByteRange", a)}, inputs: full})
			n++
			for j, b := range brItems {
				sep := ","
				if j%2 == 1 {
					sep = ", "
				}
				emit(&unit{cases: []Case{direct("validateByteRange", a+sep+b)}, inputs: full})
				n++
				if th {
					for _, d := range brItems {
						emit(&unit{cases: []Case{direct("validateByteRange", a+sep+b+","+d)}, inputs: small})
						n++
					}
				}
			}
		}
		note("validateByteRange", "items = single values and ranges s-e (s<=e) with endpoints in {0,1,127,128,254,255} (%d); every ordered list of 1-2 items x (empty input, all 256 single bytes, %s)%s: %d units",
			len(brItems), map[bool]string{true: "all 65536 byte pairs", false: "all pairs over {0,1,2,126..129,253,254,255}"}[th],
			map[bool]string{true: "; every ordered list of 3 items x (empty, 256 single bytes, boundary pairs)", false: ""}[th], n)
	}

	// ---- @validateUrlEncoding ------------------------------------------------
	{
		L := 5
		if th {
			L = 7
		}
		in := words([]string{"%", "4", "F", "g", "a"}, 0, L)
		n1 := len(in)
		// every %xy (and truncated %x) in four contexts
		for _, ctx := range [][2]string{{"", ""}, {"a", ""}, {"", "a"}, {"%41", "%41"}} {
			for x := 0; x < 256; x++ {
				in = append(in, ctx[0]+"%"+string([]byte{byte(x)})+ctx[1])
				for y := 0; y < 256; y++ {
					in = append(in, ctx[0]+"%"+string([]byte{byte(x), byte(y)})+ctx[1])
				}
			}
		}
		chunks(in, 8192, func(i int, part []string) {
			emit(&unit{cases: []Case{direct("validateUrlEncoding", "")}, inputs: part, tag: fmt.Sprint("#", i)})
		})
		note("validateUrlEncoding", "every string of length 0..%d over {%%,4,F,g,a} (%d) + `%%x` and `%%xy` for all 256 / 65536 byte values in 4 contexts (%d)", L, n1, len(in)-n1)
	}

	// ---- @validateUtf8Encoding ------------------------------------------------
	{
		L := 4
		if th {
			L = 5
		}
		in := words([]string{"a", "\x80", "\x8f", "\x90", "\x9f", "\xa0", "\xbf", "\xc0", "\xc2", "\xe0", "\xed", "\xf0", "\xf4", "\xf5"}, 0, L)
		// every 1- and 2-byte string, and every lead byte followed by boundary continuation bytes
		for x := 0; x < 256; x++ {
			in = append(in, string([]byte{byte(x)}))
			for y := 0; y < 256; y++ {
				in = append(in, string([]byte{byte(x), byte(y)}))
			}
		}
		chunks(in, 8192, func(i int, part []string) {
			emit(&unit{cases: []Case{direct("validateUtf8Encoding", "")}, inputs: part, tag: fmt.Sprint("#", i)})
		})
		note("validateUtf8Encoding", "every string of length 0..%d over 14 bytes delimiting the RFC 3629 classes + every 1- and 2-byte string: %d inputs", L, len(in))
	}

	// ---- @rx -------------------------------------------------------------------
	rxIn := func(l int) []string { return words([]string{"a", "b", "\n", "\xff", "\u00ff"}, 0, l) }
	{
		N := 5
		if th {
			N = 6
		}
		levels := rxPatterns(N)
		n := 0
		for lv := 1; lv <= N; lv++ {
			l := 3
			if th && lv <= 4 {
				l = 4
			}
			in := rxIn(l)
			for _, p := range levels[lv] {
				emit(&unit{cases: []Case{direct("rx", p)}, inputs: in, caps: both})
				n++
			}
		}
		note("rx", "every pattern of 1..%d nodes over atoms {a,b,.,[ab],[^a],^,$,\\n,\\xff} and constructors {concat, |, (..), ?, *, +} that Go's regexp accepts (%d) x every input of 0..3%s units over {a,b,\\n,\\xff,U+00FF} x capture off/on",
			N, n, map[bool]string{true: " (0..4 for patterns of <=4 nodes)", false: ""}[th])

		// group-count family: TX.0-9
		var gp []string
		for k := 1; k <= 11; k++ {
			gp = append(gp, strings.Repeat("(a)", k), strings.Repeat("(a)?", k), strings.Repeat("(", k)+"a"+strings.Repeat(")", k),
				strings.Repeat("(a)|", k)+"(b)", `\xff|`+strings.Repeat("(a)", k))
		}
		gin := append(words([]string{"a"}, 0, 12), "b", "ab", "\xff")
		for _, p := range gp {
			emit(&unit{cases: []Case{direct("rx", p)}, inputs: gin, caps: both})
		}
		note("rx_groups", "5 pattern shapes with 1..11 capture groups (%d patterns: (a)^k, ((a)?)^k, nested, alternated, binary) x inputs a^0..a^12, b, ab, \\xff x capture off/on", len(gp))
	}

	// ---- through real rules: `@op arg` + `!@op arg`, capture, TX.0-9 -----------
	rule := func(op, arg string) Case { return Case{Mode: "rule", Op: op, Arg: Q(arg)} }
	{
		n := 0
		// string operators
		sa := words([]string{"a", "A", "b"}, 1, 2)
		sin := words([]string{"a", "A", "b", " ", "\xff"}, 0, 2)
		for _, op := range []string{"streq", "contains", "strmatch", "beginsWith", "endsWith", "within"} {
			for _, a := range sa {
				emit(&unit{cases: []Case{rule(op, a)}, inputs: sin})
				cs := rule(op, "%{tx.k}")
				cs.TXK = qp(a)
				emit(&unit{cases: []Case{cs}, inputs: sin})
				n += 2
			}
		}
		// numeric
		nv := []string{"-1", "0", "1", "2", "3", "10"}
		for _, op := range []string{"eq", "ge", "gt", "le", "lt"} {
			for _, a := range nv {
				emit(&unit{cases: []Case{rule(op, a)}, inputs: nv})
				n++
			}
		}
		// pm family
		id := 0
		ph2 := words([]string{"a", "B", "c"}, 1, 2)
		pin := words([]string{"a", "A", "b", "B", "c", "x"}, 0, 3)
		for _, p := range ph2 {
			id++
			emit(pmUnit("rule", id, []string{p}, pin, []bool{true}))
			n++
			if th {
				for _, q := range ph2 {
					id++
					emit(pmUnit("rule", id, []string{p, q}, pin, []bool{true}))
					n++
				}
			}
		}
		for _, l := range [][]string{{"\u00c9"}, {"a", "\u00c9"}, {"a\u00c9"}} {
			id++
			emit(pmUnit("rule", id, l, []string{"", "a", "\u00c9", "\u00e9", "x\u00c9", "a\u00e9", "a\u00c9", "b"}, []bool{true}))
			n++
		}
		for _, l := range [][]string{{"a"}, {"ab", "b"}, {"aa", "a"}} {
			id++
			emit(pmUnit("rule", id, l, words([]string{"a", "b"}, 9, 11), []bool{true}))
			n++
		}
		// ipMatch
		for _, a := range ipItems {
			emit(&unit{cases: []Case{rule("ipMatch", strings.TrimSpace(a))}, inputs: ipInputs})
			n++
		}
		emit(&unit{cases: []Case{rule("ipMatch", "10.0.0.0/30, ::1")}, inputs: ipInputs})
		n++
		// validateByteRange
		var singles []string
		for b := 0; b < 256; b++ {
			singles = append(singles, string([]byte{byte(b)}))
		}
		singles = append(singles, "", "\x00\xff", "\x7f\x80")
		for _, a := range brItems {
			emit(&unit{cases: []Case{rule("validateByteRange", a)}, inputs: singles})
			n++
		}
		emit(&unit{cases: []Case{rule("validateByteRange", "0-1, 127, 254-255")}, inputs: singles})
		n++
		// validate url / utf8
		emit(&unit{cases: []Case{rule("validateUrlEncoding", "")}, inputs: words([]string{"%", "4", "F", "g", "a"}, 0, 4)})
		emit(&unit{cases: []Case{rule("validateUtf8Encoding", "")}, inputs: words([]string{"a", "\x80", "\xbf", "\xc2", "\xe0", "\xa0", "\xed", "\xf4", "\x90"}, 0, 3)})
		n += 2
		// rx: explicit and implicit (default operator) forms
		lv := rxPatterns(3)
		rin := rxIn(2)
		for l := 1; l <= 3; l++ {
			for _, p := range lv[l] {
				if strings.Contains(p, "\n") {
					continue
				}
				emit(&unit{cases: []Case{rule("rx", p)}, inputs: rin})
				n++
				if p[0] != '@' && p[0] != '!' {
					cs := rule("rx", p)
					cs.Form = "implicit"
					emit(&unit{cases: []Case{cs}, inputs: rin})
					n++
				}
			}
		}
		for k := 1; k <= 11; k++ {
			for _, p := range []string{strings.Repeat("(a)", k), strings.Repeat("(a)?", k), `\xff|` + strings.Repeat("(a)", k)} {
				emit(&unit{cases: []Case{rule("rx", p)}, inputs: append(words([]string{"a"}, 0, 12), "b", "\xff")})
				n++
			}
		}
		note("rule_mode", "%d single-argument WAFs (rule 1 `@op arg` with capture, rule 2 `!@op arg`; verdicts read from setvar markers, captures from TX.0-9): string operators (arguments of 1-2 over {a,A,b}, literal and %%{tx.k}), numeric, the three @pm forms, @ipMatch items, @validateByteRange items x all 256 bytes, validateUrlEncoding/Utf8Encoding, @rx patterns of <=3 nodes in explicit and implicit (default operator) form, 1..11 capture groups", n)
	}
	return sizes
}

// ---------------------------------------------------------------------------
// @rx pattern enumeration by node count

type rxNode struct {
	s      string
	atomic bool // may take a postfix operator without grouping
	alt    bool // top-level alternation
}

var rxCache = map[int][][]string{}

func rxPatterns(maxNodes int) [][]string {
	if v, ok := rxCache[maxNodes]; ok {
		return v
	}
	atoms := []string{"a", "b", ".", "[ab]", "[^a]", "^", "$", `\n`, `\xff`}
	lv := make([][]rxNode, maxNodes+1)
	seen := map[string]bool{}
	add := func(n int, x rxNode) {
		if seen[x.s] {
			return
		}
		seen[x.s] = true
		lv[n] = append(lv[n], x)
	}
	for _, a := range atoms {
		add(1, rxNode{s: a, atomic: true})
	}
	wrapAlt := func(x rxNode) string {
		if x.alt {
			return "(?:" + x.s + ")"
		}
		return x.s
	}
	for n := 2; n <= maxNodes; n++ {
		for _, x := range lv[n-1] {
			add(n, rxNode{s: "(" + x.s + ")", atomic: true})
			for _, q := range []string{"?", "*", "+"} {
				if x.atomic {
					add(n, rxNode{s: x.s + q})
				} else {
					add(n, rxNode{s: "(?:" + x.s + ")" + q})
				}
			}
		}
		for i := 1; i <= n-2; i++ {
			for _, x := range lv[i] {
				for _, y := range lv[n-1-i] {
					add(n, rxNode{s: wrapAlt(x) + wrapAlt(y)})
					add(n, rxNode{s: x.s + "|" + y.s, alt: true})
				}
			}
		}
	}
	out := make([][]string, maxNodes+1)
	for n := 1; n <= maxNodes; n++ {
		for _, x := range lv[n] {
			if _, err := regexp.Compile(x.s); err != nil {
				continue
			}
			out[n] = append(out[n], x.s)
		}
		sort.Strings(out[n])
	}
	rxCache[maxNodes] = out
	return out
}
