package c15

import (
	"fmt"
	"strings"
)

// ---------------------------------------------------------------------------
// @validateByteRange

type brItem struct {
	s, e   int
	single bool
}

// parseDecimalByte accepts plain decimal 0..255 (no sign).
func parseDecimalByte(t string) (int, bool) {
	if t == "" || len(t) > 3 {
		return 0, false
	}
	n := 0
	for i := 0; i < len(t); i++ {
		if t[i] < '0' || t[i] > '9' {
			return 0, false
		}
		n = n*10 + int(t[i]-'0')
	}
	if n > 255 || (len(t) > 1 && t[0] == '0') {
		return 0, false
	}
	return n, true
}

func vbrSpec(cs *Case) *spec {
	sp := &spec{family: "validateByteRange"}
	arg := string(cs.Arg)
	if arg == "" {
		sp.skipUnit = "@validateByteRange without ranges (undocumented)"
		return sp
	}
	var items []brItem
	var table [256]bool
	for _, raw := range strings.Split(arg, ",") {
		t := strings.Trim(raw, " ")
		if s, e, ok := strings.Cut(t, "-"); ok {
			a, ok1 := parseDecimalByte(s)
			b, ok2 := parseDecimalByte(e)
			if !ok1 || !ok2 || a > b {
				sp.skipUnit = "range item outside the documented `start-end` form with start<=end"
				return sp
			}
			items = append(items, brItem{a, b, false})
			for i := a; i <= b; i++ {
				table[i] = true
			}
			continue
		}
		a, ok := parseDecimalByte(t)
		if !ok {
			sp.skipUnit = "item outside the documented decimal 0-255 form"
			return sp
		}
		items = append(items, brItem{a, a, true})
		table[a] = true
	}
	// where byte b stands relative to the listed items
	place := func(b int) string {
		in := table[b]
		tag := ""
		if in {
			for _, it := range items {
				if it.single && it.s == b {
					return "single-value" + tag
				}
			}
			for _, it := range items {
				if !it.single && it.s == b && it.e == b {
					return "one-byte-range" + tag
				}
			}
			for _, it := range items {
				if !it.single && it.s == b {
					return "range-start" + tag
				}
				if !it.single && it.e == b {
					return "range-end" + tag
				}
			}
			if b == 0 || b == 255 {
				tag = fmt.Sprintf(":byte-%d", b)
			}
			return "inside-range" + tag
		}
		for _, it := range items {
			if b == it.e+1 {
				return "one-past-end" + tag
			}
			if b == it.s-1 {
				return "one-before-start" + tag
			}
		}
		if b == 0 || b == 255 {
			tag = fmt.Sprintf(":byte-%d", b)
		}
		return "outside" + tag
	}
	sp.parts = func(in string) []string {
		if len(in) < 2 {
			return nil
		}
		ps := make([]string, len(in))
		for i := range ps {
			ps[i] = in[i : i+1]
		}
		return ps
	}
	sp.wantFn = func(in string, _ bool) *want {
		v := false
		for i := 0; i < len(in); i++ {
			if !table[in[i]] {
				v = true
				break
			}
		}
		return &want{
			alts: one(v),
			text: fmt.Sprintf("some byte of %q outside the ranges %q: %v", in, arg, v),
			class: func(o *Obs, _ string) string {
				if in == "" {
					return "validateByteRange:empty-input-reported-as-violation"
				}
				// name the byte that explains the mismatch: for a missed violation the
				// first byte outside the table, for a false report the first byte.
				b := int(in[0])
				if v {
					for i := 0; i < len(in); i++ {
						if !table[in[i]] {
							b = int(in[i])
							break
						}
					}
				}
				pos := ""
				if len(in) > 1 {
					pos = ":multi-byte-input"
				}
				return "validateByteRange:" + fnfp(v) + ":" + place(b) + pos
			},
		}
	}
	return sp
}

// ---------------------------------------------------------------------------
// @validateUrlEncoding: every '%' is followed by two hexadecimal digits.

func hexDigit(b byte) bool {
	return strings.IndexByte("0123456789abcdefABCDEF", b) >= 0
}

func urlSpec(cs *Case) *spec {
	sp := &spec{family: "validateUrlEncoding"}
	sp.wantFn = func(in string, _ bool) *want {
		v := false
		why := ""
		for i := 0; i < len(in) && !v; i++ {
			if in[i] != '%' {
				continue
			}
			switch {
			case i+2 >= len(in):
				v, why = true, "truncated-escape-at-end"
			case !hexDigit(in[i+1]):
				v, why = true, "non-hex-digit-after-percent"
			case !hexDigit(in[i+2]):
				v, why = true, "non-hex-digit-after-percent"
			}
		}
		return &want{
			alts: one(v),
			text: fmt.Sprintf("%q contains an invalid %%XX escape: %v", in, v),
			class: func(o *Obs, _ string) string {
				if v {
					return "validateUrlEncoding:false-negative:" + why
				}
				switch {
				case !strings.Contains(in, "%"):
					return "validateUrlEncoding:false-positive:no-percent-sign"
				case len(in) >= 3 && in[len(in)-3] == '%':
					return "validateUrlEncoding:false-positive:valid-escape-at-the-very-end"
				}
				return "validateUrlEncoding:false-positive:valid-escape"
			},
		}
	}
	return sp
}

// ---------------------------------------------------------------------------
// @validateUtf8Encoding: RFC 3629 well-formedness, written out as a table.

// utf8Defect returns "" for well-formed input, otherwise the class of the
// first ill-formed sequence.
func utf8Defect(s string) string {
	for i := 0; i < len(s); {
		b := s[i]
		var n int
		var lo, hi byte = 0x80, 0xbf
		switch {
		case b < 0x80:
			i++
			continue
		case b < 0xc0:
			return "stray-continuation-byte"
		case b < 0xc2:
			return "overlong-2-byte-lead"
		case b <= 0xdf:
			n = 1
		case b == 0xe0:
			n, lo = 2, 0xa0
		case b == 0xed:
			n, hi = 2, 0x9f
		case b <= 0xef:
			n = 2
		case b == 0xf0:
			n, lo = 3, 0x90
		case b <= 0xf3:
			n = 3
		case b == 0xf4:
			n, hi = 3, 0x8f
		default:
			return "invalid-lead-byte"
		}
		for k := 1; k <= n; k++ {
			if i+k >= len(s) {
				return "truncated-sequence"
			}
			c := s[i+k]
			l, h := byte(0x80), byte(0xbf)
			if k == 1 {
				l, h = lo, hi
			}
			if c < l || c > h {
				if c >= 0x80 && c <= 0xbf {
					switch b {
					case 0xe0, 0xf0:
						return "overlong-encoding"
					case 0xed:
						return "surrogate"
					case 0xf4:
						return "above-10ffff"
					}
				}
				return "bad-continuation-byte"
			}
		}
		i += n + 1
	}
	return ""
}

func utf8Spec(cs *Case) *spec {
	sp := &spec{family: "validateUtf8Encoding"}
	sp.wantFn = func(in string, _ bool) *want {
		d := utf8Defect(in)
		v := d != ""
		return &want{
			alts: one(v),
			text: fmt.Sprintf("%q is ill-formed UTF-8: %v (%s)", in, v, d),
			class: func(o *Obs, _ string) string {
				if v {
					return "validateUtf8Encoding:false-negative:" + d
				}
				longest := 1
				for i := 0; i < len(in); i++ {
					switch b := in[i]; {
					case b >= 0xf0 && longest < 4:
						longest = 4
					case b >= 0xe0 && longest < 3:
						longest = 3
					case b >= 0xc0 && longest < 2:
						longest = 2
					}
				}
				return fmt.Sprintf("validateUtf8Encoding:false-positive:valid-%d-byte-sequence", longest)
			},
		}
	}
	return sp
}
