package c15

import (
	"fmt"
	"math"
	"math/big"
	"net"
	"net/netip"
	"strconv"
	"strings"
)

// ---------------------------------------------------------------------------
// dispatcher

var strOps = map[string]bool{"streq": true, "contains": true, "strmatch": true, "beginsWith": true, "endsWith": true, "within": true}
var numOps = map[string]bool{"eq": true, "ge": true, "gt": true, "le": true, "lt": true}
var pmOps = map[string]bool{"pm": true, "pmFromFile": true, "pmf": true, "pmFromDataset": true}

func specOf(cs *Case) (*spec, error) {
	switch {
	case strOps[cs.Op]:
		return strSpec(cs), nil
	case numOps[cs.Op]:
		return numSpec(cs), nil
	case pmOps[cs.Op]:
		return pmSpec(cs), nil
	case cs.Op == "ipMatch":
		return ipSpec(cs), nil
	case cs.Op == "validateByteRange":
		return vbrSpec(cs), nil
	case cs.Op == "validateUrlEncoding":
		return urlSpec(cs), nil
	case cs.Op == "validateUtf8Encoding":
		return utf8Spec(cs), nil
	case cs.Op == "rx":
		return rxSpec(cs), nil
	}
	return nil, fmt.Errorf("operator %q is outside C15", cs.Op)
}

func one(v bool) []alt { return []alt{{name: "spec", verdict: v}} }

func fnfp(expected bool) string {
	if expected {
		return "false-negative"
	}
	return "false-positive"
}

// ---------------------------------------------------------------------------
// macro arguments: the check's vocabulary is the literal text plus %{tx.k} / %{TX.k}

func effectiveArg(cs *Case) (arg string, skip string) {
	arg = string(cs.Arg)
	if !strings.Contains(arg, "%{") {
		return arg, ""
	}
	n := strings.Count(arg, "%{tx.k}") + strings.Count(arg, "%{TX.k}")
	if n != strings.Count(arg, "%{") {
		return "", "macro form outside the check's vocabulary"
	}
	if cs.TXK == nil {
		return "", "macro on an unset variable"
	}
	arg = strings.ReplaceAll(arg, "%{tx.k}", string(*cs.TXK))
	arg = strings.ReplaceAll(arg, "%{TX.k}", string(*cs.TXK))
	return arg, ""
}

// ---------------------------------------------------------------------------
// string operators: naive definitions

func naiveEq(a, b string) bool {
	if len(a) != len(b) {
		return false
	}
	for i := 0; i < len(a); i++ {
		if a[i] != b[i] {
			return false
		}
	}
	return true
}

func naivePrefix(h, n string) bool { return len(n) <= len(h) && naiveEq(h[:len(n)], n) }
func naiveSuffix(h, n string) bool { return len(n) <= len(h) && naiveEq(h[len(h)-len(n):], n) }
func naiveContains(h, n string) bool {
	for i := 0; i+len(n) <= len(h); i++ {
		if naiveEq(h[i:i+len(n)], n) {
			return true
		}
	}
	return false
}

func foldByte(b byte) byte {
	if b >= 'A' && b <= 'Z' {
		return b + 32
	}
	return b
}

func foldASCII(s string) string {
	b := []byte(s)
	for i := range b {
		b[i] = foldByte(b[i])
	}
	return string(b)
}

func eqFold(a, b string) bool {
	if len(a) != len(b) {
		return false
	}
	for i := 0; i < len(a); i++ {
		if foldByte(a[i]) != foldByte(b[i]) {
			return false
		}
	}
	return true
}

// relation of needle n to haystack h, the feature a string-operator defect is named by.
func relation(h, n string) string {
	rel := func(h, n string) string {
		switch {
		case n == "":
			return "empty-needle"
		case h == n:
			return "equal"
		case len(n) > len(h):
			return ""
		}
		p, s := naivePrefix(h, n), naiveSuffix(h, n)
		switch {
		case p && s:
			return "prefix+suffix"
		case p:
			return "prefix"
		case s:
			return "suffix"
		case naiveContains(h, n):
			return "infix"
		}
		return ""
	}
	if r := rel(h, n); r != "" {
		return r
	}
	if r := rel(foldASCII(h), foldASCII(n)); r != "" {
		return "absent-but-" + r + "-under-case-folding"
	}
	if len(n) > len(h) {
		if naiveContains(n, h) {
			return "needle-longer-and-contains-input"
		}
		return "needle-longer"
	}
	return "absent"
}

func strPredicate(op, arg, in string) bool {
	switch op {
	case "streq":
		return naiveEq(arg, in)
	case "contains", "strmatch":
		return naiveContains(in, arg)
	case "beginsWith":
		return naivePrefix(in, arg)
	case "endsWith":
		return naiveSuffix(in, arg)
	case "within":
		return naiveContains(arg, in)
	}
	panic("not a string operator: " + op)
}

func strSpec(cs *Case) *spec {
	sp := &spec{family: "string"}
	if cs.Arg == "" {
		sp.skipUnit = "empty literal argument (not constructible; not a predicate question)"
		return sp
	}
	arg, skip := effectiveArg(cs)
	if skip != "" {
		sp.skipUnit = skip
		return sp
	}
	op, raw, macro := cs.Op, string(cs.Arg), cs.TXK != nil && strings.Contains(string(cs.Arg), "%{")
	sp.wantFn = func(in string, _ bool) *want {
		v := strPredicate(op, arg, in)
		h, n := in, arg
		if op == "within" {
			h, n = arg, in
		}
		return &want{
			alts: one(v),
			text: fmt.Sprintf("@%s with effective argument %q on %q is %v", op, arg, in, v),
			class: func(o *Obs, reason string) string {
				if reason != "verdict" {
					return op + ":" + reason
				}
				if macro && strPredicate(op, raw, in) == o.Res && strPredicate(op, raw, in) != v {
					return op + ":macro-argument-not-expanded"
				}
				return op + ":" + fnfp(v) + ":" + relation(h, n)
			},
		}
	}
	return sp
}

// ---------------------------------------------------------------------------
// numeric comparisons

// strictInt accepts exactly [+-]?[0-9]+ within int64.
func strictInt(s string) (int64, bool) {
	t := s
	if t != "" && (t[0] == '+' || t[0] == '-') {
		t = t[1:]
	}
	if t == "" {
		return 0, false
	}
	for i := 0; i < len(t); i++ {
		if t[i] < '0' || t[i] > '9' {
			return 0, false
		}
	}
	v, err := strconv.ParseInt(s, 10, 64)
	if err != nil {
		return 0, false
	}
	return v, true
}

// wideInt accepts [+-]?[0-9]+ of any magnitude. It returns the exact value and
// the value saturated to the int64 range (the only two readings of a decimal
// integer that does not fit: compare exactly, or clamp it).
func wideInt(s string) (exact *big.Int, clamped int64, ok bool) {
	t := s
	if t != "" && (t[0] == '+' || t[0] == '-') {
		t = t[1:]
	}
	if t == "" {
		return nil, 0, false
	}
	for i := 0; i < len(t); i++ {
		if t[i] < '0' || t[i] > '9' {
			return nil, 0, false
		}
	}
	exact, ok = new(big.Int).SetString(s, 10)
	if !ok {
		return nil, 0, false
	}
	switch {
	case exact.Cmp(big.NewInt(math.MaxInt64)) > 0:
		clamped = math.MaxInt64
	case exact.Cmp(big.NewInt(math.MinInt64)) < 0:
		clamped = math.MinInt64
	default:
		clamped = exact.Int64()
	}
	return exact, clamped, true
}

func bigPredicate(op string, in, arg *big.Int) bool {
	c := in.Cmp(arg)
	switch op {
	case "eq":
		return c == 0
	case "ge":
		return c >= 0
	case "gt":
		return c > 0
	case "le":
		return c <= 0
	case "lt":
		return c < 0
	}
	panic("not numeric: " + op)
}

func numPredicate(op string, in, arg int64) bool {
	switch op {
	case "eq":
		return in == arg
	case "ge":
		return in >= arg
	case "gt":
		return in > arg
	case "le":
		return in <= arg
	case "lt":
		return in < arg
	}
	panic("not numeric: " + op)
}

// wideWant is the expectation when an operand is a decimal integer that does
// not fit in int64: the exact comparison and the comparison of the saturated
// values are the two defensible readings; the case is asserted when they agree.
func wideWant(op, in string, aExact *big.Int, aClamped int64) *want {
	xExact, xClamped, ok := wideInt(in)
	if !ok {
		return &want{skip: "numeric operator with a non-integer input (conversion undocumented)"}
	}
	exact, clamped := bigPredicate(op, xExact, aExact), numPredicate(op, xClamped, aClamped)
	if exact != clamped {
		return &want{skip: "integer beyond the 64-bit range: exact and saturated comparison disagree (conversion undocumented)"}
	}
	return &want{
		alts:  one(exact),
		text:  fmt.Sprintf("@%s: input %s against parameter %s is %v (exact and saturated comparison agree)", op, xExact, aExact, exact),
		class: func(o *Obs, reason string) string { return op + ":operand-beyond-int64" },
	}
}

func numSpec(cs *Case) *spec {
	sp := &spec{family: "numeric"}
	if cs.Arg == "" {
		sp.skipUnit = "empty literal argument (not constructible; not a predicate question)"
		return sp
	}
	arg, skip := effectiveArg(cs)
	if skip != "" {
		sp.skipUnit = skip
		return sp
	}
	a, ok := strictInt(arg)
	op := cs.Op
	if !ok {
		aExact, aClamped, wide := wideInt(arg)
		if !wide {
			sp.skipUnit = "numeric operator with a non-integer parameter (conversion undocumented)"
			return sp
		}
		// a decimal integer beyond int64: asserted when comparing exactly and clamping agree
		sp.wantFn = func(in string, _ bool) *want { return wideWant(op, in, aExact, aClamped) }
		return sp
	}
	sp.wantFn = func(in string, _ bool) *want {
		x, ok := strictInt(in)
		if !ok {
			if _, _, wide := wideInt(in); wide {
				return wideWant(op, in, big.NewInt(a), a)
			}
			return &want{skip: "numeric operator with a non-integer input (conversion undocumented)"}
		}
		v := numPredicate(op, x, a)
		return &want{
			alts: one(v),
			text: fmt.Sprintf("@%s: input %d against parameter %d is %v", op, x, a, v),
			class: func(o *Obs, reason string) string {
				rel := "input-equals-parameter"
				if x < a {
					rel = "input-below-parameter"
				} else if x > a {
					rel = "input-above-parameter"
				}
				if x > 1<<31-1 || a > 1<<31-1 || x < -1<<31 || a < -1<<31 {
					return op + ":operand-beyond-int32"
				}
				form := ""
				if x < 0 || a < 0 {
					form = ":negative-operand"
				}
				if strconv.FormatInt(x, 10) != in || strconv.FormatInt(a, 10) != arg {
					form += ":non-canonical-numeral"
				}
				return op + ":" + fnfp(v) + ":" + rel + form
			},
		}
	}
	return sp
}

// ---------------------------------------------------------------------------
// @ipMatch

type ipItem struct {
	pfx    netip.Prefix
	bare   bool
	spaced bool
	host   bool // host bits set in the written address
}

func parseIPItem(s string) (ipItem, bool) {
	it := ipItem{}
	t := strings.TrimSpace(s)
	it.spaced = t != s
	if t == "" {
		return it, false
	}
	if !strings.Contains(t, "/") {
		a, err := netip.ParseAddr(t)
		if err != nil || a.Zone() != "" {
			return it, false
		}
		it.bare = true
		it.pfx = netip.PrefixFrom(a, a.BitLen())
		return it, true
	}
	p, err := netip.ParsePrefix(t)
	if err != nil {
		return it, false
	}
	it.host = p.Masked() != p
	it.pfx = p.Masked()
	return it, true
}

func ipSpec(cs *Case) *spec {
	sp := &spec{family: "ipMatch"}
	var items []ipItem
	mapped := false
	for _, s := range strings.Split(string(cs.Arg), ",") {
		it, ok := parseIPItem(s)
		if !ok {
			sp.skipUnit = "list with an item that is not an address or CIDR block (handling undocumented)"
			return sp
		}
		if it.pfx.Addr().Is4In6() {
			// which family an IPv4-mapped item belongs to is undocumented: only inputs that are
			// neither IPv4 nor IPv4-mapped are asserted against such a list
			mapped = true
		}
		items = append(items, it)
	}
	sp.wantFn = func(in string, _ bool) *want {
		a, err := netip.ParseAddr(in)
		if err != nil {
			// not an address. Texts some parsers accept are left unasserted.
			if t := strings.TrimSpace(in); t != in || looksLikeLooseIP(in) {
				return &want{skip: "input that only a lenient parser reads as an address"}
			}
			return &want{alts: one(false), text: fmt.Sprintf("%q is not an IP address: no match", in),
				class: func(*Obs, string) string { return "ipMatch:false-positive:input-not-an-address" }}
		}
		if a.Zone() != "" {
			return &want{skip: "zoned IPv6 input (undocumented)"}
		}
		if a.Is4In6() || (mapped && a.Is4()) {
			// IPv4-mapped notation on either side: the property names net.IPNet as the definition of CIDR
			// membership (it reads ::ffff:a.b.c.d as the IPv4 address a.b.c.d)
			v := false
			ip := net.ParseIP(in)
			for _, s := range strings.Split(string(cs.Arg), ",") {
				t := strings.TrimSpace(s)
				if !strings.Contains(t, "/") {
					if strings.Contains(t, ":") {
						t += "/128"
					} else {
						t += "/32"
					}
				}
				if _, n, err := net.ParseCIDR(t); err == nil && n.Contains(ip) {
					v = true
				}
			}
			return &want{alts: one(v), text: fmt.Sprintf("net.IPNet membership of %s in %q is %v", in, string(cs.Arg), v),
				class: func(*Obs, string) string {
					if v {
						return "ipMatch:false-negative:ipv4-mapped-notation"
					}
					return "ipMatch:false-positive:ipv4-mapped-notation"
				}}
		}
		v := false
		var hit ipItem
		for _, it := range items {
			if it.pfx.Addr().Is4() == a.Is4() && it.pfx.Contains(a) {
				v, hit = true, it
				break
			}
		}
		return &want{
			alts: one(v),
			text: fmt.Sprintf("membership of %s in %q is %v", a, string(cs.Arg), v),
			class: func(o *Obs, _ string) string {
				fam := "v6"
				if a.Is4() {
					fam = "v4"
				}
				if !v {
					return "ipMatch:false-positive:" + fam
				}
				k := "cidr"
				switch {
				case hit.bare:
					k = "bare-address"
				case hit.pfx.Bits() == hit.pfx.Addr().BitLen():
					k = "full-length-prefix"
				case hit.host:
					k = "cidr-with-host-bits"
				}
				if hit.spaced {
					k += "-after-space"
				}
				if len(items) > 1 {
					k += ":in-list"
				}
				return "ipMatch:false-negative:" + fam + ":" + k
			},
		}
	}
	return sp
}

// looksLikeLooseIP: dotted quads with leading zeros and the like, which some
// parsers accept and netip does not.
func looksLikeLooseIP(s string) bool {
	parts := strings.Split(s, ".")
	if len(parts) != 4 {
		return false
	}
	for _, p := range parts {
		if p == "" || len(p) > 4 {
			return false
		}
		for i := 0; i < len(p); i++ {
			if p[i] < '0' || p[i] > '9' {
				return false
			}
		}
		if n, _ := strconv.Atoi(p); n > 255 {
			return false
		}
	}
	return true
}
