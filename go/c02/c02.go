// Package c02 decides C02: first disruptive match interrupts, the
// interruption is final, engine modes hold, phases run at most once
// (DESIGN.md §3 C02).
package c02

import (
	"bytes"
	"encoding/json"
	"fmt"
	"sort"
	"strconv"
	"strings"
	"time"

	coraza "github.com/corazawaf/coraza/v3"
	"github.com/corazawaf/coraza/v3/experimental/plugins/plugintypes"
	"github.com/corazawaf/coraza/v3/internal/verif/bfs"
	"github.com/corazawaf/coraza/v3/internal/verif/probe"
	"github.com/corazawaf/coraza/v3/internal/verif/runner"
	"github.com/corazawaf/coraza/v3/internal/verif/scen"
	"github.com/corazawaf/coraza/v3/internal/verif/vrt"
	"github.com/corazawaf/coraza/v3/types"
)

func init() {
	runner.Register(&runner.Check{
		ID:    "C02",
		Level: "model_checking",
		Rule: "configuration = engine {On, DetectionOnly, Off} x optional phase-1 ctl:ruleEngine switch x first disruptive rule (deny / deny+status / drop / redirect / block via SecDefaultAction) in phase {none,1..4} x a later second disruptive rule x body-limit action {Reject, ProcessPartial} with 4-byte limits; " +
			"every phase carries a counter rule before and after the disruptive rules. Breadth-first search over all sequences of 15 Transaction API calls (ProcessResponseHeaders with a final and with an informational status) up to the depth bound; a state is a call history replayed on a fresh transaction, deduplicated by a canonical key of all public observations (counters, interruption, last phase, buffered lengths, matched rules, full variable dump); " +
			"invariants of the property are evaluated on every transition.",
		Assumptions: []string{
			"state key = interruption, last phase, engine-off flag, buffered lengths, matched rules, body-access flags, the whole TX collection and every variable the 14 calls of the alphabet can write; two histories with equal keys are assumed to have equal futures (the key is deliberately finer than the guards of transaction.go need)",
			"calls after Close and concurrent calls on one transaction are excluded by the property",
			"disruptive rules are generated for phases 1-4 only (a disruptive action in the logging phase cannot block by documentation)",
		},
		Run:    run,
		Replay: replay,
	})
}

type cfg struct {
	Engine  string `json:"engine"`
	Ctl     string `json:"ctl,omitempty"`
	D1Phase int    `json:"d1_phase,omitempty"`
	D1Kind  string `json:"d1_kind,omitempty"`
	D2Phase int    `json:"d2_phase,omitempty"`
	Limit   string `json:"limit_action"`
	D0      bool   `json:"d0,omitempty"` // a deny rule (id 200) in phase 1 *before* the ctl switch
	// BadBody: the JSON body processor is selected, every body the history writes is rejected by it
	BadBody bool `json:"bad_body,omitempty"`
}

type kase struct {
	Cfg  cfg   `json:"cfg"`
	Hist []int `json:"history"`
}

var opNames = []string{"ProcessConnection", "ProcessURI", "AddRequestHeader", "ProcessRequestHeaders", "WriteRequestBody(2)", "WriteRequestBody(5)", "ReadRequestBodyFrom(3)", "ProcessRequestBody",
	"AddResponseHeader", "ProcessResponseHeaders", "WriteResponseBody(2)", "WriteResponseBody(5)", "ProcessResponseBody", "ProcessLogging", "ProcessResponseHeaders(103)"}

const (
	opPC = iota
	opURI
	opAH
	opP1
	opW2
	opW5
	opR3
	opP2
	opARH
	opP3
	opWR2
	opWR5
	opP4
	opP5
	opP3i // ProcessResponseHeaders with an informational status
)

func (c cfg) conf() string {
	var sb strings.Builder
	fmt.Fprintf(&sb, "SecRuleEngine %s\nSecRequestBodyAccess On\nSecRequestBodyLimit 4\nSecRequestBodyInMemoryLimit 4\nSecRequestBodyLimitAction %s\n", c.Engine, c.Limit)
	fmt.Fprintf(&sb, "SecResponseBodyAccess On\nSecResponseBodyLimit 4\nSecResponseBodyLimitAction %s\nSecResponseBodyMimeType text/plain\n", c.Limit)
	for p := 1; p <= 5; p++ {
		if c.D1Kind == "block" && c.D1Phase == p {
			fmt.Fprintf(&sb, "SecDefaultAction \"phase:%d,log,auditlog,deny,status:403\"\n", p)
		}
		fmt.Fprintf(&sb, "SecAction \"id:%d,phase:%d,pass,nolog,setvar:tx.p%d=+1\"\n", 100+p, p, p)
		if p == 1 && c.D0 {
			sb.WriteString("SecAction \"id:200,phase:1,log,deny,status:402\"\n")
		}
		if p == 1 && c.BadBody {
			sb.WriteString("SecAction \"id:160,phase:1,pass,nolog,ctl:requestBodyProcessor=JSON\"\n")
		}
		if p == 1 && c.Ctl != "" {
			fmt.Fprintf(&sb, "SecAction \"id:150,phase:1,pass,nolog,ctl:ruleEngine=%s\"\n", c.Ctl)
		}
		if c.D1Phase == p {
			a := map[string]string{"deny": "deny", "deny500": "deny,status:500", "drop": "drop", "redirect": "redirect:http://x/", "redirect301": "redirect:http://x/,status:301", "block": "block"}[c.D1Kind]
			fmt.Fprintf(&sb, "SecAction \"id:201,phase:%d,log,%s\"\n", p, a)
		}
		if c.D2Phase == p {
			fmt.Fprintf(&sb, "SecAction \"id:202,phase:%d,log,deny,status:501\"\n", p)
		}
		fmt.Fprintf(&sb, "SecAction \"id:%d,phase:%d,pass,nolog,setvar:tx.q%d=+1\"\n", 300+p, p, p)
	}
	return sb.String()
}

func (c cfg) expectedD1() string {
	switch c.D1Kind {
	case "deny", "block":
		return "{rule=201 action=deny status=403 data=\"\"}"
	case "deny500":
		return "{rule=201 action=deny status=500 data=\"\"}"
	case "drop":
		return "{rule=201 action=drop status=0 data=\"\"}"
	case "redirect":
		return "{rule=201 action=redirect status=302 data=\"http://x/\"}"
	case "redirect301":
		// the rule's own status, wherever in the action list it is written
		return "{rule=201 action=redirect status=301 data=\"http://x/\"}"
	}
	return ""
}

type obs struct {
	P, Q    [6]int
	Itr     string
	Last    int
	ReqLen  int
	RespLen int
	Matched []int
	Off     bool
	key     string
}

func observe(tx types.Transaction) obs {
	var o obs
	saved := vrt.MapOrderOff
	vrt.MapOrderOff = true
	defer func() { vrt.MapOrderOff = saved }()
	tv := tx.(plugintypes.TransactionState).Variables()
	var txd []string
	for _, md := range tv.TX().FindAll() {
		k, v := md.Key(), md.Value()
		txd = append(txd, k+"="+v)
		if len(k) == 2 && (k[0] == 'p' || k[0] == 'q') {
			n, _ := strconv.Atoi(v)
			i := int(k[1] - '0')
			if i >= 1 && i <= 5 {
				if k[0] == 'p' {
					o.P[i] = n
				} else {
					o.Q[i] = n
				}
			}
		}
	}
	sort.Strings(txd)
	o.Itr = probe.Itr(tx.Interruption())
	o.Last = int(tx.(plugintypes.TransactionState).LastPhase())
	o.Off = tx.IsRuleEngineOff()
	if r, err := tx.RequestBodyReader(); err == nil {
		var b bytes.Buffer
		_, _ = b.ReadFrom(r)
		o.ReqLen = b.Len()
	}
	if r, err := tx.ResponseBodyReader(); err == nil {
		var b bytes.Buffer
		_, _ = b.ReadFrom(r)
		o.RespLen = b.Len()
	}
	for _, m := range tx.MatchedRules() {
		o.Matched = append(o.Matched, m.Rule().ID())
	}
	// canonical key: every variable the 14 calls of the alphabet can influence
	o.key = fmt.Sprintf("itr=%s last=%d off=%v req=%d resp=%d matched=%v accessible=%v/%v processable=%v tx=%q addr=%q uri=%q rh=%d rsh=%d body=%q rbody=%q in=%q out=%q status=%q rbe=%q rct=%q",
		o.Itr, o.Last, o.Off, o.ReqLen, o.RespLen, o.Matched, tx.IsRequestBodyAccessible(), tx.IsResponseBodyAccessible(), tx.IsResponseBodyProcessable(), txd,
		tv.RemoteAddr().Get(), tv.RequestURI().Get(), len(tv.RequestHeaders().FindAll()), len(tv.ResponseHeaders().FindAll()), tv.RequestBody().Get(), tv.ResponseBody().Get(),
		tv.InboundDataError().Get(), tv.OutboundDataError().Get(), tv.ResponseStatus().Get(), tv.RequestBodyError().Get(), tv.ResponseContentType().Get())
	return o
}

type plainReader struct{ b []byte }

func (p *plainReader) Read(b []byte) (int, error) {
	if len(p.b) == 0 {
		return 0, fmt.Errorf("EOF")
	}
	n := copy(b, p.b)
	p.b = p.b[n:]
	return n, nil
}

// apply performs one API call and renders what it returned; phase tells
// whether it is a Process* phase call.
func apply(tx types.Transaction, op int) (ret string, isPhase bool) {
	r := func(it *types.Interruption, err error) string {
		s := probe.Itr(it)
		if err != nil {
			s += " err=" + err.Error()
		}
		return s
	}
	switch op {
	case opPC:
		tx.ProcessConnection("10.0.0.1", 1, "10.0.0.2", 80)
	case opURI:
		tx.ProcessURI("/p?a=1", "POST", "HTTP/1.1")
	case opAH:
		tx.AddRequestHeader("Content-Type", "text/plain")
	case opP1:
		return r(tx.ProcessRequestHeaders(), nil), true
	case opW2:
		it, _, err := tx.WriteRequestBody([]byte("ab"))
		return r(it, err), false
	case opW5:
		it, _, err := tx.WriteRequestBody([]byte("abcde"))
		return r(it, err), false
	case opR3:
		it, _, err := tx.ReadRequestBodyFrom(strings.NewReader("abc"))
		return r(it, err), false
	case opP2:
		it, err := tx.ProcessRequestBody()
		return r(it, err), true
	case opARH:
		tx.AddResponseHeader("Content-Type", "text/plain")
	case opP3:
		return r(tx.ProcessResponseHeaders(200, "HTTP/1.1"), nil), true
	case opWR2:
		it, _, err := tx.WriteResponseBody([]byte("ab"))
		return r(it, err), false
	case opWR5:
		it, _, err := tx.WriteResponseBody([]byte("abcde"))
		return r(it, err), false
	case opP4:
		it, err := tx.ProcessResponseBody()
		return r(it, err), true
	case opP5:
		tx.ProcessLogging()
	case opP3i:
		return r(tx.ProcessResponseHeaders(103, "HTTP/1.1"), nil), true
	}
	return "", false
}

func isReqWrite(op int) bool  { return op == opW2 || op == opW5 || op == opR3 }
func isRespWrite(op int) bool { return op == opWR2 || op == opWR5 }

// eff is the engine mode in force once the observed phases have run.
func (c cfg) eff(o obs) string {
	if c.D0 && c.Engine == "On" {
		return "On" // rule 200 interrupts before the ctl rule is reached
	}
	if c.Ctl != "" && o.P[1] >= 1 {
		return c.Ctl
	}
	return c.Engine
}

// invariants checks one transition; returns "" or (signature, text).
func (c cfg) invariants(pre obs, op int, ret string, isPhase bool, post obs) (string, string) {
	bad := func(sig, f string, a ...any) (string, string) { return sig, fmt.Sprintf(f, a...) }
	// (v) every request/response phase at most once, counters monotone
	for p := 1; p <= 5; p++ {
		if post.P[p] < pre.P[p] || post.Q[p] < pre.Q[p] {
			return bad("counter-decreased", "counter of phase %d decreased", p)
		}
		if p <= 4 && (post.P[p] > 1 || post.Q[p] > 1) {
			return bad(fmt.Sprintf("phase-%d-evaluated-twice", p), "rules of phase %d evaluated %d times", p, post.P[p])
		}
	}
	// (iv) engine Off: nothing is evaluated
	if c.Engine == "Off" {
		for p := 1; p <= 5; p++ {
			if post.P[p] != 0 {
				return bad("rule-evaluated-with-engine-off", "engine Off but the phase %d counter moved", p)
			}
		}
		if post.Itr != "-" || (ret != "" && !strings.HasPrefix(ret, "-")) {
			return bad("interruption-with-engine-off", "engine Off but interruption %s / return %s", post.Itr, ret)
		}
		return "", ""
	}
	effPre := c.eff(pre)
	// the mode in force while this call's rules run: a phase-1 ctl switch takes effect inside ProcessRequestHeaders
	effDuring := effPre
	if op == opP1 {
		effDuring = c.eff(post)
	}
	// (iii) DetectionOnly: no call returns or records an interruption
	if effDuring == "DetectionOnly" && effPre != "Off" && pre.Itr == "-" {
		if post.Itr != "-" || (ret != "" && !strings.HasPrefix(ret, "-")) {
			return bad("interruption-in-detection-only:"+opClass(op), "engine is DetectionOnly (configured %s, ctl %q) but %s returned %q and Interruption()=%s", c.Engine, c.Ctl, opNames[op], ret, post.Itr)
		}
	}
	if effPre == "Off" && pre.P[1] >= 1 {
		// switched off by ctl in phase 1: later phases evaluate nothing
		for p := 2; p <= 5; p++ {
			if post.P[p] != pre.P[p] {
				return bad("rule-evaluated-after-ctl-off", "ctl:ruleEngine=Off ran in phase 1 but the phase %d counter moved", p)
			}
		}
	}
	// (ii) finality
	if pre.Itr != "-" {
		if post.Itr != pre.Itr {
			return bad("interruption-changed", "interruption was %s, after %s it is %s", pre.Itr, opNames[op], post.Itr)
		}
		for p := 1; p <= 4; p++ {
			if post.P[p] != pre.P[p] || post.Q[p] != pre.Q[p] {
				return bad("rules-evaluated-after-interruption", "already interrupted (%s) but %s evaluated rules of phase %d", pre.Itr, opNames[op], p)
			}
		}
		if isPhase && !strings.HasPrefix(ret, pre.Itr) {
			return bad("phase-call-does-not-report-interruption", "already interrupted (%s) but %s returned %q", pre.Itr, opNames[op], ret)
		}
		if op == opP5 && post.P[5] != pre.P[5]+1 {
			return bad("logging-phase-not-run-after-interruption", "interrupted transaction: ProcessLogging did not evaluate the logging-phase rules")
		}
		return "", ""
	}
	// phase calls report Interruption()
	if isPhase && !strings.HasPrefix(ret, post.Itr) {
		return bad("phase-call-return-differs-from-Interruption", "%s returned %q but Interruption()=%s", opNames[op], ret, post.Itr)
	}
	// (i) the first disruptive match interrupts with that rule's id/action/status/data
	for p := 1; p <= 4; p++ {
		if pre.P[p] == 0 && post.P[p] == 1 {
			effAt := effPre
			if p == 1 && c.Ctl != "" {
				effAt = c.Ctl
			}
			if p == 1 && c.D0 && c.Engine == "On" {
				want := "{rule=200 action=deny status=402 data=\"\"}"
				if post.Itr != want {
					return bad("wrong-or-missing-interruption:first-rule-before-ctl", "phase 1 evaluated with deny rule 200 first and engine On: Interruption()=%s, expected %s", post.Itr, want)
				}
				if post.Q[1] != 0 || contains(post.Matched, 201) || contains(post.Matched, 202) || contains(post.Matched, 150) {
					return bad("rules-evaluated-after-interruption-in-phase", "phase 1: rules after the interrupting rule 200 were evaluated (matched=%v)", post.Matched)
				}
			} else if c.D1Phase == p && effAt == "On" {
				if post.Itr != c.expectedD1() {
					return bad("wrong-or-missing-interruption:"+c.D1Kind, "phase %d evaluated with rule 201 (%s) and engine On: Interruption()=%s, expected %s", p, c.D1Kind, post.Itr, c.expectedD1())
				}
				if post.Q[p] != 0 || contains(post.Matched, 202) {
					return bad("rules-evaluated-after-interruption-in-phase", "phase %d: rules after the interrupting rule were evaluated (matched=%v)", p, post.Matched)
				}
			} else if c.D2Phase == p && effAt == "On" && c.D1Phase != p {
				if !strings.HasPrefix(post.Itr, "{rule=202 ") {
					return bad("wrong-or-missing-interruption:second", "phase %d evaluated with rule 202 and engine On: Interruption()=%s", p, post.Itr)
				}
			} else if post.Itr != "-" && !(c.Limit == "Reject" && effAt == "On") {
				return bad("unexpected-interruption", "phase %d has no disruptive rule in force but Interruption()=%s", p, post.Itr)
			}
		}
	}
	// a new interruption must have a documented origin
	if post.Itr != "-" {
		fromRule := strings.HasPrefix(post.Itr, "{rule=201 ") || strings.HasPrefix(post.Itr, "{rule=202 ") || (c.D0 && strings.HasPrefix(post.Itr, "{rule=200 "))
		fromLimit := (isReqWrite(op) && post.Itr == "{rule=0 action=deny status=413 data=\"\"}") || (isRespWrite(op) && post.Itr == "{rule=0 action=deny status=500 data=\"\"}")
		if !fromRule && !(fromLimit && c.Limit == "Reject") {
			return bad("interruption-of-unknown-origin", "%s produced %s", opNames[op], post.Itr)
		}
	}
	return "", ""
}

func opClass(op int) string {
	switch {
	case isReqWrite(op):
		return "request-body-write"
	case isRespWrite(op):
		return "response-body-write"
	}
	return "phase-call"
}

func contains(xs []int, x int) bool {
	for _, v := range xs {
		if v == x {
			return true
		}
	}
	return false
}

func configs(thorough bool, emit func(c cfg)) {
	kinds := []string{"deny", "redirect", "redirect301", "block"}
	if thorough {
		kinds = []string{"deny", "deny500", "drop", "redirect", "redirect301", "block"}
	}
	for _, e := range []string{"On", "DetectionOnly", "Off"} {
		for _, ctl := range []string{"", "On", "DetectionOnly", "Off"} {
			if ctl == e || (e == "Off" && ctl != "") {
				continue
			}
			if !thorough && ctl == "Off" && e != "On" {
				continue
			}
			for _, lim := range []string{"Reject", "ProcessPartial"} {
				emit(cfg{Engine: e, Ctl: ctl, Limit: lim})
				if ctl == "" && e != "Off" {
					// the body processor fails on the body: the phase still runs once, a later deny still interrupts
					emit(cfg{Engine: e, Limit: lim, BadBody: true})
					emit(cfg{Engine: e, Limit: lim, BadBody: true, D1Phase: 2, D1Kind: "deny", D2Phase: 3})
				}
				if lim == "Reject" && e != "Off" {
					// a disruptive rule before the switch: would-be interruption in DetectionOnly, real one in On
					emit(cfg{Engine: e, Ctl: ctl, Limit: lim, D0: true})
					emit(cfg{Engine: e, Ctl: ctl, Limit: lim, D0: true, D1Phase: 1, D1Kind: "deny", D2Phase: 2})
					emit(cfg{Engine: e, Ctl: ctl, Limit: lim, D0: true, D1Phase: 2, D1Kind: "deny", D2Phase: 2})
				}
				for dp := 1; dp <= 4; dp++ {
					for ki, k := range kinds {
						if !thorough && ((dp+ki)%3 != 0 || ctl != "") && k != "deny" {
							continue
						}
						if !thorough && lim == "ProcessPartial" && ctl != "" && dp > 2 {
							continue
						}
						emit(cfg{Engine: e, Ctl: ctl, Limit: lim, D1Phase: dp, D1Kind: k, D2Phase: dp})
						if dp < 4 && (thorough || k == "deny") {
							emit(cfg{Engine: e, Ctl: ctl, Limit: lim, D1Phase: dp, D1Kind: k, D2Phase: dp + 1})
						}
					}
				}
			}
		}
	}
}

// execute replays hist on a fresh transaction, checking the invariants on the
// last transition. Returns the canonical key of the reached state.
func execute(w coraza.WAF, c cfg, hist []int, checkAll bool, report func(sig, text string)) (key string, pan string) {
	var tx types.Transaction
	pan = probe.Safe(func() {
		tx = w.NewTransaction()
		var pre obs
		if checkAll || len(hist) <= 1 {
			pre = observe(tx)
		}
		for i, op := range hist {
			last := i == len(hist)-1
			if !checkAll && i == len(hist)-2 {
				_, _ = apply(tx, op)
				pre = observe(tx)
				continue
			}
			ret, isPhase := apply(tx, op)
			if !checkAll && !last {
				continue
			}
			post := observe(tx)
			if sig, text := c.invariants(pre, op, ret, isPhase, post); sig != "" {
				report(sig, text)
			}
			pre = post
		}
		key = pre.key
	})
	if tx != nil {
		_ = probe.Safe(func() { tx.Close() })
	}
	if pan != "" {
		report("panic:"+pan, "panic: "+pan)
		key = "PANIC " + pan
	}
	return key, pan
}

func histNames(h []int) []string {
	out := make([]string, len(h))
	for i, op := range h {
		out[i] = opNames[op]
	}
	return out
}

func run(c *runner.Ctx) {
	depth := 5
	if c.Thorough() {
		depth = 7
	}
	idx := 0
	configs(c.Thorough(), func(cf cfg) {
		idx++
		if !c.Mine(idx) || c.Expired() {
			return
		}
		conf := cf.conf()
		w, err := scen.Build(conf)
		if err != nil {
			c.Violation("build:"+err.Error(), "generated configuration rejected: "+err.Error()+"\n"+conf, kase{Cfg: cf})
			return
		}
		defer scen.Close(w)
		retVectors := map[string]bool{}
		res := bfs.Search(len(opNames), depth, 200000, func(h []int) (string, bool) {
			stopWatch := c.Watch("call-history", kase{cf, append([]int{}, h...)}, 2*time.Minute)
			defer stopWatch()
			key, pan := execute(w, cf, h, false, func(sig, text string) {
				c.Violation(sig, fmt.Sprintf("configuration:\n%scall history: %v\n%s", conf, histNames(h), text), kase{cf, append([]int{}, h...)})
			})
			retVectors[key] = true
			return key, pan == "" && !c.Expired()
		})
		c.Count("states", int64(res.States))
		c.Count("transitions", int64(res.Transitions))
		c.Count("traces_validated_against_impl", int64(res.Transitions))
		c.Count("evaluations", int64(res.Transitions))
		c.Count("configurations", 1)
		if res.Capped {
			c.Incomplete("state cap hit")
		}
		b, _ := json.Marshal(cf)
		c.Distinct(string(b))
		for k := range retVectors {
			c.Outcome(k)
		}
		if c.WantSample() {
			c.Sample(map[string]any{"configuration": conf, "depth": res.Depth, "states": res.States, "transitions": res.Transitions, "example_history": histNames([]int{opURI, opP1, opW5, opP2, opP5})})
		}
	})
	c.Extra("depth_bound", depth)
	c.Extra("call_alphabet", opNames)
}

func replay(raw json.RawMessage) (bool, string) {
	var k kase
	if err := json.Unmarshal(raw, &k); err != nil {
		return false, err.Error()
	}
	conf := k.Cfg.conf()
	w, err := scen.Build(conf)
	if err != nil {
		return true, "build: " + err.Error()
	}
	defer scen.Close(w)
	var sb strings.Builder
	fmt.Fprintf(&sb, "configuration:\n%scall history: %v\n", conf, histNames(k.Hist))
	viol := false
	execute(w, k.Cfg, k.Hist, true, func(sig, text string) {
		viol = true
		fmt.Fprintf(&sb, "VIOLATED %s: %s\n", sig, text)
	})
	return viol, sb.String()
}
