// Package auditcap registers an in-memory audit log writer ("verifcap")
// through the public plugin API and renders each record canonically
// (volatile fields masked).
package auditcap

import (
	"fmt"
	"sort"
	"strings"
	"sync"

	"github.com/corazawaf/coraza/v3/experimental/plugins"
	"github.com/corazawaf/coraza/v3/experimental/plugins/plugintypes"
)

var (
	mu      sync.Mutex
	records []string
)

// Take returns and clears the captured records.
func Take() []string {
	mu.Lock()
	defer mu.Unlock()
	r := records
	records = nil
	return r
}

type writer struct{}

func (writer) Init(plugintypes.AuditLogConfig) error { return nil }
func (writer) Close() error                           { return nil }
func (writer) Write(al plugintypes.AuditLog) error {
	s := Render(al)
	mu.Lock()
	records = append(records, s)
	mu.Unlock()
	return nil
}

func hdrs(h map[string][]string) string {
	var ks []string
	for k, vs := range h {
		c := append([]string{}, vs...)
		sort.Strings(c)
		ks = append(ks, fmt.Sprintf("%s=%q", k, c))
	}
	sort.Strings(ks)
	return strings.Join(ks, ";")
}

// Render is the canonical text of an audit record.
func Render(al plugintypes.AuditLog) (out string) {
	var sb strings.Builder
	defer func() {
		if r := recover(); r != nil {
			out = sb.String() + fmt.Sprintf(" RENDER-PANIC %v", r)
		}
	}()
	fmt.Fprintf(&sb, "parts=%s", string(al.Parts()))
	t := al.Transaction()
	if t != nil {
		fmt.Fprintf(&sb, " client=%s:%d host=%s:%d interrupted=%v", t.ClientIP(), t.ClientPort(), t.HostIP(), t.HostPort(), t.IsInterrupted())
		if t.HasRequest() {
			r := t.Request()
			fmt.Fprintf(&sb, " req{%s %s %s hdr[%s] body=%q}", r.Method(), r.URI(), r.Protocol(), hdrs(r.Headers()), r.Body())
		}
		if t.HasResponse() {
			r := t.Response()
			fmt.Fprintf(&sb, " resp{%d hdr[%s] body=%q}", r.Status(), hdrs(r.Headers()), r.Body())
		}
		if p := t.Producer(); p != nil {
			fmt.Fprintf(&sb, " engine=%s", p.RuleEngine())
		}
	}
	for _, m := range al.Messages() {
		if d := m.Data(); d != nil {
			fmt.Fprintf(&sb, " msg{id=%d msg=%q data=%q}", d.ID(), d.Msg(), d.Data())
		} else {
			sb.WriteString(" msg{}")
		}
	}
	return sb.String()
}

func init() {
	plugins.RegisterAuditLogWriter("verifcap", func() plugintypes.AuditLogWriter { return writer{} })
}
