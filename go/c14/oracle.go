package c14

import (
	"crypto/md5"
	"crypto/sha1"
	"encoding/hex"
	"fmt"
	"regexp"
	"strconv"
	"strings"
	"unicode/utf8"
	"unsafe"

	"github.com/corazawaf/coraza/v3/experimental/plugins/plugintypes"
	"github.com/corazawaf/coraza/v3/internal/verif/probe"
	"github.com/corazawaf/coraza/v3/internal/verif/runner"
)

const distinctPerWorker = 60000

var lastSampled string

// checker evaluates one transformation on a stream of inputs.
type checker struct {
	name string
	f    plugintypes.Transformation
	sink sink
	rc   *runner.Ctx // nil during replay
	safe bool        // recover around every single call

	// identity partners / definitions
	inverse     plugintypes.Transformation // decoder to apply after this encoder
	inverseName string
	definition  func(in string) (string, bool) // expected output, ok=false: not specified for this input
	idempotent  bool

	// state for the shared-buffer test
	havePrev bool
	prevIn   []byte
	prevOut  string
	prevCopy []byte

	seen [64]bool // outcome classes already reported

	// local counters, committed after the unit
	n, nontrivial, errs, skipped, calls int64
}

func newChecker(name string, f plugintypes.Transformation, s sink) *checker {
	k := &checker{name: name, f: f, sink: s}
	if rc, ok := s.(*runner.Ctx); ok {
		k.rc = rc
	}
	switch strings.ToLower(name) {
	case "hexencode":
		k.inverse, k.inverseName = mustGet("hexDecode"), "hexDecode"
	case "base64encode":
		k.inverse, k.inverseName = mustGet("base64Decode"), "base64Decode"
	case "urlencode":
		k.inverse, k.inverseName = mustGet("urlDecode"), "urlDecode"
	case "md5":
		k.definition = func(in string) (string, bool) { s := md5.Sum([]byte(in)); return string(s[:]), true }
	case "sha1":
		k.definition = func(in string) (string, bool) { s := sha1.Sum([]byte(in)); return string(s[:]), true }
	case "length":
		k.definition = func(in string) (string, bool) { return strconv.Itoa(len(in)), true }
	case "lowercase":
		k.definition = func(in string) (string, bool) { return asciiFold(in, 'A', 'Z', 'a'-'A') }
	case "uppercase":
		k.definition = func(in string) (string, bool) { return asciiFold(in, 'a', 'z', -('a' - 'A')) }
	case "trim", "trimleft", "trimright", "removewhitespace", "removenulls", "compresswhitespace":
		k.idempotent = true
	}
	return k
}

// heapString returns a copy of b that lives in writable heap memory of its
// own (string(b) serves one-byte strings from a read-only table), so that a
// transformation writing through an unsafe cast modifies something observable
// instead of faulting.
func heapString(b []byte) string {
	if len(b) == 0 {
		return ""
	}
	c := make([]byte, len(b), len(b)+1)
	copy(c, b)
	return unsafe.String(&c[0], len(c))
}

func asciiFold(in string, lo, hi byte, delta int) (string, bool) {
	b := []byte(in)
	for i, c := range b {
		if c >= utf8.RuneSelf {
			return "", false
		}
		if c >= lo && c <= hi {
			b[i] = byte(int(c) + delta)
		}
	}
	return string(b), true
}

func (k *checker) commit(c *runner.Ctx) {
	c.Count("evaluations", k.n)
	c.Count("direct_cases", k.n)
	c.Count("transformation_calls", k.calls)
	c.Count("nontrivial_cases", k.nontrivial)
	c.Count("returned_error", k.errs)
	c.Count("skipped_unspecified", k.skipped)
}

// runUnit evaluates every input of one chunk. The fast path has no recover
// per call; when a panic escapes, the chunk is evaluated again with one.
func (k *checker) runUnit(sp space, chunk int) {
	if !k.safe {
		p := probe.Safe(func() { sp.gen(chunk, k.eval) })
		if p == "" {
			return
		}
		*k = *newChecker(k.name, k.f, k.sink)
		k.safe = true
	}
	sp.gen(chunk, k.eval)
}

func (k *checker) call(f plugintypes.Transformation, in string) (out string, ch bool, err error, pan string) {
	k.calls++
	if !k.safe {
		out, ch, err = f(in)
		return
	}
	pan = probe.Safe(func() { out, ch, err = f(in) })
	return
}

var digits = regexp.MustCompile(`[0-9]+`)

// panicSig: message with the numbers blanked plus the innermost coraza frame
// (probe.Safe), the same whether the panic was met directly or inside a transaction.
func panicSig(pan string) string { return "panic:" + digits.ReplaceAllString(pan, "N") }

func (k *checker) outcome(code int, text string) {
	if k.seen[code] {
		return
	}
	k.seen[code] = true
	if k.rc != nil {
		k.rc.Outcome(k.name + "|" + text)
	}
}

func (k *checker) violation(class, what string, sc Scenario) {
	k.sink.Violation(k.name+":"+class, k.name+": "+what, sc)
}

func q(s string) string {
	if len(s) > 120 {
		return fmt.Sprintf("%q...(%d bytes)", s[:120], len(s))
	}
	return fmt.Sprintf("%q", s)
}

func lenRel(in, out string) string {
	switch {
	case len(out) == len(in):
		return "len-equal"
	case len(out) > len(in):
		return "len-grows"
	}
	return "len-shrinks"
}

// flagSignature is the class of a "reported unchanged although different" defect.
func flagSignature(in, out string) string {
	return "changed=false-but-differs:" + lenRel(in, out)
}

// eval judges one input. master is owned by the generator and is the private copy.
func (k *checker) eval(master []byte) {
	k.n++
	in := heapString(master) // fresh heap copy handed to the transformation
	out, ch, err, pan := k.call(k.f, in)
	if pan != "" {
		k.sink.Violation(panicSig(pan), k.name+": panics on input "+q(string(master))+": "+pan, direct(k.name, master))
		return
	}
	if in != string(master) {
		k.violation("input-modified", fmt.Sprintf("the input string was modified by the call: passed %s, afterwards it reads %s (output %s)", q(string(master)), q(in), q(out)), direct(k.name, master))
		return
	}
	if k.havePrev && k.prevOut != string(k.prevCopy) {
		sc := direct(k.name, master)
		sc.Prev = hex.EncodeToString(k.prevIn)
		k.violation("earlier-result-modified-by-later-call", fmt.Sprintf("the result for %s was %s; after the call on %s the same string reads %s",
			q(string(k.prevIn)), q(string(k.prevCopy)), q(string(master)), q(k.prevOut)), sc)
		k.havePrev = false
		return
	}
	k.prevIn = append(k.prevIn[:0], master...)
	k.prevCopy = append(k.prevCopy[:0], out...)
	k.prevOut = out
	k.havePrev = true

	out2, ch2, err2, pan := k.call(k.f, in)
	if pan != "" {
		k.sink.Violation(panicSig(pan), k.name+": panics on the second call with input "+q(string(master))+": "+pan, direct(k.name, master))
		return
	}
	if in != string(master) {
		k.violation("input-modified", fmt.Sprintf("the input string was modified by the second call: passed %s, afterwards it reads %s", q(string(master)), q(in)), direct(k.name, master))
		return
	}
	if out2 != string(k.prevCopy) || ch2 != ch || (err == nil) != (err2 == nil) || out != string(k.prevCopy) {
		k.violation("two-calls-disagree", fmt.Sprintf("two calls on %s: first (%s, changed=%v, err=%v), second (%s, changed=%v, err=%v); first result now reads %s",
			q(string(master)), q(string(k.prevCopy)), ch, err, q(out2), ch2, err2, q(out)), direct(k.name, master))
		return
	}

	if err != nil {
		// normal return; the engine keeps the previous value
		k.errs++
		k.outcome(63, "error")
		return
	}
	if out != in {
		k.nontrivial++
		if k.rc != nil {
			if k.nontrivial <= 200 || k.rc.Get("distinct_recorded") < distinctPerWorker {
				k.rc.Count("distinct_recorded", 1)
				k.rc.Distinct(k.name + "|" + in)
			}
			if lastSampled != k.name && k.rc.WantSample() && len(in) > 1 && len(in) < 40 && out != "" {
				lastSampled = k.name
				k.rc.Sample(map[string]any{"transformation": k.name, "in": q(in), "out": q(out), "changed": ch})
			}
		}
	}
	code := 0
	if ch {
		code |= 1
	}
	if out != in {
		code |= 2
	}
	switch {
	case len(out) > len(in):
		code |= 4
	case len(out) < len(in):
		code |= 8
	}
	if !k.seen[code] {
		k.outcome(code, fmt.Sprintf("changed=%v|%s|differs=%v", ch, lenRel(in, out), out != in))
	}
	if !ch && out != in {
		k.violation(flagSignature(in, out), fmt.Sprintf("reports changed=false for input %s although the output is %s", q(in), q(out)), direct(k.name, master))
		return
	}

	if k.inverse != nil {
		arg := heapString([]byte(out))
		back, _, derr, pan := k.call(k.inverse, arg)
		switch {
		case pan == "" && arg != out:
			k.sink.Violation(k.inverseName+":input-modified", fmt.Sprintf("%s: the input string was modified by the call: passed %s, afterwards it reads %s",
				k.inverseName, q(out), q(arg)), direct(k.inverseName, []byte(out)))
		case pan != "":
			k.sink.Violation(panicSig(pan), k.inverseName+" panics on "+q(out)+": "+pan, direct(k.inverseName, []byte(out)))
		case derr != nil || back != in:
			k.sink.Violation(k.inverseName+"-after-"+k.name+":not-identity", fmt.Sprintf("%s(%s(%s)) = %s (err=%v); %s gave %s",
				k.inverseName, k.name, q(in), q(back), derr, k.name, q(out)), direct(k.name, master))
		}
	}
	if k.definition != nil {
		want, ok := k.definition(in)
		switch {
		case !ok:
			k.skipped++
		case want != out:
			k.violation("differs-from-standard-definition", fmt.Sprintf("input %s: got %s, the standard definition gives %s", q(in), q(out), q(want)), direct(k.name, master))
		}
	}
	if k.idempotent {
		arg := heapString([]byte(out))
		again, _, ierr, pan := k.call(k.f, arg)
		switch {
		case pan == "" && arg != out:
			k.violation("input-modified", fmt.Sprintf("the input string was modified by the call: passed %s, afterwards it reads %s", q(out), q(arg)), direct(k.name, []byte(out)))
		case pan != "":
			k.sink.Violation(panicSig(pan), k.name+": panics on input "+q(out)+": "+pan, direct(k.name, []byte(out)))
		case ierr != nil || again != out:
			k.violation("not-idempotent", fmt.Sprintf("f(%s) = %s but f(f(..)) = %s (err=%v)", q(in), q(out), q(again), ierr), direct(k.name, master))
		}
	}
}
