// Package c14 decides C14: transformations are total, pure functions with
// sound change reports (DESIGN.md §3 C14).
//
// Two parts:
//
//	A. every registered transformation is called directly
//	   (transformations.GetTransformation) on every member of a finite input
//	   space (spaces.go) and held against the oracle of oracle.go;
//	B. lists of transformations run through a real rule
//	   (SecRule ARGS_GET:a "@unconditionalMatch" "...,multiMatch,t:..") and the
//	   values the operator saw (MatchedDatas) are compared with the pipeline
//	   computed from the direct calls (rules.go).
package c14

import (
	"encoding/hex"
	"encoding/json"
	"fmt"
	"sort"
	"strings"

	"github.com/corazawaf/coraza/v3/internal/verif/runner"
	"github.com/corazawaf/coraza/v3/internal/verif/vrt"
)

func init() {
	runner.Register(&runner.Check{
		ID:    "C14",
		Level: "exploration",
		Rule: "part A: every registered transformation x every byte string of the tier's spaces (all strings of length <=2 (quick) / <=3 (thorough) over all 256 byte values; " +
			"all strings of length <=6 / <=8 over the transformation's own escape alphabet, i.e. every truncation of every escape at every offset; " +
			"every alphabet string of length <=4 / <=5 with one position replaced by each of the 256 byte values; " +
			"sandwiches head+run+tail (head <=1 symbol, run of 0..40, 63..65, 127..129, 255..257, 1023..1025, 4096, 65535..65537 and (thorough) 1M copies of a filler, every tail of <=3 / <=4 alphabet symbols, <=1 for the runs >= 65535); for htmlEntityDecode every &name / &name; with 1..3 / 1..4 ASCII letters); " +
			"part B: every list of <=2 of the 34 names and every list of <=3 / <=4 names over a 7 / 9 name alphabet (with lowercase / uppercase, so that a list can come back to an earlier value), as a multiMatch rule and as a plain rule, x every input of <=2 / <=3 tokens of a 13-token alphabet; " +
			"a case is non-trivial when the transformation (or the list) produced a value different from its input; distinct_nontrivial counts the first 60000 of them per worker, the counter nontrivial_cases counts all",
		Assumptions: []string{
			"a transformation that returns an error has returned normally; the engine then keeps the previous value, so output and change flag are not judged in that case",
			"lowercase/uppercase are compared with byte-wise ASCII folding on pure ASCII inputs only; on other inputs only totality, purity and the change flag are judged",
			"input strings are heap allocated (built from a byte slice), so a write through an unsafe cast is observable as a modified input instead of a fault",
			"with multiMatch the set of values handed to the operator is compared (duplicates of a value are not judged)",
		},
		Run:    run,
		Replay: replay,
	})
}

// Scenario is the replayable description of one failing case.
type Scenario struct {
	Kind  string   `json:"kind"`            // direct | rule | unit
	T     string   `json:"t,omitempty"`     // direct: transformation name
	In    string   `json:"in_hex"`          // input bytes, hex
	InQ   string   `json:"in,omitempty"`    // the same, Go-quoted, for the reader
	Ts    []string `json:"ts,omitempty"`    // rule: list of transformations
	Multi bool     `json:"multi,omitempty"` // rule: multiMatch
	Prev  string   `json:"prev_hex,omitempty"`
	// unit (crash attribution only)
	Space string `json:"space,omitempty"`
	Chunk int    `json:"chunk,omitempty"`
	// rulegroup (crash attribution only): Chunk = index of the group's first list
	Thorough bool `json:"thorough,omitempty"`
}

func direct(t string, in []byte) Scenario {
	return Scenario{Kind: "direct", T: t, In: hex.EncodeToString(in), InQ: fmt.Sprintf("%q", in)}
}

type sink interface {
	Violation(sig, what string, scenario any)
}

func run(c *runner.Ctx) {
	th := c.Thorough()
	idx := 0
	// ---- part A (pooled objects are always reused, so that a result living in a
	// pooled scratch buffer is overwritten by the next call)
	vrt.PoolMode = 1
	for _, name := range names() {
		f := mustGet(name)
		for _, sp := range spacesFor(name, th) {
			for chunk := 0; chunk < sp.chunks; chunk++ {
				idx++
				if !c.Mine(idx) || c.Expired() {
					continue
				}
				c.Heartbeat(Scenario{Kind: "unit", T: name, Space: sp.name, Chunk: chunk})
				k := newChecker(name, f, c)
				k.runUnit(sp, chunk)
				k.commit(c)
			}
		}
	}
	// ---- part B (fresh transaction objects)
	vrt.PoolMode = 0
	runRules(c, &idx)
	c.Extra("transformations", len(names()))
}

func replay(raw json.RawMessage) (bool, string) {
	var s Scenario
	if err := json.Unmarshal(raw, &s); err != nil {
		return false, err.Error()
	}
	in, err := hex.DecodeString(s.In)
	if err != nil {
		return false, err.Error()
	}
	col := &collector{}
	vrt.PoolMode = 0
	if s.Kind != "rule" && s.Kind != "rulegroup" {
		vrt.PoolMode = 1
	}
	switch s.Kind {
	case "direct":
		k := newChecker(s.T, mustGet(s.T), col)
		k.safe = true
		if s.Prev != "" {
			prev, _ := hex.DecodeString(s.Prev)
			k.eval(prev)
			col.v = nil // only the pair matters
		}
		k.eval(in)
	case "rule":
		replayRule(col, s.Ts, s.Multi, in)
	case "rulegroup":
		replayGroup(col, s.Thorough, s.Chunk, in)
	case "unit":
		for _, sp := range spacesFor(s.T, true) {
			if sp.name == s.Space {
				k := newChecker(s.T, mustGet(s.T), col)
				k.runUnit(sp, s.Chunk)
			}
		}
		for _, sp := range spacesFor(s.T, false) {
			if sp.name == s.Space && len(col.v) == 0 {
				k := newChecker(s.T, mustGet(s.T), col)
				k.runUnit(sp, s.Chunk)
			}
		}
	default:
		return false, "unknown scenario kind " + s.Kind
	}
	if len(col.v) == 0 {
		return false, "no violation observed"
	}
	sort.Strings(col.v)
	return true, strings.Join(col.v, "\n")
}

// collector gathers violations during a replay.
type collector struct{ v []string }

func (c *collector) Violation(sig, what string, _ any) {
	c.v = append(c.v, sig+"\n  "+strings.ReplaceAll(what, "\n", "\n  "))
}
