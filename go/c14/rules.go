package c14

import (
	"fmt"
	"sort"
	"strings"

	coraza "github.com/corazawaf/coraza/v3"
	"github.com/corazawaf/coraza/v3/internal/verif/probe"
	"github.com/corazawaf/coraza/v3/internal/verif/runner"
	"github.com/corazawaf/coraza/v3/internal/verif/scen"
)

// small name alphabets for the longer lists
var listAlphabetQuick = []string{"urlDecode", "htmlEntityDecode", "lowercase", "uppercase", "removeWhitespace", "hexDecode", "none"}
var listAlphabetThorough = []string{"urlDecode", "htmlEntityDecode", "lowercase", "uppercase", "removeWhitespace", "hexDecode", "none", "length", "cmdLine"}

// tokens the rule inputs are made of: single and double URL encodings of an
// entity, an entity whose expansion has the length of its source, hex text,
// upper case, white space, a NUL and a byte that is not UTF-8.
var tokens = []string{"%", "25", "26", "41", "3c", "lt;", "&", " ", "+", "A", "\xff", "nGg;", "\x00"}

func lists(thorough bool) [][]string {
	var out [][]string
	all := names()
	out = append(out, []string{})
	for _, a := range all {
		out = append(out, []string{a})
	}
	for _, a := range all {
		for _, b := range all {
			out = append(out, []string{a, b})
		}
	}
	alpha, maxLen := listAlphabetQuick, 3
	if thorough {
		alpha, maxLen = listAlphabetThorough, 4
	}
	var rec func(prefix []string)
	rec = func(prefix []string) {
		if len(prefix) >= 3 {
			out = append(out, append([]string(nil), prefix...))
		}
		if len(prefix) == maxLen {
			return
		}
		for _, a := range alpha {
			rec(append(prefix, a))
		}
	}
	rec(nil)
	return out
}

func ruleInputs(thorough bool, first int, emit func([]byte)) {
	maxTok := 2
	if thorough {
		maxTok = 3
	}
	if first == 0 {
		emit(nil)
	}
	var rec func(prefix []byte, depth int)
	rec = func(prefix []byte, depth int) {
		for i, t := range tokens {
			if depth == 0 && i != first {
				continue
			}
			v := append(append([]byte(nil), prefix...), t...)
			emit(v)
			if depth+1 < maxTok {
				rec(v, depth+1)
			}
		}
	}
	rec(nil, 0)
}

const groupSize = 60

func confFor(group [][]string) string {
	var sb strings.Builder
	sb.WriteString("SecRuleEngine On\n")
	for j, l := range group {
		for m := 0; m < 2; m++ {
			acts := fmt.Sprintf("id:%d,phase:1,pass,nolog", 1000+2*j+m)
			if m == 0 {
				acts += ",multiMatch"
			}
			for _, t := range l {
				acts += ",t:" + t
			}
			fmt.Fprintf(&sb, "SecRule ARGS_GET:a \"@unconditionalMatch\" \"%s\"\n", acts)
		}
	}
	return sb.String()
}

func runRules(c *runner.Ctx, idx *int) {
	ls := lists(c.Thorough())
	c.Extra("rule_lists", len(ls))
	for g := 0; g < len(ls); g += groupSize {
		end := g + groupSize
		if end > len(ls) {
			end = len(ls)
		}
		group := ls[g:end]
		for first := range tokens {
			*idx++
			if !c.Mine(*idx) || c.Expired() {
				continue
			}
			conf := confFor(group)
			w, err := scen.Build(conf)
			if err != nil {
				c.Violation("build:"+err.Error(), "configuration of the generator does not compile: "+err.Error(), Scenario{Kind: "rule", Ts: group[0]})
				continue
			}
			ruleInputs(c.Thorough(), first, func(in []byte) {
				// a fault inside the transaction kills the process: leave a trace first
				sc := direct("", in)
				sc.Kind, sc.Chunk, sc.Thorough = "rulegroup", g, c.Thorough()
				c.Heartbeat(sc)
				evalRules(c, c, w, group, in, sc)
			})
			scen.Close(w)
		}
	}
}

// pipeline computes, from direct calls only, the values a list produces:
// v(i+1) = f_i(v_i); an error keeps v_i (that is what the engine does).
func pipeline(list []string, in string) (truth []string) {
	eff := effective(list)
	truth = []string{in}
	v := in
	for _, t := range eff {
		// the calls get private copies: the oracle's own values must not depend
		// on a transformation that writes into its argument
		if out, _, err := mustGet(t)(heapString([]byte(v))); err == nil {
			v = strings.Clone(out)
		}
		truth = append(truth, v)
	}
	return truth
}

// effective is the list after the last t:none (which clears what precedes it).
func effective(list []string) []string {
	eff := list
	for i, t := range list {
		if t == "none" {
			eff = list[i+1:]
		}
	}
	return eff
}

// mutator looks for a transformation that writes into its argument when given
// one of the values; the names of the list are tried first. It turns the many
// downstream effects of such a defect into its one root-cause signature.
func mutator(list []string, values []string) string {
	for _, t := range append(append([]string(nil), list...), names()...) {
		if t == "none" {
			continue
		}
		f := mustGet(t)
		for _, v := range values {
			arg := heapString([]byte(v))
			if p := probe.Safe(func() { _, _, _ = f(arg) }); p == "" && arg != v {
				return t
			}
		}
	}
	return ""
}

func set(vs []string) map[string]bool {
	m := map[string]bool{}
	for _, v := range vs {
		m[v] = true
	}
	return m
}

func sameSet(a, b map[string]bool) bool {
	if len(a) != len(b) {
		return false
	}
	for k := range a {
		if !b[k] {
			return false
		}
	}
	return true
}

func qs(vs []string) string {
	out := make([]string, len(vs))
	for i, v := range vs {
		out[i] = q(v)
	}
	return "[" + strings.Join(out, " ") + "]"
}

func sortedKeys(m map[string]bool) []string {
	out := make([]string, 0, len(m))
	for k := range m {
		out = append(out, k)
	}
	sort.Strings(out)
	return out
}

// seenValues runs one transaction with ARGS_GET:a = in and returns, per rule
// id, the values of MatchedDatas in reported order.
func seenValues(w coraza.WAF, in string) (map[int][]string, string) {
	seen := map[int][]string{}
	pan := probe.Safe(func() {
		tx := w.NewTransaction()
		defer func() {
			tx.ProcessLogging()
			_ = tx.Close()
		}()
		tx.ProcessConnection("10.0.0.1", 1234, "10.0.0.2", 80)
		tx.ProcessURI("/", "GET", "HTTP/1.1")
		tx.AddGetRequestArgument("a", in)
		tx.ProcessRequestHeaders()
		for _, mr := range tx.MatchedRules() {
			id := mr.Rule().ID()
			for _, md := range mr.MatchedDatas() {
				seen[id] = append(seen[id], strings.Clone(md.Value()))
			}
		}
	})
	return seen, pan
}

func ruleScenario(list []string, multi bool, in []byte) Scenario {
	s := direct("", in)
	s.Kind, s.Ts, s.Multi = "rule", list, multi
	return s
}

// evalRules judges one input against every list of a group (rc may be nil).
// gsc is the scenario recorded for failures that concern the whole transaction.
func evalRules(s sink, rc *runner.Ctx, w coraza.WAF, group [][]string, master []byte, gsc Scenario) {
	in := heapString(master)
	seen, pan := seenValues(w, in)
	if pan != "" {
		s.Violation(panicSig(pan), "transaction panics with ARGS_GET:a="+q(in)+": "+pan, gsc)
		return
	}
	if in != string(master) {
		sig := "rule:input-modified"
		if t := mutator(nil, []string{string(master)}); t != "" {
			sig = t + ":input-modified"
		}
		s.Violation(sig, fmt.Sprintf("the argument value handed to the transaction was modified: passed %s, afterwards %s", q(string(master)), q(in)), gsc)
		return
	}
	for j, list := range group {
		truth := pipeline(list, in)
		final := truth[len(truth)-1]
		if rc != nil {
			rc.Count("evaluations", 2)
			rc.Count("rule_cases", 2)
			if len(set(truth)) > 1 {
				rc.Count("nontrivial_cases", 1)
				if rc.Get("rule_distinct_recorded") < distinctPerWorker/2 {
					rc.Count("rule_distinct_recorded", 1)
					rc.Distinct("rule|" + strings.Join(list, ",") + "|" + in)
				}
				if rc.WantSample() && len(list) >= 3 && len(set(truth)) >= 3 {
					rc.Sample(map[string]any{"list": list, "in": q(in), "multiMatch_values": qs(seen[1000+2*j])})
				}
			}
			rc.Outcome(fmt.Sprintf("rule|values=%d|dups=%v", len(set(truth)), len(seen[1000+2*j]) != len(set(seen[1000+2*j]))))
		}
		// multiMatch rule
		got := seen[1000+2*j]
		gs, ts := set(got), set(truth)
		if len(got) != len(gs) && rc != nil {
			rc.Count("multimatch_duplicate_values_not_judged", 1)
		}
		if !sameSet(gs, ts) {
			what := fmt.Sprintf("SecRule ARGS_GET:a \"@unconditionalMatch\" \"multiMatch,t:%s\" with a=%s: the operator saw %s; the values of the pipeline are %s",
				strings.Join(list, ",t:"), q(in), qs(got), qs(truth))
			switch t := mutator(list, truth); {
			case t != "":
				s.Violation(t+":input-modified", what+"; cause: "+t+" writes into the string it is given", ruleScenario(list, true, master))
			case !gs[in]:
				s.Violation("multiMatch:original-missed", what, ruleScenario(list, true, master))
			default:
				// first value of the pipeline the operator did not get
				sig := "multiMatch:unexpected-value"
				eff := effective(list)
				for i := 1; i < len(truth); i++ {
					if gs[truth[i]] {
						continue
					}
					prev, name := truth[i-1], eff[i-1]
					if out, ch, err := mustGet(name)(heapString([]byte(prev))); err == nil && !ch && out != prev {
						// the transformation itself said "unchanged": same root cause as in part A
						sig = name + ":" + flagSignature(prev, out)
						what += fmt.Sprintf("; cause: %s reports changed=false for %s although it returns %s", name, q(prev), q(out))
					} else if truth[i] == "" {
						sig = "multiMatch:intermediate-missed:empty-value"
					} else {
						sig = "multiMatch:intermediate-missed:" + lenRel(prev, truth[i])
					}
					break
				}
				s.Violation(sig, what, ruleScenario(list, true, master))
			}
		}
		// plain rule
		got = seen[1001+2*j]
		if len(got) != 1 || got[0] != final {
			sig := "rule:final-value-differs-from-direct-composition"
			if t := mutator(list, truth); t != "" {
				sig = t + ":input-modified"
			}
			s.Violation(sig,
				fmt.Sprintf("SecRule ARGS_GET:a \"@unconditionalMatch\" \"t:%s\" with a=%s: the operator saw %s; composing the direct calls gives %s",
					strings.Join(list, ",t:"), q(in), qs(got), q(final)), ruleScenario(list, false, master))
		}
	}
}

func replayGroup(col *collector, thorough bool, g int, in []byte) {
	ls := lists(thorough)
	if g < 0 || g >= len(ls) {
		return
	}
	end := g + groupSize
	if end > len(ls) {
		end = len(ls)
	}
	group := ls[g:end]
	w, err := scen.Build(confFor(group))
	if err != nil {
		col.Violation("build", err.Error(), nil)
		return
	}
	defer scen.Close(w)
	sc := direct("", in)
	sc.Kind, sc.Chunk, sc.Thorough = "rulegroup", g, thorough
	evalRules(col, nil, w, group, in, sc)
}

func replayRule(col *collector, list []string, multi bool, in []byte) {
	group := [][]string{list}
	w, err := scen.Build(confFor(group))
	if err != nil {
		col.Violation("build", err.Error(), nil)
		return
	}
	defer scen.Close(w)
	evalRules(col, nil, w, group, in, ruleScenario(list, multi, in))
}
