package c14

import (
	"sort"

	"github.com/corazawaf/coraza/v3/experimental/plugins/plugintypes"
	"github.com/corazawaf/coraza/v3/internal/transformations"
)

// registered lists the names registered in internal/transformations/transformations.go
// (kept in the spelling of the Register calls; lookups are case-insensitive).
var registered = []string{
	"base64Decode", "base64DecodeExt", "base64Encode", "cmdLine", "compressWhitespace", "cssDecode",
	"escapeSeqDecode", "hexDecode", "hexEncode", "htmlEntityDecode", "jsDecode", "length", "lowercase",
	"md5", "none", "normalisePath", "normalisePathWin", "normalizePath", "normalizePathWin",
	"removeComments", "removeCommentsChar", "removeNulls", "removeWhitespace", "replaceComments",
	"replaceNulls", "sha1", "uppercase", "urlDecode", "urlDecodeUni", "urlEncode", "utf8toUnicode",
	"trim", "trimLeft", "trimRight",
}

func names() []string {
	out := append([]string(nil), registered...)
	sort.Strings(out)
	return out
}

var fcache = map[string]plugintypes.Transformation{}

func mustGet(name string) plugintypes.Transformation {
	if f, ok := fcache[name]; ok {
		return f
	}
	f, err := transformations.GetTransformation(name)
	if err != nil {
		panic("c14: " + err.Error())
	}
	fcache[name] = f
	return f
}

// alphabets: the bytes out of which the transformation's escapes are made,
// plus one byte that is not part of any escape.
var alphabets = map[string]string{
	"urlDecode":          "%+25aFg ",
	"urlDecodeUni":       "%u+fF01g",
	"jsDecode":           "\\ux0378fn",
	"escapeSeqDecode":    "\\xX078ang",
	"cssDecode":          "\\0f1d \ng",
	"htmlEntityDecode":   "&#x10;ltg",
	"normalisePath":      "/.a\\ :C",
	"normalizePath":      "/.a\\ :C",
	"normalisePathWin":   "/.a\\ :C",
	"normalizePathWin":   "/.a\\ :C",
	"removeComments":     "/*-#<!>a",
	"removeCommentsChar": "/*-#<!>a",
	"replaceComments":    "/*-#<!>a",
	"cmdLine":            "\"\\^ ,/(Aa",
	"compressWhitespace": " \t\n\xa0\xc2\x85\xe4a",
	"removeWhitespace":   " \t\xc2\xa0\x85\xe2\x80a",
	"trim":               " \t\n\v\f\ra\xa0",
	"trimLeft":           " \t\n\v\f\ra\xa0",
	"trimRight":          " \t\n\v\f\ra\xa0",
	"base64Decode":       "AQ/= \n-.\xff",
	"base64DecodeExt":    "AQ/= \n-.\xff",
	"hexDecode":          "0aFg ",
	"lowercase":          "Az\xc3\x89\xc4\xb0\xff",
	"uppercase":          "Az\xc3\xa9\xc5\xbf\xff",
	"utf8toUnicode":      "a\xc3\xa9\xe2\x82\xac\xf0\xff",
}

const genericAlphabet = " A*\x00\xff%a"

func alphabetOf(name string) []byte {
	if a, ok := alphabets[name]; ok {
		return []byte(a)
	}
	return []byte(genericAlphabet)
}

// space is one finite set of inputs, cut into chunks for sharding.
type space struct {
	name   string
	chunks int
	gen    func(chunk int, emit func([]byte))
}

// words calls emit for every string over alpha of length 0..maxLen whose
// first symbol is alpha[first] (first<0: no restriction); the empty string is
// emitted when first<=0.
func words(alpha []byte, maxLen int, first int, buf []byte, emit func([]byte)) {
	if first <= 0 {
		emit(buf)
	}
	if maxLen == 0 {
		return
	}
	base := len(buf)
	var rec func(depth int)
	rec = func(depth int) {
		for i, a := range alpha {
			if depth == 0 && first >= 0 && i != first {
				continue
			}
			buf = append(buf[:base+depth], a)
			emit(buf)
			if depth+1 < maxLen {
				rec(depth + 1)
			}
		}
	}
	rec(0)
}

var all256 = func() []byte {
	b := make([]byte, 256)
	for i := range b {
		b[i] = byte(i)
	}
	return b
}()

var letters = []byte("ABCDEFGHIJKLMNOPQRSTUVWXYZabcdefghijklmnopqrstuvwxyz")

func runLengths(thorough bool) []int {
	var ls []int
	top := 20
	if thorough {
		top = 40
	}
	for i := 0; i <= top; i++ {
		ls = append(ls, i)
	}
	if thorough {
		return append(ls, 63, 64, 65, 127, 128, 129, 255, 256, 257, 1023, 1024, 1025, 4096)
	}
	return append(ls, 31, 32, 33, 63, 64, 65, 255, 256, 257, 1024)
}

func spacesFor(name string, thorough bool) []space {
	alpha := alphabetOf(name)
	byteLen, alphaLen, tailLen := 2, 6, 3
	if thorough {
		byteLen, alphaLen, tailLen = 3, 8, 4
	}
	sp := []space{
		{
			name: "bytes", chunks: 256,
			gen: func(chunk int, emit func([]byte)) {
				words(all256, byteLen, chunk, make([]byte, 0, 8), emit)
			},
		},
		{
			name: "alphabet", chunks: len(alpha),
			gen: func(chunk int, emit func([]byte)) {
				words(alpha, alphaLen, chunk, make([]byte, 0, 16), emit)
			},
		},
	}
	// sandwiches: head (<=1 symbol) + run of L copies of a filler + tail (<=tailLen symbols).
	ls := runLengths(thorough)
	fillers := []byte{'a', alpha[0]}
	sp = append(sp, space{
		name: "sandwich", chunks: len(ls),
		gen: func(chunk int, emit func([]byte)) {
			l := ls[chunk]
			buf := make([]byte, 0, l+16)
			words(alpha, 1, -1, nil, func(head []byte) {
				for _, fill := range fillers {
					buf = append(buf[:0], head...)
					for i := 0; i < l; i++ {
						buf = append(buf, fill)
					}
					words(alpha, tailLen, -1, buf, emit)
				}
			})
		},
	})
	huge := []int{65535, 65536, 65537}
	if thorough {
		huge = append(huge, 1<<20)
	}
	sp = append(sp, space{
		name: "longrun", chunks: len(huge),
		gen: func(chunk int, emit func([]byte)) {
			l := huge[chunk]
			buf := make([]byte, 0, l+16)
			words(alpha, 1, -1, nil, func(head []byte) {
				for _, fill := range fillers {
					buf = append(buf[:0], head...)
					for i := 0; i < l; i++ {
						buf = append(buf, fill)
					}
					words(alpha, 1, -1, buf, emit)
				}
			})
		},
	})
	// wildcard: every alphabet string of length 1..wl with one position replaced
	// by each of the 256 byte values (an escape followed or interrupted by any byte).
	wl := 4
	if thorough {
		wl = 5
	}
	sp = append(sp, space{
		name: "wildcard", chunks: len(alpha),
		gen: func(chunk int, emit func([]byte)) {
			tmp := make([]byte, 0, 16)
			words(alpha, wl, chunk, make([]byte, 0, 16), func(w []byte) {
				for pos := range w {
					tmp = append(tmp[:0], w...)
					// position 0 of a word is varied only in the chunk of its own first symbol
					// (the 256 values are the same for every first symbol): do it in chunk 0.
					if pos == 0 && chunk != 0 {
						continue
					}
					for b := 0; b < 256; b++ {
						tmp[pos] = byte(b)
						emit(tmp)
					}
				}
			})
		},
	})
	if name == "htmlEntityDecode" {
		n := 3
		if thorough {
			n = 4
		}
		sp = append(sp, space{
			name: "entity", chunks: len(letters),
			gen: func(chunk int, emit func([]byte)) {
				words(letters, n, chunk, []byte{'&'}, func(w []byte) {
					if len(w) == 1 {
						return
					}
					emit(w)
					l := len(w)
					w = append(w, ';')
					emit(w)
					w = append(w[:l], '=')
					emit(w)
					w = append(w[:l], ';', 'a')
					emit(w)
				})
			},
		})
	}
	return sp
}
