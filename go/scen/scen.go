// Package scen holds the scenario vocabulary shared by the rule-engine checks:
// a configuration text, a request/response description and the canonical
// connector-style driver that pushes it through a real transaction.
package scen

import (
	"fmt"
	"strings"

	coraza "github.com/corazawaf/coraza/v3"
	"github.com/corazawaf/coraza/v3/internal/verif/probe"
	"github.com/corazawaf/coraza/v3/internal/verif/vrt"
	"github.com/corazawaf/coraza/v3/types"
)

// Req is one HTTP exchange as a connector would feed it.
type Req struct {
	Method  string      `json:"method,omitempty"`
	URI     string      `json:"uri"`
	Headers [][2]string `json:"headers,omitempty"`
	Body    string      `json:"body,omitempty"`
	// PreArgs are handed to AddGetRequestArgument before ProcessURI (connectors may do that)
	PreArgs [][2]string `json:"pre_args,omitempty"`
	// response side (Status 0 = stop after the request phases + logging)
	Status      int         `json:"status,omitempty"`
	RespHeaders [][2]string `json:"resp_headers,omitempty"`
	RespBody    string      `json:"resp_body,omitempty"`
}

// Scenario = configuration + exchange.
type Scenario struct {
	Conf string `json:"conf"`
	Req  Req    `json:"req"`
}

// Build compiles a configuration; panics are returned as errors.
func Build(conf string, extra ...func(coraza.WAFConfig) coraza.WAFConfig) (w coraza.WAF, err error) {
	defer func() {
		if r := recover(); r != nil {
			err = fmt.Errorf("PANIC in NewWAF: %v", r)
		}
	}()
	cfg := coraza.NewWAFConfig().WithDirectives(conf)
	for _, f := range extra {
		cfg = f(cfg)
	}
	return coraza.NewWAF(cfg)
}

// Options of Run.
type Options struct {
	Vars     bool            // dump all variables before Close
	SkipVars map[string]bool // collections left out of the dump
	NoClose  bool
	ID       string
}

// Run drives r through a fresh transaction of w in canonical connector order
// and returns the canonical outcome.
func Run(w coraza.WAF, r Req, opt Options) *probe.Outcome {
	o := &probe.Outcome{}
	var tx types.Transaction
	o.Panic = probe.Safe(func() {
		if opt.ID != "" {
			tx = w.NewTransactionWithID(opt.ID)
		} else {
			tx = w.NewTransaction()
		}
		Drive(tx, r, o)
		o.Interruption = probe.Itr(tx.Interruption())
		o.Matched = probe.Matches(tx)
		if opt.Vars {
			o.Vars = probe.Vars(tx, opt.SkipVars)
		}
	})
	if tx != nil && !opt.NoClose {
		if p := probe.Safe(func() {
			if err := tx.Close(); err != nil {
				o.Calls = append(o.Calls, "Close:"+err.Error())
			}
		}); p != "" && o.Panic == "" {
			o.Panic = "Close: " + p
		}
	}
	return o
}

// Drive feeds r to tx the way the net/http middleware does, up to and
// including ProcessLogging (not Close).
func Drive(tx types.Transaction, r Req, o *probe.Outcome) {
	call := func(name string, it *types.Interruption, err error) bool {
		if YieldBetweenCalls && vrt.Scheduler != nil {
			vrt.Scheduler.Yield("between API calls")
		}
		s := name + ":" + probe.Itr(it)
		if err != nil {
			s += " err=" + err.Error()
		}
		o.Calls = append(o.Calls, s)
		return it != nil
	}
	defer tx.ProcessLogging()
	method := r.Method
	if method == "" {
		method = "GET"
		if r.Body != "" {
			method = "POST"
		}
	}
	tx.ProcessConnection("10.0.0.1", 1234, "10.0.0.2", 80)
	for _, a := range r.PreArgs {
		tx.AddGetRequestArgument(a[0], a[1])
	}
	tx.ProcessURI(r.URI, method, "HTTP/1.1")
	for _, h := range r.Headers {
		tx.AddRequestHeader(h[0], h[1])
	}
	if call("P1", tx.ProcessRequestHeaders(), nil) {
		return
	}
	if r.Body != "" && tx.IsRequestBodyAccessible() {
		it, _, err := tx.WriteRequestBody([]byte(r.Body))
		if call("WB", it, err) {
			return
		}
	}
	it, err := tx.ProcessRequestBody()
	if call("P2", it, err) {
		return
	}
	if r.Status == 0 {
		return
	}
	for _, h := range r.RespHeaders {
		tx.AddResponseHeader(h[0], h[1])
	}
	if call("P3", tx.ProcessResponseHeaders(r.Status, "HTTP/1.1"), nil) {
		return
	}
	if r.RespBody != "" && tx.IsResponseBodyAccessible() && tx.IsResponseBodyProcessable() {
		it, _, err := tx.WriteResponseBody([]byte(r.RespBody))
		if call("WRB", it, err) {
			return
		}
	}
	it, err = tx.ProcessResponseBody()
	call("P4", it, err)
}

// YieldBetweenCalls adds a scheduling point after every phase call of Drive
// (only under a controlled scheduler): a thread can then be preempted between
// its evaluation and its logging.
var YieldBetweenCalls bool

// Form returns the header that selects the urlencoded body processor.
func Form() [2]string { return [2]string{"Content-Type", "application/x-www-form-urlencoded"} }

// Lines joins configuration lines.
func Lines(l ...string) string { return strings.Join(l, "\n") + "\n" }

// Close releases a WAF (experimental.WAFCloser).
func Close(w coraza.WAF) {
	if c, ok := w.(interface{ Close() error }); ok {
		_ = c.Close()
	}
}
