// Package secmodel is the deliberately boring reference interpreter for the
// SecLang core the checks generate (DESIGN.md §2.5): plain data in, plain data
// out, no coraza imports except the scenario vocabulary. Where the
// documentation does not fix an answer the model says "unspecified" and the
// caller does not assert.
package secmodel

import (
	"fmt"
	"regexp"
	"sort"
	"strconv"
	"strings"

	"github.com/corazawaf/coraza/v3/internal/verif/scen"
)

// Pair is a (name, value) item.
type Pair struct{ N, V string }

// Request is the abstract request: ordered lists per collection.
type Request struct {
	Get    []Pair `json:"get,omitempty"`
	Post   []Pair `json:"post,omitempty"`
	Hdr    []Pair `json:"hdr,omitempty"`
	Cookie []Pair `json:"cookie,omitempty"`
	// Resp: the exchange has a response (status 200, RespHdr as its header fields): phases 3 and 4 run.
	Resp    bool   `json:"resp,omitempty"`
	RespHdr []Pair `json:"resp_hdr,omitempty"`
}

func pct(s string) string {
	var sb strings.Builder
	for i := 0; i < len(s); i++ {
		c := s[i]
		switch {
		case c >= 'a' && c <= 'z', c >= 'A' && c <= 'Z', c >= '0' && c <= '9', c == '-', c == '_', c == '.':
			sb.WriteByte(c)
		default:
			fmt.Fprintf(&sb, "%%%02X", c)
		}
	}
	return sb.String()
}

func encodePairs(ps []Pair) string {
	parts := make([]string, len(ps))
	for i, p := range ps {
		parts[i] = pct(p.N) + "=" + pct(p.V)
	}
	return strings.Join(parts, "&")
}

// AllHeaders is the header list the transaction receives (explicit headers,
// then Cookie, then Content-Type when there is a body).
func (r Request) AllHeaders() []Pair {
	h := append([]Pair{}, r.Hdr...)
	if len(r.Cookie) > 0 {
		parts := make([]string, len(r.Cookie))
		for i, c := range r.Cookie {
			parts[i] = c.N + "=" + c.V
		}
		h = append(h, Pair{"Cookie", strings.Join(parts, "; ")})
	}
	if len(r.Post) > 0 {
		h = append(h, Pair{"Content-Type", "application/x-www-form-urlencoded"})
	}
	return h
}

// Scen encodes the request with this package's own encoders.
func (r Request) Scen() scen.Req {
	q := "/p"
	if len(r.Get) > 0 {
		q += "?" + encodePairs(r.Get)
	}
	out := scen.Req{URI: q}
	for _, h := range r.AllHeaders() {
		out.Headers = append(out.Headers, [2]string{h.N, h.V})
	}
	if len(r.Post) > 0 {
		out.Body = encodePairs(r.Post)
	}
	if r.Resp {
		out.Status = 200
		for _, h := range r.RespHdr {
			out.RespHeaders = append(out.RespHeaders, [2]string{h.N, h.V})
		}
	}
	return out
}

// Target is one element of a rule's target list.
type Target struct {
	Coll  string `json:"coll"`
	Key   string `json:"key,omitempty"`
	Rx    string `json:"rx,omitempty"`
	Count bool   `json:"count,omitempty"`
}

// Excl is a `!X:k` exclusion.
type Excl struct {
	Coll string `json:"coll"`
	Key  string `json:"key,omitempty"`
	Rx   string `json:"rx,omitempty"`
}

// Rule is a structured rule description.
type Rule struct {
	ID      int      `json:"id,omitempty"`
	Phase   int      `json:"phase,omitempty"`
	Targets []Target `json:"targets"`
	Excls   []Excl   `json:"excls,omitempty"`
	Trans   []string `json:"trans,omitempty"`
	Op      string   `json:"op"`
	Arg     string   `json:"arg,omitempty"`
	Neg     bool     `json:"neg,omitempty"`
	Multi   bool     `json:"multi,omitempty"`
	Actions []string `json:"actions,omitempty"` // extra raw actions
	Chain   *Rule    `json:"chain,omitempty"`
}

func (t Target) text() string {
	s := ""
	if t.Count {
		s = "&"
	}
	s += t.Coll
	if t.Key != "" {
		s += ":" + t.Key
	} else if t.Rx != "" {
		s += ":/" + t.Rx + "/"
	}
	return s
}

// Text renders the rule (and its chain) as SecLang.
func (r *Rule) Text() string {
	var parts []string
	for _, t := range r.Targets {
		parts = append(parts, t.text())
	}
	for _, e := range r.Excls {
		s := "!" + e.Coll
		if e.Key != "" {
			s += ":" + e.Key
		} else if e.Rx != "" {
			s += ":/" + e.Rx + "/"
		}
		parts = append(parts, s)
	}
	op := "@" + r.Op
	if r.Arg != "" {
		op += " " + r.Arg
	}
	if r.Neg {
		op = "!" + op
	}
	var acts []string
	if r.ID != 0 {
		acts = append(acts, fmt.Sprintf("id:%d", r.ID), fmt.Sprintf("phase:%d", r.Phase), "pass", "log")
	}
	for _, t := range r.Trans {
		acts = append(acts, "t:"+t)
	}
	if r.Multi {
		acts = append(acts, "multiMatch")
	}
	acts = append(acts, r.Actions...)
	if r.Chain != nil {
		acts = append(acts, "chain")
	}
	s := fmt.Sprintf("SecRule %s \"%s\" \"%s\"", strings.Join(parts, "|"), op, strings.Join(acts, ","))
	if r.Chain != nil {
		s += "\n  " + r.Chain.Text()
	}
	return s
}

// Triple is one (variable, key, value) item.
type Triple struct{ Var, Key, Val string }

func (t Triple) String() string { return t.Var + "|" + t.Key + "|" + t.Val }

// Fired is one fired rule with its match-data multiset (sorted).
type Fired struct {
	ID    int
	Datas []string
}

func entries(coll string, req Request, phase int) ([]Triple, bool) {
	var src []Pair
	names := false
	post := req.Post
	if phase < 2 {
		post = nil
	}
	switch coll {
	case "ARGS_GET":
		src = req.Get
	case "ARGS_POST":
		src = post
	case "ARGS":
		src = append(append([]Pair{}, req.Get...), post...)
	case "ARGS_GET_NAMES":
		src, names = req.Get, true
	case "ARGS_POST_NAMES":
		src, names = post, true
	case "ARGS_NAMES":
		src, names = append(append([]Pair{}, req.Get...), post...), true
	case "REQUEST_HEADERS":
		src = req.AllHeaders()
	case "REQUEST_HEADERS_NAMES":
		src, names = req.AllHeaders(), true
	case "REQUEST_COOKIES":
		src = req.Cookie
	case "REQUEST_COOKIES_NAMES":
		src, names = req.Cookie, true
	case "RESPONSE_HEADERS":
		if phase >= 3 && req.Resp {
			src = req.RespHdr
		}
	case "RESPONSE_HEADERS_NAMES":
		if phase >= 3 && req.Resp {
			src, names = req.RespHdr, true
		}
	default:
		return nil, false
	}
	out := make([]Triple, 0, len(src))
	for _, p := range src {
		v := p.V
		if names {
			v = p.N
		}
		out = append(out, Triple{coll, p.N, v})
	}
	return out, true
}

var rxCache = map[string]*regexp.Regexp{}

func rx(src string) *regexp.Regexp {
	if r, ok := rxCache[src]; ok {
		return r
	}
	r := regexp.MustCompile(src)
	rxCache[src] = r
	return r
}

// rxSel decides regex-key selection of name n: (selected, specified).
// The lower bound is "the regex matches the name as sent"; the upper bound is
// "it matches case-insensitively"; in between the documentation is silent.
func rxSel(src, n string) (bool, bool) {
	exact := rx(src).MatchString(n)
	fold := rx("(?i)" + src).MatchString(n)
	if exact == fold {
		return exact, true
	}
	return false, false
}

// Select returns the values a rule's target list selects, in an order that is
// not meaningful, plus whether the answer is specified.
func Select(r *Rule, req Request, phase int) ([]Triple, bool) {
	var out []Triple
	for _, t := range r.Targets {
		es, ok := entries(t.Coll, req, phase)
		if !ok {
			return nil, false
		}
		var sel []Triple
		for _, e := range es {
			switch {
			case t.Key != "":
				if !strings.EqualFold(e.Key, t.Key) {
					continue
				}
			case t.Rx != "":
				s, spec := rxSel(t.Rx, e.Key)
				if !spec {
					return nil, false
				}
				if !s {
					continue
				}
			}
			excluded := false
			for _, x := range r.Excls {
				if x.Coll != t.Coll {
					// exclusions naming another collection than the target: not specified
					return nil, false
				}
				switch {
				case x.Key != "":
					if strings.EqualFold(e.Key, x.Key) {
						excluded = true
					}
				case x.Rx != "":
					s, spec := rxSel(x.Rx, e.Key)
					if !spec {
						return nil, false
					}
					excluded = excluded || s
				default:
					excluded = true
				}
			}
			if !excluded {
				sel = append(sel, e)
			}
		}
		if t.Count {
			out = append(out, Triple{t.Coll, strings.ToLower(t.Key), strconv.Itoa(len(sel))})
		} else {
			out = append(out, sel...)
		}
	}
	return out, true
}

func isASCII(s string) bool {
	for i := 0; i < len(s); i++ {
		if s[i] >= 0x80 {
			return false
		}
	}
	return true
}

// Transform applies one transformation of the model's alphabet.
func Transform(name, v string) (string, bool) {
	if !isASCII(v) {
		return "", false
	}
	switch name {
	case "lowercase":
		return strings.ToLower(v), true
	case "uppercase":
		return strings.ToUpper(v), true
	case "trim":
		return strings.Trim(v, " \t\n\r\f\v"), true
	case "removeWhitespace":
		return strings.Map(func(r rune) rune {
			if r == ' ' || r == '\t' || r == '\n' || r == '\r' || r == '\f' || r == '\v' {
				return -1
			}
			return r
		}, v), true
	case "length":
		return strconv.Itoa(len(v)), true
	}
	return "", false
}

// Values returns the values the operator sees for v under the rule's
// transformation list (one, or several with multiMatch).
func Values(r *Rule, v string) ([]string, bool) {
	if !r.Multi {
		for _, t := range r.Trans {
			nv, ok := Transform(t, v)
			if !ok {
				return nil, false
			}
			v = nv
		}
		return []string{v}, true
	}
	out := []string{v}
	for _, t := range r.Trans {
		nv, ok := Transform(t, v)
		if !ok {
			return nil, false
		}
		if nv != v {
			out = append(out, nv)
			v = nv
		}
	}
	return out, true
}

func atoi(s string) int {
	n, _ := strconv.Atoi(s)
	return n
}

// Op evaluates an operator of the model's alphabet.
func Op(r *Rule, v string) (bool, bool) {
	var res bool
	switch r.Op {
	case "streq":
		res = v == r.Arg
	case "contains":
		res = strings.Contains(v, r.Arg)
	case "beginsWith":
		res = strings.HasPrefix(v, r.Arg)
	case "rx":
		res = rx("(?s)" + r.Arg).MatchString(v)
	case "eq":
		res = atoi(v) == atoi(r.Arg)
	case "gt":
		res = atoi(v) > atoi(r.Arg)
	case "unconditionalMatch":
		res = true
	default:
		return false, false
	}
	if r.Neg {
		res = !res
	}
	return res, true
}

// MatchLink returns the match data of one rule or chain link.
func MatchLink(r *Rule, req Request, phase int) ([]Triple, bool) {
	sel, ok := Select(r, req, phase)
	if !ok {
		return nil, false
	}
	var out []Triple
	for _, e := range sel {
		vals, ok := Values(r, e.Val)
		if !ok {
			return nil, false
		}
		for _, v := range vals {
			m, ok := Op(r, v)
			if !ok {
				return nil, false
			}
			if m {
				out = append(out, Triple{e.Var, e.Key, v})
			}
		}
	}
	return out, true
}

// Match returns the match data of a rule with its chain (nil = did not fire).
func Match(r *Rule, req Request) ([]Triple, bool) {
	var all []Triple
	for l := r; l != nil; l = l.Chain {
		m, ok := MatchLink(l, req, r.Phase)
		if !ok {
			return nil, false
		}
		if len(m) == 0 {
			return nil, true
		}
		all = append(all, m...)
	}
	return all, true
}

// Eval evaluates pass-only rules in phase then configuration order.
func Eval(rules []*Rule, req Request) ([]Fired, bool) {
	var out []Fired
	for phase := 1; phase <= 5; phase++ {
		if (phase == 3 || phase == 4) && !req.Resp {
			continue // no response: the connector goes from the request phases to logging
		}
		for _, r := range rules {
			if r.Phase != phase {
				continue
			}
			m, ok := Match(r, req)
			if !ok {
				return nil, false
			}
			if m == nil {
				continue
			}
			f := Fired{ID: r.ID}
			for _, t := range m {
				f.Datas = append(f.Datas, t.String())
			}
			sort.Strings(f.Datas)
			out = append(out, f)
		}
	}
	return out, true
}

// Config renders a rule program.
func Config(rules []*Rule) string {
	var sb strings.Builder
	sb.WriteString("SecRuleEngine On\nSecRequestBodyAccess On\n")
	for _, r := range rules {
		sb.WriteString(r.Text())
		sb.WriteString("\n")
	}
	return sb.String()
}
