package c16

import (
	"fmt"
	"strings"

	"github.com/corazawaf/coraza/v3/internal/verif/runner"
)

// Splitting a configuration across included files must not change what a rule's
// relative data file refers to: it is looked up next to the file that contains
// the rule, wherever that rule stands relative to Include directives (before
// one, after one, after a nested one). Every directory holds a data file of the
// same name with a different word, so a lookup in the wrong directory changes
// the probe outcomes instead of failing.
type includeCase struct {
	Name  string            `json:"name"`
	Main  string            `json:"main"`
	Files map[string]string `json:"files"`
	Want  string            `json:"want"` // the word the rule must look for
	Op    string            `json:"op"`
}

func includeCases() []includeCase {
	var out []includeCase
	noop := "SecAction \"id:50,phase:1,pass,nolog\"\n"
	for _, op := range []string{"pmFromFile", "ipMatchFromFile"} {
		data := func(word string) string { return "# list\n" + word + "\n" }
		words := map[string]string{"": "alpha", "sub/": "beta", "sub/deep/": "gamma", "other/": "delta"}
		if op == "ipMatchFromFile" {
			words = map[string]string{"": "10.0.0.1", "sub/": "10.0.0.2", "sub/deep/": "10.0.0.3", "other/": "10.0.0.4"}
		}
		target := "ARGS:q"
		rule := func(id int) string {
			return fmt.Sprintf("SecRule %s \"@%s words.dat\" \"id:%d,phase:1,deny,status:403\"\n", target, op, id)
		}
		files := func(extra map[string]string) map[string]string {
			m := map[string]string{}
			for dir, w := range words {
				m[dir+"words.dat"] = data(w)
			}
			for k, v := range extra {
				m[k] = v
			}
			return m
		}
		eng := "SecRuleEngine On\n"
		add := func(name, main string, extra map[string]string, wantDir string) {
			out = append(out, includeCase{Name: op + ": " + name, Main: main, Files: files(extra), Want: words[wantDir], Op: op})
		}
		add("one file", eng+noop+rule(1), nil, "")
		add("rule before an Include of another directory", eng+rule(1)+"Include sub/inc.conf\n", map[string]string{"sub/inc.conf": noop}, "")
		add("rule after an Include of another directory", eng+"Include sub/inc.conf\n"+rule(1), map[string]string{"sub/inc.conf": noop}, "")
		add("rule after two Includes", eng+"Include sub/inc.conf\nInclude other/inc.conf\n"+rule(1), map[string]string{"sub/inc.conf": noop, "other/inc.conf": strings.Replace(noop, "id:50", "id:51", 1)}, "")
		add("rule in an included file", eng+"Include sub/inc.conf\n", map[string]string{"sub/inc.conf": noop + rule(1)}, "sub/")
		add("rule in an included file after a nested Include", eng+"Include sub/outer.conf\n", map[string]string{"sub/outer.conf": "Include deep/inner.conf\n" + rule(1), "sub/deep/inner.conf": noop}, "sub/")
		add("rule in the nested file", eng+"Include sub/outer.conf\n", map[string]string{"sub/outer.conf": "Include deep/inner.conf\n", "sub/deep/inner.conf": noop + rule(1)}, "sub/deep/")
		add("rule after a glob Include", eng+"Include sub/*.conf\n"+rule(1), map[string]string{"sub/a.conf": noop, "sub/b.conf": strings.Replace(noop, "id:50", "id:51", 1)}, "")
		// only `*` makes an Include a pattern: a file whose name holds other glob metacharacters is that file
		add("rule in an included file whose name holds brackets", eng+"Include sub/inc[1].conf\n", map[string]string{"sub/inc[1].conf": noop + rule(1), "sub/inc1.conf": noop}, "sub/")
		add("rule in an included file whose name holds a question mark", eng+"Include sub/inc?.conf\n", map[string]string{"sub/inc?.conf": noop + rule(1), "sub/incX.conf": noop}, "sub/")
		add("rules in parent and child", eng+"Include sub/inc.conf\n"+rule(1), map[string]string{"sub/inc.conf": strings.Replace(rule(2), "deny,status:403", "pass,nolog", 1)}, "")
	}
	return out
}

func checkIncludes(c *runner.Ctx, idx *int) {
	for _, ic := range includeCases() {
		*idx++
		if !c.Mine(*idx) || c.Expired() {
			continue
		}
		c.Count("include_data_file_cases", 1)
		var probes []Probe
		var words []string
		for _, f := range []string{"words.dat", "sub/words.dat", "sub/deep/words.dat", "other/words.dat"} {
			w := strings.TrimSpace(strings.TrimPrefix(ic.Files[f], "# list\n"))
			words = append(words, w)
			probes = append(probes, Probe{Args: [][2]string{{"q", w}}})
		}
		cfg := Config{Main: ic.Main, Files: ic.Files}
		var got []string
		sig := observe(cfg, probes)
		c.Count("evaluations", 1)
		c.Distinct("include:" + ic.Name)
		if sig.Err {
			c.Violation("include:data-file-not-found:"+ic.Name, fmt.Sprintf("configuration rejected: %s\n%s", sig.ErrMsg, cfg.String()), ic)
			continue
		}
		for i, ps := range sig.Probes {
			denied := ps.Itr != "-"
			if denied {
				got = append(got, words[i])
			}
		}
		c.Outcome(ic.Name + strings.Join(got, ","))
		if len(got) != 1 || got[0] != ic.Want {
			c.Violation("include:relative-data-file-resolved-elsewhere:"+ic.Name, fmt.Sprintf("the rule's data file is the one next to the file that contains the rule (word %q); the compiled rule denies %q\n%s", ic.Want, got, cfg.String()), ic)
		}
	}
}

func replayInclude(ic includeCase) (bool, string) {
	cfg := Config{Main: ic.Main, Files: ic.Files}
	var probes []Probe
	var words []string
	for _, f := range []string{"words.dat", "sub/words.dat", "sub/deep/words.dat", "other/words.dat"} {
		w := strings.TrimSpace(strings.TrimPrefix(ic.Files[f], "# list\n"))
		words = append(words, w)
		probes = append(probes, Probe{Args: [][2]string{{"q", w}}})
	}
	sig := observe(cfg, probes)
	if sig.Err {
		return true, fmt.Sprintf("configuration rejected: %s\n%s", sig.ErrMsg, cfg.String())
	}
	var got []string
	for i, ps := range sig.Probes {
		if ps.Itr != "-" {
			got = append(got, words[i])
		}
	}
	return len(got) != 1 || got[0] != ic.Want, fmt.Sprintf("%sthe rule must look for %q; the compiled rule denies %q\n", cfg.String(), ic.Want, got)
}
