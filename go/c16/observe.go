package c16

import (
	"io"
	"io/fs"
	"path"
	"sort"
	"strings"
	"time"

	coraza "github.com/corazawaf/coraza/v3"
	"github.com/corazawaf/coraza/v3/experimental"
	"github.com/corazawaf/coraza/v3/internal/verif/scen"
	"github.com/corazawaf/coraza/v3/types"
)

// observe compiles cfg through the public API and reads back everything the
// API shows about the compiled rules: observer metadata and probe outcomes.
func observe(cfg Config, probes []Probe) Sig {
	var metas []RuleMeta
	w, err := scen.Build(cfg.Main, func(c coraza.WAFConfig) coraza.WAFConfig {
		c = c.WithRootFS(memFS(cfg.Files))
		return experimental.WAFConfigWithRuleObserver(c, func(r types.RuleMetadata) {
			metas = append(metas, RuleMeta{ID: r.ID(), Phase: int(r.Phase()), Severity: int(r.Severity()),
				Tags: append([]string(nil), r.Tags()...), Rev: r.Revision(), Ver: r.Version()})
		})
	})
	if err != nil {
		return Sig{Err: true, ErrMsg: err.Error()}
	}
	defer scen.Close(w)
	s := Sig{Rules: metas}
	for _, p := range probes {
		o := scen.Run(w, p.req(), scen.Options{Vars: true})
		ps := ProbeSig{Itr: o.Interruption}
		if o.Panic != "" {
			ps.Itr = "PANIC " + o.Panic
		}
		for _, m := range o.Matched {
			// MatchedRule.Data() is only filled when the rule has a msg; the
			// first matched datum always carries the expanded logdata
			data := m.Data
			if len(m.DatasOrd) > 0 {
				if i, j := strings.LastIndex(m.DatasOrd[0], "|data="), strings.LastIndex(m.DatasOrd[0], "|lvl="); i >= 0 && j > i {
					data = m.DatasOrd[0][i+6 : j]
				}
			}
			ps.Fired = append(ps.Fired, Fired{ID: m.ID, Msg: m.Msg, Data: data, Datas: m.Datas})
		}
		sort.SliceStable(ps.Fired, func(i, j int) bool { return ps.Fired[i].ID < ps.Fired[j].ID })
		for _, kv := range o.Vars["TX/TX"] {
			// the ten capture slots exist (empty) in every transaction
			if k, v, _ := strings.Cut(kv, "="); v == "" && strings.Trim(k, "0123456789") == "" {
				continue
			}
			ps.TX = append(ps.TX, kv)
		}
		sort.Strings(ps.TX)
		s.Probes = append(s.Probes, ps)
	}
	return s
}

// ---------------------------------------------------------------------------
// In-memory root file system (ReadFile + Glob are what the parser uses).

type memFS map[string]string

func (m memFS) Open(name string) (fs.File, error) {
	s, ok := m[name]
	if !ok {
		return nil, &fs.PathError{Op: "open", Path: name, Err: fs.ErrNotExist}
	}
	return &memFile{name: path.Base(name), r: strings.NewReader(s), size: int64(len(s))}, nil
}

func (m memFS) ReadFile(name string) ([]byte, error) {
	s, ok := m[name]
	if !ok {
		return nil, &fs.PathError{Op: "open", Path: name, Err: fs.ErrNotExist}
	}
	return []byte(s), nil
}

func (m memFS) Glob(pattern string) ([]string, error) {
	var out []string
	for k := range m {
		ok, err := path.Match(pattern, k)
		if err != nil {
			return nil, err
		}
		if ok {
			out = append(out, k)
		}
	}
	sort.Strings(out)
	return out, nil
}

type memFile struct {
	name string
	r    *strings.Reader
	size int64
}

func (f *memFile) Stat() (fs.FileInfo, error) { return f, nil }
func (f *memFile) Read(p []byte) (int, error) { return f.r.Read(p) }
func (f *memFile) Close() error               { return nil }
func (f *memFile) Name() string               { return f.name }
func (f *memFile) Size() int64                { return f.size }
func (f *memFile) Mode() fs.FileMode          { return 0o444 }
func (f *memFile) ModTime() time.Time         { return time.Time{} }
func (f *memFile) IsDir() bool                { return false }
func (f *memFile) Sys() any                   { return nil }

var _ io.Reader = (*memFile)(nil)
