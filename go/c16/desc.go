package c16

import (
	"fmt"
	"sort"
	"strings"
)

// ---------------------------------------------------------------------------
// Structured rule description (the thing a rule "means").

// Target is one entry of the variable list of a SecRule.
type Target struct {
	Coll   string `json:"c"`
	Kind   int    `json:"k,omitempty"`   // 0 whole collection, 1 plain key, 2 regex key
	Key    string `json:"key,omitempty"` // plain key, or the regex pattern as the regex engine must see it
	Quoted bool   `json:"q,omitempty"`   // the key is written between single quotes
	Neg    bool   `json:"neg,omitempty"` // exclusion (!)
	Count  bool   `json:"cnt,omitempty"` // count (&)
}

// Action is one action of the action list. Value is the value the action must
// end up with (not its spelling).
type Action struct {
	Name  string `json:"n"`
	Value string `json:"v,omitempty"`
}

// Desc describes one rule.
type Desc struct {
	SecAction bool     `json:"secaction,omitempty"`
	Targets   []Target `json:"t,omitempty"`
	Not       bool     `json:"not,omitempty"`
	Op        string   `json:"op,omitempty"` // operator name without '@' (streq, rx)
	Arg       string   `json:"arg,omitempty"`
	Actions   []Action `json:"a"`
	// Default: action list of a SecDefaultAction written in front of the rule (in the same style); the
	// rule's `block` stands for the disruptive action and status of that list
	Default []Action `json:"default,omitempty"`
}

const (
	kindWhole = 0
	kindPlain = 1
	kindRegex = 2
)

var valueless = map[string]bool{"pass": true, "log": true, "nolog": true, "deny": true, "auditlog": true, "noauditlog": true, "block": true}
var valued = map[string]bool{"id": true, "phase": true, "msg": true, "logdata": true, "tag": true, "severity": true,
	"setvar": true, "status": true, "redirect": true, "t": true, "rev": true, "ver": true}

func (t Target) label() string {
	s := ""
	if t.Neg {
		s += "excl-"
	}
	if t.Count {
		s += "count-"
	}
	if t.Quoted {
		s += "quoted-"
	}
	switch t.Kind {
	case kindWhole:
		s += "collection"
	case kindPlain:
		s += "plain-key"
	default:
		s += "regex-key"
		if strings.Contains(t.Key, "/") {
			s += "-with-slash"
		}
	}
	return s
}

func (d Desc) action(name string) (string, bool) {
	for _, a := range d.Actions {
		if a.Name == name {
			return a.Value, true
		}
	}
	return "", false
}

func (d Desc) has(name string) bool { _, ok := d.action(name); return ok }

// canon is the canonical text of a description (for Distinct and fallback signatures).
func (d Desc) canon() string {
	text, _ := renderRule(d, Style{})
	return text
}

// ---------------------------------------------------------------------------
// Vocabulary.

var argsKeyA = Target{Coll: "ARGS_GET", Kind: kindPlain, Key: "a"}

func singleTargets() []Target {
	return []Target{
		{Coll: "ARGS_GET"},
		argsKeyA,
		{Coll: "ARGS_GET", Kind: kindRegex, Key: "^a|b$"},
		{Coll: "ARGS_GET", Kind: kindRegex, Key: "^p/q"},
		{Coll: "ARGS_GET", Kind: kindRegex, Key: `^q\\`}, // ends with an escaped backslash: /^q\\/
		{Coll: "ARGS_GET", Kind: kindRegex, Key: "^a|b$", Quoted: true},
		{Coll: "ARGS_GET", Kind: kindPlain, Key: "a", Quoted: true},
		{Coll: "ARGS_GET", Count: true},
		{Coll: "ARGS_GET", Kind: kindPlain, Key: "a", Count: true},
		{Coll: "ARGS_GET", Kind: kindRegex, Key: "^a|b$", Count: true},
		{Coll: "ARGS_GET", Kind: kindRegex, Key: "^a|b$", Count: true, Quoted: true},
		{Coll: "REQUEST_HEADERS", Kind: kindPlain, Key: "x-a"},
		{Coll: "REQUEST_HEADERS", Kind: kindRegex, Key: "^x-|q$"},
		{Coll: "REQUEST_HEADERS"},
	}
}

func exclusions() []Target {
	return []Target{
		{Coll: "ARGS_GET", Kind: kindPlain, Key: "b", Neg: true},
		{Coll: "ARGS_GET", Kind: kindRegex, Key: "^a", Neg: true},
		{Coll: "ARGS_GET", Kind: kindRegex, Key: "b|p/", Neg: true},
		{Coll: "ARGS_GET", Kind: kindRegex, Key: "^a", Neg: true, Quoted: true},
		{Coll: "ARGS_GET", Kind: kindPlain, Key: "b", Neg: true, Quoted: true},
	}
}

// targetLists enumerates the target lists of the tier: every single target,
// every ordered pair (second element: any single target or any exclusion) and,
// in the thorough tier, every triple whose third element comes from a small set.
func targetLists(thorough bool) [][]Target {
	var out [][]Target
	singles := singleTargets()
	seconds := append(append([]Target{}, singles...), exclusions()...)
	for _, a := range singles {
		out = append(out, []Target{a})
	}
	for _, a := range singles {
		for _, b := range seconds {
			out = append(out, []Target{a, b})
		}
	}
	if thorough {
		thirds := []Target{singles[1], singles[2], singles[5], exclusions()[1], exclusions()[3]}
		for _, a := range singles {
			for _, b := range seconds {
				for _, c := range thirds {
					out = append(out, []Target{a, b, c})
				}
			}
		}
	}
	return out
}

var argAlphabet = []byte{'a', ' ', '"', '\\', '\'', ',', ':', '@', '!'}

// operatorArgs enumerates every string over argAlphabet up to maxLen.
func operatorArgs(maxLen int, emit func(string)) {
	var rec func(prefix []byte)
	rec = func(prefix []byte) {
		if len(prefix) > 0 {
			emit(string(prefix))
		}
		if len(prefix) == maxLen {
			return
		}
		for _, c := range argAlphabet {
			rec(append(prefix, c))
		}
	}
	rec(nil)
}

// argRepresentable says whether an operator argument has any spelling inside
// a double-quoted operator: `\"` is the only escape (a backslash stays a
// backslash), so an odd run of backslashes before a quote or at the end cannot
// be written; the argument is trimmed, so outer spaces cannot be written.
func argRepresentable(arg string) bool {
	if arg != strings.TrimSpace(arg) {
		return false
	}
	run := 0
	for i := 0; i < len(arg); i++ {
		switch arg[i] {
		case '\\':
			run++
		case '"':
			if run%2 == 1 {
				return false
			}
			run = 0
		default:
			run = 0
		}
	}
	return run%2 == 0
}

// valueAlphabet: the values text-carrying actions take.
var textValues = []string{"m", "a b", "a,b", "a:b", "a, b:c", "it's", "'q'", "x=y,z:w", "a,'b',c", "it's, x:y"}

// valueRepresentable: a value has a spelling unless it contains a backslash
// (the scanner treats the character after any backslash as escaped).
func valueRepresentable(v string) bool {
	return !strings.Contains(v, "\\") && v != "" && v == strings.TrimSpace(v)
}

func acts(kv ...string) []Action {
	var out []Action
	for _, s := range kv {
		n, v, _ := strings.Cut(s, "=")
		out = append(out, Action{Name: n, Value: v})
	}
	return out
}

// payloads are the value-carrying actions the action axis combines.
func payloads(thorough bool) []Action {
	var out []Action
	for _, v := range textValues {
		out = append(out, Action{"msg", v}, Action{"logdata", v}, Action{"tag", v})
	}
	for _, v := range []string{"m", "a,b", "it's", "'q'"} {
		out = append(out, Action{"rev", v}, Action{"ver", v})
	}
	for _, v := range []string{"1", "a b", "a,b", "a:b", "it's", "x=y,z:w", "it's, x:y"} {
		out = append(out, Action{"setvar", "tx.k=" + v})
	}
	out = append(out, Action{"severity", "2"}, Action{"severity", "CRITICAL"}, Action{"t", "lowercase"})
	return out
}

// actionLists enumerates the action lists of the action axis: id, phase, a
// disruptive group and one or two payload actions in both orders.
func actionLists(thorough bool) [][]Action {
	var out [][]Action
	heads := [][]Action{
		acts("id=1", "phase=2", "pass", "log"),
		acts("id=1", "phase=1", "deny", "status=401"),
	}
	pl := payloads(thorough)
	for _, h := range heads {
		for _, p := range pl {
			out = append(out, append(append([]Action{}, h...), p))
			// payload first: the value is followed by a separator
			out = append(out, append([]Action{p}, h...))
		}
	}
	// redirect targets with ':' ',' and quotes
	for _, u := range []string{"http://h/p", "http://h/p?x=1,2", "http://h/it's"} {
		out = append(out, append(acts("id=1", "phase=2", "status=302", "log"), Action{"redirect", u}))
		out = append(out, append([]Action{{"redirect", u}}, acts("status=307", "id=1", "phase=1")...))
		// a disruptive action that replaces an earlier one of the same list (the last one decides, its value intact)
		out = append(out, append(acts("id=1", "phase=2", "deny", "status=302", "log"), Action{"redirect", u}))
		out = append(out, append(acts("id=1", "phase=1", "pass", "status=307"), Action{"redirect", u}, Action{"log", ""}))
	}
	// pairs of payloads
	second := []Action{{"tag", "t2"}, {"msg", "a,b"}, {"logdata", "it's"}, {"setvar", "tx.j=a,b"}, {"t", "none"}}
	if thorough {
		second = pl
	}
	for _, p := range pl {
		for _, q := range second {
			if p.Name == q.Name && p.Name != "tag" && p.Name != "setvar" {
				continue
			}
			if p.Name == "t" && q.Name == "t" {
				continue
			}
			out = append(out, append(acts("id=1", "phase=2", "pass", "log"), p, q))
		}
	}
	return out
}

// Basic components used when another axis is enumerated.
var basicActs = acts("id=1", "phase=2", "pass", "log", "msg=a, b:c")
var denyActs = []Action{{"id", "1"}, {"phase", "1"}, {"deny", ""}, {"status", "401"}, {"logdata", "x=y,z:w"}, {"tag", "it's"}, {"t", "lowercase"}}

// descriptions enumerates the description space of the tier.
func descriptions(thorough bool, emit func(axis string, d Desc)) {
	// target axis
	for _, tl := range targetLists(thorough) {
		emit("targets", Desc{Targets: tl, Not: true, Op: "streq", Arg: "zz", Actions: basicActs})
		emit("targets", Desc{Targets: tl, Op: "streq", Arg: "v1", Actions: basicActs})
		if thorough {
			emit("targets", Desc{Targets: tl, Op: "streq", Arg: `a" "b`, Actions: denyActs})
		}
	}
	// operator axis
	maxLen := 3
	if thorough {
		maxLen = 4
	}
	operatorArgs(maxLen, func(arg string) {
		emit("operator", Desc{Targets: []Target{argsKeyA}, Op: "streq", Arg: arg, Actions: basicActs})
		if thorough || len(arg) <= 2 {
			emit("operator", Desc{Targets: []Target{argsKeyA}, Not: true, Op: "streq", Arg: arg, Actions: basicActs})
		}
		if thorough || len(arg) <= 2 {
			emit("operator", Desc{Targets: []Target{{Coll: "ARGS_GET", Kind: kindRegex, Key: "^a|b$"}, {Coll: "ARGS_GET", Kind: kindPlain, Key: "b", Neg: true}},
				Op: "streq", Arg: arg, Actions: denyActs})
		}
	})
	defaultActionDescs(emit)
	// action axis
	for _, al := range actionLists(thorough) {
		emit("actions", Desc{Targets: []Target{argsKeyA}, Op: "streq", Arg: "v1", Actions: al})
		if thorough || len(al) <= 5 {
			emit("actions", Desc{SecAction: true, Actions: al})
		}
		if thorough {
			emit("actions", Desc{Targets: []Target{{Coll: "ARGS_GET", Kind: kindRegex, Key: "^a|b$", Quoted: true}}, Not: true, Op: "streq", Arg: `a" "b\\`, Actions: al})
		}
	}
}

// defaultActionDescs: a rule whose `block` takes its meaning from a SecDefaultAction of the rule's phase.
func defaultActionDescs(emit func(axis string, d Desc)) {
	for _, phase := range []string{"1", "2"} {
		for _, def := range [][]Action{
			acts("phase="+phase, "log", "deny", "status=401"),
			acts("phase="+phase, "nolog", "pass"),
			{{"phase", phase}, {"log", ""}, {"status", "307"}, {"redirect", "http://h/p?x=1,2"}},
		} {
			for _, own := range [][]Action{acts("id=1", "phase="+phase, "block"), acts("id=1", "phase="+phase, "block", "msg=a, b:c"), acts("id=1", "phase="+phase, "log", "tag=t1")} {
				emit("actions", Desc{Targets: []Target{argsKeyA}, Op: "streq", Arg: "v1", Actions: own, Default: def})
			}
		}
	}
}

// sentinel is the rule that follows the rule under test in every configuration.
var sentinel = Desc{SecAction: true, Actions: acts("id=99", "phase=1", "pass", "log")}

// ---------------------------------------------------------------------------
// Rendering.

// Style is one way of writing a description down.
type Style struct {
	DirCase  int   `json:"dc,omitempty"` // 0 SecRule, 1 secrule, 2 SECRULE
	ActCase  int   `json:"ac,omitempty"` // 0 msg, 1 MSG, 2 Msg
	Quote    int   `json:"qu,omitempty"` // 0 values quoted only where needed, 1 every value quoted
	CommaSp  int   `json:"cs,omitempty"` // 0 "a,b", 1 "a, b", 2 "a ,b" with a blank after the action colon and before a continuation backslash
	Cont     []int `json:"ct,omitempty"` // token boundaries carrying a line continuation
	Indent   int   `json:"in,omitempty"` // 0 none, 1 first line indented with spaces, continuation lines with tab+spaces
	CRLF     bool  `json:"crlf,omitempty"`
	Comments int   `json:"cm,omitempty"` // 0 none, 1 comment and blank lines around every directive
	Place    int   `json:"pl,omitempty"` // 0 inline, 1 included file, 2 nested include in a sub directory (quoted path), 3 glob include
	NoFinal  bool  `json:"nf,omitempty"` // the last line has no newline
	LongLine int   `json:"ll,omitempty"` // 1 a 70 kB comment line precedes the rule
	// Split: a line continuation in the middle of a token - after every backslash of the rule text, and after every
	// 'a', that is followed by a non-blank character (the continuation backslash then directly follows a content byte)
	Split bool `json:"sp,omitempty"`
}

func (s Style) has(b int) bool {
	for _, x := range s.Cont {
		if x == b {
			return true
		}
	}
	return false
}

// dims lists the dimensions in which s departs from the canonical style.
func (s Style) dims() []string {
	var d []string
	if s.DirCase != 0 {
		d = append(d, fmt.Sprintf("directive-case=%d", s.DirCase))
	}
	if s.ActCase != 0 {
		d = append(d, fmt.Sprintf("action-case=%d", s.ActCase))
	}
	if s.Split {
		d = append(d, "continuation-inside-token")
	}
	if s.Quote != 0 {
		d = append(d, "all-values-quoted")
	}
	if s.CommaSp != 0 {
		d = append(d, "space-after-comma")
	}
	if len(s.Cont) > 0 {
		d = append(d, "continuation")
	}
	if s.Indent != 0 {
		d = append(d, "indent")
	}
	if s.CRLF {
		d = append(d, "crlf")
	}
	if s.Comments != 0 {
		d = append(d, "comments")
	}
	if s.Place != 0 {
		d = append(d, fmt.Sprintf("include=%d", s.Place))
	}
	if s.NoFinal {
		d = append(d, "no-final-newline")
	}
	if s.LongLine != 0 {
		d = append(d, "line-over-64k")
	}
	return d
}

// only returns the style that departs from canonical in dimension name only.
func (s Style) only(dim string) Style {
	var o Style
	switch {
	case strings.HasPrefix(dim, "directive-case"):
		o.DirCase = s.DirCase
	case strings.HasPrefix(dim, "action-case"):
		o.ActCase = s.ActCase
	case dim == "all-values-quoted":
		o.Quote = s.Quote
	case dim == "space-after-comma":
		o.CommaSp = s.CommaSp
	case dim == "continuation":
		o.Cont = s.Cont
	case dim == "indent":
		o.Indent = s.Indent
	case dim == "crlf":
		o.CRLF = true
	case dim == "comments":
		o.Comments = s.Comments
	case strings.HasPrefix(dim, "include"):
		o.Place = s.Place
	case dim == "no-final-newline":
		o.NoFinal = true
	case dim == "line-over-64k":
		o.LongLine = s.LongLine
	case dim == "continuation-inside-token":
		o.Split = true
	}
	return o
}

// with merges two styles (each departing from canonical in different dimensions).
func (s Style) with(o Style) Style {
	if o.DirCase != 0 {
		s.DirCase = o.DirCase
	}
	if o.ActCase != 0 {
		s.ActCase = o.ActCase
	}
	if o.Quote != 0 {
		s.Quote = o.Quote
	}
	if o.CommaSp != 0 {
		s.CommaSp = o.CommaSp
	}
	if len(o.Cont) > 0 {
		s.Cont = o.Cont
	}
	if o.Indent != 0 {
		s.Indent = o.Indent
	}
	if o.Comments != 0 {
		s.Comments = o.Comments
	}
	if o.Place != 0 {
		s.Place = o.Place
	}
	if o.LongLine != 0 {
		s.LongLine = o.LongLine
	}
	s.CRLF = s.CRLF || o.CRLF
	s.NoFinal = s.NoFinal || o.NoFinal
	s.Split = s.Split || o.Split
	return s
}

func caseOf(name string, mode int) string {
	switch mode {
	case 1:
		return strings.ToLower(name)
	case 2:
		return strings.ToUpper(name)
	}
	return name
}

func actCase(name string, mode int) string {
	switch mode {
	case 1:
		return strings.ToUpper(name)
	case 2:
		return strings.ToUpper(name[:1]) + name[1:]
	}
	return name
}

// Delim is one delimiter occurrence in a rendered rule.
type Delim struct {
	Off  int    `json:"off"`
	Len  int    `json:"len"`
	Kind string `json:"kind"`
}

type writer struct {
	sb     strings.Builder
	delims []Delim
}

func (w *writer) text(s string) { w.sb.WriteString(s) }
func (w *writer) delim(kind, s string) {
	w.delims = append(w.delims, Delim{Off: w.sb.Len(), Len: len(s), Kind: kind})
	w.sb.WriteString(s)
}

const contIndent = "\t  "

func needsQuote(v string) bool {
	return strings.ContainsAny(v, ",'") || v != strings.TrimSpace(v) || v == ""
}

func renderTarget(w *writer, t Target) {
	if t.Neg {
		w.delim("target-bang", "!")
	}
	if t.Count {
		w.delim("target-amp", "&")
	}
	w.text(t.Coll)
	if t.Kind == kindWhole {
		return
	}
	w.delim("target-colon", ":")
	if t.Quoted {
		w.delim("key-open-squote", "'")
	}
	if t.Kind == kindRegex {
		w.delim("regex-open-slash", "/")
		pat := t.Key
		for i := 0; i < len(pat); i++ {
			if pat[i] == '/' {
				w.delim("regex-escape-backslash", "\\")
			}
			w.text(pat[i : i+1])
		}
		w.delim("regex-close-slash", "/")
	} else {
		w.text(t.Key)
	}
	if t.Quoted {
		w.delim("key-close-squote", "'")
	}
}

// renderRule writes one rule (one logical line, possibly several physical
// lines, no final newline) in style st and reports where its delimiters are.
func renderRule(d Desc, st Style) (string, []Delim) {
	w := &writer{}
	boundary := 0
	// top-level boundary between directive arguments
	top := func() {
		if st.has(boundary) {
			w.text(" ")
			w.delim("continuation-backslash", "\\")
			w.delim("continuation-newline", "\n")
			if st.Indent != 0 {
				w.text(contIndent)
			}
		} else {
			w.delim("argument-space", " ")
		}
		boundary++
	}
	if len(d.Default) > 0 {
		// the default action list precedes the rule on a line of its own, written in the same style
		// (its continuation boundaries are not varied)
		def, _ := renderRule(Desc{SecAction: true, Actions: d.Default}, Style{DirCase: st.DirCase, ActCase: st.ActCase, Quote: st.Quote, CommaSp: st.CommaSp, Indent: st.Indent})
		w.text(strings.Replace(def, caseOf("SecAction", st.DirCase), caseOf("SecDefaultAction", st.DirCase), 1))
		w.text("\n")
	}
	if st.Indent != 0 {
		w.text("    ")
	}
	if d.SecAction {
		w.text(caseOf("SecAction", st.DirCase))
		top()
	} else {
		w.text(caseOf("SecRule", st.DirCase))
		top()
		for i, t := range d.Targets {
			if i > 0 {
				w.delim("target-pipe", "|")
			}
			renderTarget(w, t)
		}
		top()
		w.delim("operator-open-dquote", "\"")
		if d.Not {
			w.delim("operator-bang", "!")
		}
		w.delim("operator-at", "@")
		w.text(d.Op)
		if d.Arg != "" {
			w.delim("operator-space", " ")
			for i := 0; i < len(d.Arg); i++ {
				if d.Arg[i] == '"' {
					w.delim("operator-escape-backslash", "\\")
				}
				w.text(d.Arg[i : i+1])
			}
		}
		w.delim("operator-close-dquote", "\"")
		top()
	}
	w.delim("actions-open-dquote", "\"")
	for i, a := range d.Actions {
		if i > 0 {
			if st.CommaSp == 2 {
				w.text(" ")
			}
			w.delim("action-comma", ",")
			if st.has(boundary) {
				if st.CommaSp == 2 {
					w.text(" ")
				}
				w.delim("continuation-backslash", "\\")
				w.delim("continuation-newline", "\n")
				if st.Indent != 0 {
					w.text(contIndent)
				}
			} else if st.CommaSp == 1 {
				w.text(" ")
			}
			boundary++
		}
		w.text(actCase(a.Name, st.ActCase))
		if valueless[a.Name] {
			continue
		}
		w.delim("action-colon", ":")
		if st.CommaSp == 2 {
			w.text(" ")
		}
		if st.Quote != 0 || needsQuote(a.Value) {
			w.delim("value-open-squote", "'")
			for j := 0; j < len(a.Value); j++ {
				if a.Value[j] == '\'' {
					w.delim("value-escape-backslash", "\\")
				}
				w.text(a.Value[j : j+1])
			}
			w.delim("value-close-squote", "'")
		} else {
			w.text(a.Value)
		}
	}
	w.delim("actions-close-dquote", "\"")
	if st.Split {
		return splitInsideTokens(w.sb.String()), nil
	}
	return w.sb.String(), w.delims
}

// splitInsideTokens inserts a line continuation after every backslash and every 'a' of the rule text that is
// followed by a non-blank byte and is not itself part of a continuation. Lines are trimmed before they are
// joined, so only such positions leave the logical line unchanged.
func splitInsideTokens(s string) string {
	var sb strings.Builder
	for i := 0; i < len(s); i++ {
		sb.WriteByte(s[i])
		if (s[i] != '\\' && s[i] != 'a') || i+1 >= len(s) {
			continue
		}
		switch s[i+1] {
		case ' ', '\t', '\n', '\r':
			continue
		}
		sb.WriteString("\\\n")
	}
	return sb.String()
}

// boundaries is the number of token boundaries of d that can carry a continuation.
func boundaries(d Desc) int {
	n := len(d.Actions) - 1
	if d.SecAction {
		return n + 1
	}
	return n + 3
}

// Config is a complete configuration: the text handed to WithDirectives and
// the files of the in-memory root file system.
type Config struct {
	Main  string            `json:"main"`
	Files map[string]string `json:"files,omitempty"`
}

func (c Config) size() int {
	n := len(c.Main)
	for k, v := range c.Files {
		n += len(k) + len(v)
	}
	return n
}

func (c Config) String() string {
	var sb strings.Builder
	fmt.Fprintf(&sb, "directives: %s\n", clip(c.Main))
	names := make([]string, 0, len(c.Files))
	for k := range c.Files {
		names = append(names, k)
	}
	sort.Strings(names)
	for _, k := range names {
		fmt.Fprintf(&sb, "file %s: %s\n", k, clip(c.Files[k]))
	}
	return sb.String()
}

func clip(s string) string {
	if len(s) > 600 {
		return fmt.Sprintf("%q...[%d bytes]...%q", s[:200], len(s), s[len(s)-200:])
	}
	return fmt.Sprintf("%q", s)
}

const commentBlock = "# a comment, with \"quotes\", 'quotes' and a colon: here\n\n   # an indented comment\n# a comment whose last character is a backslash \\\n"

// renderConfig writes the whole configuration around ruleText (the rule under
// test, already rendered): engine switch, the rule, the sentinel rule.
func renderConfig(ruleText string, st Style) Config {
	eng := caseOf("SecRuleEngine", st.DirCase) + " On"
	inc := caseOf("Include", st.DirCase)
	sentText, _ := renderRule(sentinel, Style{DirCase: st.DirCase, ActCase: st.ActCase, Quote: st.Quote, CommaSp: st.CommaSp})
	long := ""
	if st.LongLine != 0 {
		long = "# " + strings.Repeat("x", 70000) + "\n"
	}
	cm := ""
	if st.Comments != 0 {
		cm = commentBlock
	}
	join := func(lines ...string) string {
		var sb strings.Builder
		sb.WriteString(cm)
		for i, l := range lines {
			sb.WriteString(l)
			if i < len(lines)-1 || !st.NoFinal {
				sb.WriteString("\n")
			}
			if i < len(lines)-1 {
				sb.WriteString(cm)
			}
		}
		if !st.NoFinal {
			sb.WriteString(cm)
		}
		s := sb.String()
		if st.CRLF {
			s = strings.ReplaceAll(s, "\n", "\r\n")
		}
		return s
	}
	rule := long + ruleText
	switch st.Place {
	case 1:
		return Config{Main: join(eng, inc+" part.conf", sentText), Files: map[string]string{"part.conf": join(rule)}}
	case 2:
		return Config{Main: join(inc+" \"sub/p1.conf\"", inc+" tail.conf"), Files: map[string]string{
			"sub/p1.conf": join(eng, inc+" p2.conf"),
			"sub/p2.conf": join(rule),
			"tail.conf":   join(sentText),
		}}
	case 3:
		return Config{Main: join(eng, inc+" parts/*.conf"), Files: map[string]string{
			"parts/10-rule.conf": join(rule),
			"parts/20-tail.conf": join(sentText),
		}}
	}
	return Config{Main: join(eng, rule, sentText)}
}
