// Package c16 decides C16: directive text means the same however it is
// written; nothing is silently altered (DESIGN.md §3 C16).
//
// A structured rule description is rendered in every style of a finite style
// space, each rendering is compiled by the real parser through coraza.NewWAF
// and its behavioural signature (rule observer metadata + outcomes of a probe
// battery derived from the description) is compared with the signature an
// independent model derives from the description. Near-miss texts (one
// delimiter deleted or duplicated) must be rejected unless a strict reference
// reader can read them, in which case they must behave like what it read.
package c16

import (
	"encoding/json"
	"fmt"
	"os"
	"sort"
	"strings"

	"github.com/corazawaf/coraza/v3/internal/verif/runner"
)

func init() {
	runner.Register(&runner.Check{
		ID:    "C16",
		Level: "exploration",
		Rule: "case = (structured rule description, rendering style) or (description, base rendering, delimiter occurrence, delete|duplicate); " +
			"descriptions: target axis (every 1-2 element target list over 14 targets + 5 exclusions; thorough: + triples) x 2 operators (thorough 3), " +
			"operator axis (every argument string up to length 3 (thorough 4) over {a,space,\",\\,',comma,colon,@,!}, negated too up to length 2 (thorough: all), plus a second rule shape up to length 2 (thorough: all)), " +
			"action axis (id/phase/disruptive head x 1-2 value-carrying actions over 10 text values, in both positions; redirect targets) x {SecRule, SecAction}; " +
			"styles: token layer = directive case(3) x action-name case(3) x value quoting(2) x comma spacing(2) for action-axis descriptions (quick: the two sub-products case x case and quoting x spacing; other axes: directive case + one all-non-canonical style), " +
			"5 fixed layout styles for every description, and for every designated description (quick: each 120th/150th/700th of the target/action/operator axis, thorough: each 40th/50th/233rd) the whole layout layer = " +
			"every set of <=2 continuations over all token boundaries x indentation(2) x CRLF(2) x comment/blank lines(2) x placement(inline, Include, nested quoted Include in a sub directory, glob Include) x final newline(2), a 70 kB comment line in every placement (thorough: + full token layer x reduced layout layer); " +
			"near-misses: every delimiter occurrence of the varied component and of the directive's top level (argument spaces, operator/action-list quotes, continuations, the newline after the rule) deleted and duplicated in the canonical rendering (thorough: also in a continued, fully quoted rendering) + a continuation on the last line; " +
			"every evaluation compiles the text with the real parser and runs the probe battery; " +
			"include family: a rule with a relative data file (@pmFromFile, @ipMatchFromFile) before / after one, two, nested and glob Includes and inside included files, a same-named decoy file in every directory: the file next to the rule's own file must be the one used; " +
			"distinct_nontrivial = distinct configuration texts that differ from the canonical rendering of their description",
		Assumptions: []string{
			"the model (secmodel) covers ARGS_GET and REQUEST_HEADERS targets, @streq/@rx, and the actions id, phase, pass, log, deny, status, redirect, msg, logdata, tag, severity, setvar, t:none/lowercase, rev, ver; rule text outside this vocabulary is not enumerated",
			"operator arguments with outer spaces or an odd run of backslashes before a quote/at the end, and action values containing a backslash, have no spelling and are skipped (counted as unrepresentable_descriptions)",
			"blank and comment lines are ignored everywhere (also inside a continued line), as the parser documents; a missing space between the quoted operator and the quoted action list is tolerated",
			"a near-miss that compiles to exactly the rules it was derived from is tolerated (nothing altered); near-misses of a description whose own canonical rendering already fails are not generated",
			"not asserted (skipped_unspecified): text after the closing quote of an action value, a quote inside an unquoted value or key, rules without id",
		},
		Run:    run,
		Replay: replay,
	})
}

// Scenario is the replayable form of one case: a configuration, the probe
// battery and the signature it must show (or "must be rejected").
type Scenario struct {
	Cfg        Config   `json:"cfg"`
	Probes     []Probe  `json:"probes"`
	MustReject bool     `json:"must_reject,omitempty"`
	Allowed    []string `json:"allowed,omitempty"` // signatures tolerated instead of a rejection
	RejectWhy  string   `json:"reject_why,omitempty"`
	Expect     string   `json:"expect,omitempty"`
	Desc       *Desc    `json:"description,omitempty"`
	Style      *Style   `json:"style,omitempty"`
	NearMiss   string   `json:"near_miss,omitempty"`
}

func replay(raw json.RawMessage) (bool, string) {
	var ic includeCase
	if err := json.Unmarshal(raw, &ic); err == nil && ic.Want != "" && ic.Main != "" {
		return replayInclude(ic)
	}
	var sc Scenario
	if err := json.Unmarshal(raw, &sc); err != nil {
		return false, err.Error()
	}
	o := observe(sc.Cfg, sc.Probes)
	var sb strings.Builder
	sb.WriteString(sc.Cfg.String())
	if sc.MustReject {
		fmt.Fprintf(&sb, "the text cannot be represented (%s) and must be rejected\nobserved:\n%s", sc.RejectWhy, o.String())
		if o.Err {
			fmt.Fprintf(&sb, " (%s)\n", o.ErrMsg)
		}
		for _, a := range sc.Allowed {
			if a == o.String() {
				sb.WriteString("(tolerated: it compiles to exactly the rules it was derived from)\n")
				return false, sb.String()
			}
		}
		return !o.Err, sb.String()
	}
	fmt.Fprintf(&sb, "expected:\n%s\nobserved:\n%s", sc.Expect, o.String())
	if o.Err {
		fmt.Fprintf(&sb, " (%s)\n", o.ErrMsg)
	}
	return o.String() != sc.Expect, sb.String()
}

// ---------------------------------------------------------------------------

func representable(d Desc) bool {
	if !d.SecAction && !argRepresentable(d.Arg) {
		return false
	}
	for _, a := range d.Actions {
		if valued[a.Name] && !valueRepresentable(a.Value) {
			return false
		}
	}
	return true
}

// subsets of {0..n-1} of size <= 2
func contSets(n int) [][]int {
	out := [][]int{nil}
	for i := 0; i < n; i++ {
		out = append(out, []int{i})
	}
	for i := 0; i < n; i++ {
		for j := i + 1; j < n; j++ {
			out = append(out, []int{i, j})
		}
	}
	return out
}

// tokenStyles: the token layer. full = the whole product (36); otherwise the
// two sub-products case x case and quoting x spacing (12).
func tokenStyles(full bool, emit func(Style)) {
	for dc := 0; dc < 3; dc++ {
		for ac := 0; ac < 3; ac++ {
			for q := 0; q < 2; q++ {
				for cs := 0; cs < 3; cs++ {
					if !full && (dc != 0 || ac != 0) && (q != 0 || cs != 0) {
						continue
					}
					emit(Style{DirCase: dc, ActCase: ac, Quote: q, CommaSp: cs})
				}
			}
		}
	}
}

func layoutStyles(base Style, conts [][]int, emit func(Style)) {
	for _, ct := range conts {
		for in := 0; in < 2; in++ {
			for _, crlf := range []bool{false, true} {
				for cm := 0; cm < 2; cm++ {
					for pl := 0; pl < 4; pl++ {
						for _, nf := range []bool{false, true} {
							s := base
							s.Cont, s.Indent, s.CRLF, s.Comments, s.Place, s.NoFinal = ct, in, crlf, cm, pl, nf
							emit(s)
						}
					}
				}
			}
		}
	}
}

// designated says whether description number n of its axis gets the whole
// layout layer.
func designated(axis string, n int, thorough bool) bool {
	step := map[string]int{"targets": 120, "actions": 150, "operator": 700}[axis]
	if thorough {
		step /= 3
	}
	return n%step == 7%step
}

func stylesFor(axis string, n int, d Desc, thorough bool, emit func(Style)) {
	if axis == "actions" {
		tokenStyles(thorough, emit)
	} else {
		// the action list of these descriptions is fixed: directive case only,
		// and one style in which every token-layer dimension is non-canonical
		emit(Style{})
		emit(Style{DirCase: 1})
		emit(Style{DirCase: 2})
		emit(Style{DirCase: 1, ActCase: 2, Quote: 1, CommaSp: 1})
	}
	nb := boundaries(d)
	if designated(axis, n, thorough) {
		layoutStyles(Style{}, contSets(nb), emit)
		// a line over 64 kB in every placement
		for pl := 0; pl < 4; pl++ {
			emit(Style{LongLine: 1, Place: pl})
		}
		if thorough && axis != "operator" {
			// token layer x reduced layout layer
			tokenStyles(true, func(t Style) {
				layoutStyles(t, [][]int{{0, nb - 1}}, emit)
			})
		}
	} else {
		// every description still sees each layout dimension
		emit(Style{Cont: []int{0, nb - 1}, Indent: 1})
		emit(Style{Cont: []int{1}, CRLF: true, NoFinal: true})
		emit(Style{Comments: 1, Place: 1, DirCase: 1})
		emit(Style{Place: 2, Cont: []int{nb / 2}, DirCase: 2})
		emit(Style{Place: 3, Indent: 1, ActCase: 1})
	}
	emit(Style{Split: true})
	emit(Style{Split: true, CRLF: true, Place: 1})
}

func nearMissBases(axis string, d Desc, thorough bool) []Style {
	if !thorough || axis == "operator" {
		return []Style{{}}
	}
	nb := boundaries(d)
	return []Style{{}, {Quote: 1, Cont: []int{0, nb - 1}, Indent: 1}}
}

// ownDelim says whether a delimiter kind belongs to the component the axis
// varies or to the top level of the directive (the components are scanned by
// separate scanners; the top level decides where each begins and ends).
func ownDelim(axis, kind string) bool {
	switch {
	case strings.HasPrefix(kind, "target-"), strings.HasPrefix(kind, "key-"), strings.HasPrefix(kind, "regex-"):
		return axis == "targets"
	case kind == "operator-bang", kind == "operator-at", kind == "operator-space", kind == "operator-escape-backslash":
		return axis == "operator"
	case strings.HasPrefix(kind, "action-"), strings.HasPrefix(kind, "value-"):
		return axis == "actions"
	}
	return true
}

type caseCtx struct {
	c      *runner.Ctx
	axis   string
	d      Desc
	rules  []Desc
	probes []Probe
	exp    Sig
	expS   string
	canonT string
	canonO string // observed signature of the canonical rendering
}

func run(c *runner.Ctx) {
	// every NewWAF probes its temporary directory by creating a file: keep that in memory
	if dir, err := os.MkdirTemp("/dev/shm", "c16-"); err == nil {
		os.Setenv("TMPDIR", dir)
		defer os.RemoveAll(dir)
	}
	idx := 0
	perAxis := map[string]int{}
	descriptions(c.Thorough(), func(axis string, d Desc) {
		idx++
		n := perAxis[axis]
		perAxis[axis]++
		if !c.Mine(idx) || c.Expired() {
			return
		}
		c.Count("descriptions", 1)
		if !representable(d) {
			c.Count("unrepresentable_descriptions", 1)
			return
		}
		checkDesc(c, axis, n, d)
	})
	checkIncludes(c, &idx)
	c.Extra("axes", perAxis)
}

func checkDesc(c *runner.Ctx, axis string, n int, d Desc) {
	cc := &caseCtx{c: c, d: d, rules: []Desc{d, sentinel}}
	cc.probes = battery(cc.rules)
	cc.axis = axis
	cc.exp = expect(cc.rules, cc.probes)
	cc.expS = cc.exp.String()
	if cc.exp.Err {
		c.Violation("harness:model-rejects-enumerated-description:"+cc.exp.ErrMsg, d.canon(), Scenario{Desc: &d})
		return
	}
	canonRule, _ := renderRule(d, Style{})
	cc.canonT = renderConfig(canonRule, Style{}).Main
	seen := map[string]bool{}
	stylesFor(axis, n, d, c.Thorough(), func(st Style) {
		if c.Expired() {
			return
		}
		text, _ := renderRule(d, st)
		cfg := renderConfig(text, st)
		key := cfgKey(cfg)
		if seen[key] {
			c.Count("duplicate_renderings_skipped", 1)
			return
		}
		seen[key] = true
		cc.rendering(st, cfg)
	})
	if cc.canonO != cc.expS {
		// the description itself does not round-trip (reported above): its
		// near-misses would only repeat that
		c.Count("descriptions_without_near_misses", 1)
		return
	}
	if len(d.Default) > 0 {
		// the strict reference reader of the near-miss stage reads SecRule / SecAction only
		return
	}
	for _, st := range nearMissBases(axis, d, c.Thorough()) {
		if c.Expired() {
			return
		}
		cc.nearMisses(st, seen)
	}
}

func cfgKey(cfg Config) string {
	b, _ := json.Marshal(cfg)
	return string(b)
}

func (cc *caseCtx) rendering(st Style, cfg Config) {
	c := cc.c
	c.Count("evaluations", 1)
	c.Count("renderings", 1)
	o := observe(cfg, cc.probes)
	os := o.String()
	c.Outcome(os)
	if cfg.Main != cc.canonT {
		c.Distinct(cfgKey(cfg))
	} else {
		cc.canonO = os
	}
	if c.WantSample() && len(st.Cont) > 0 && st.Place != 0 {
		c.Sample(map[string]any{"description": cc.d, "style": st, "config": cfg, "signature": os})
	}
	if os == cc.expS {
		return
	}
	sig := cc.classifyRendering(st, o)
	what := fmt.Sprintf("rendering does not compile to its description\n%sexpected (model of the description):\n%sobserved:\n%s", cfg.String(), cc.expS, os)
	if o.Err {
		what += " (" + o.ErrMsg + ")\n"
	}
	stc := st
	c.Violation(sig, what, Scenario{Cfg: cfg, Probes: cc.probes, Expect: cc.expS, Desc: &cc.d, Style: &stc})
}

// matches says whether description d, written in style st, compiles to what
// the model says (used to localise a root cause).
func matches(d Desc, st Style) (bool, Sig, Sig) {
	rules := []Desc{d, sentinel}
	probes := battery(rules)
	e := expect(rules, probes)
	text, _ := renderRule(d, st)
	o := observe(renderConfig(text, st), probes)
	return e.String() == o.String(), e, o
}

func (cc *caseCtx) classifyRendering(st Style, o Sig) string {
	if ok, e, o0 := matches(cc.d, Style{}); !ok {
		return classifyDesc(cc.d, e, o0)
	}
	dims := st.dims()
	var culprits []string
	for _, dim := range dims {
		if ok, _, _ := matches(cc.d, st.only(dim)); !ok {
			culprits = append(culprits, dim)
		}
	}
	how := diffKind(cc.exp, o)
	if len(culprits) > 0 {
		return "rendering:" + culprits[0] + ":" + how
	}
	// no single dimension: the first pair of dimensions that fails together
	for i := 0; i < len(dims); i++ {
		for j := i + 1; j < len(dims); j++ {
			if ok, _, _ := matches(cc.d, st.only(dims[i]).with(st.only(dims[j]))); !ok {
				return "rendering:" + dims[i] + "+" + dims[j] + ":" + how
			}
		}
	}
	return "rendering:combination:" + strings.Join(dims, "+") + ":" + how
}

// diffKind names the first component in which observed departs from expected.
func diffKind(e, o Sig) string {
	switch {
	case e.Err && !o.Err:
		return "accepted"
	case !e.Err && o.Err:
		return "rejected"
	case e.Err && o.Err:
		return "same"
	}
	if len(o.Rules) < len(e.Rules) {
		return "rules-dropped"
	}
	if len(o.Rules) > len(e.Rules) {
		return "rules-added"
	}
	for i := range e.Rules {
		a, b := e.Rules[i], o.Rules[i]
		switch {
		case a.ID != b.ID:
			return "id"
		case a.Phase != b.Phase:
			return "phase"
		case a.Severity != b.Severity:
			return "severity"
		case fmt.Sprint(a.Tags) != fmt.Sprint(b.Tags) || len(a.Tags) != len(b.Tags):
			return "tag"
		case a.Rev != b.Rev:
			return "rev"
		case a.Ver != b.Ver:
			return "ver"
		}
	}
	for i := range e.Probes {
		if i >= len(o.Probes) {
			return "probes"
		}
		a, b := e.Probes[i], o.Probes[i]
		if len(a.Fired) != len(b.Fired) {
			return "fired-set"
		}
		for j := range a.Fired {
			x, y := a.Fired[j], b.Fired[j]
			switch {
			case x.ID != y.ID:
				return "fired-set"
			case fmt.Sprintf("%q", x.Datas) != fmt.Sprintf("%q", y.Datas):
				return "matched-data"
			case x.Msg != y.Msg:
				return "msg"
			case x.Data != y.Data:
				return "logdata"
			}
		}
		if a.Itr != b.Itr {
			return "interruption"
		}
		if fmt.Sprintf("%q", a.TX) != fmt.Sprintf("%q", b.TX) {
			return "setvar"
		}
	}
	return "same"
}

var trivialTargets = []Target{argsKeyA}
var trivialActs = acts("id=1", "phase=2", "pass", "log")

// classifyDesc names the root cause of a description whose canonical
// rendering does not compile to it: the first component (targets, operator,
// actions) that still fails when the other two are replaced by trivial ones,
// then the narrowest feature of that component that fails on its own.
func classifyDesc(d Desc, e, o Sig) string {
	how := diffKind(e, o)
	if !d.SecAction {
		for _, show := range []Desc{{Not: true, Op: "streq", Arg: "zz"}, {Op: "streq", Arg: "v1"}} {
			t := Desc{Targets: d.Targets, Not: show.Not, Op: show.Op, Arg: show.Arg, Actions: trivialActs}
			if ok, _, _ := matches(t, Style{}); !ok {
				return "roundtrip:target:" + targetCulprit(t)
			}
		}
		t := Desc{Targets: trivialTargets, Not: d.Not, Op: d.Op, Arg: d.Arg, Actions: trivialActs}
		if ok, _, _ := matches(t, Style{}); !ok {
			return "roundtrip:operator-argument:" + argCulprit(t)
		}
	}
	t := Desc{SecAction: d.SecAction, Targets: trivialTargets, Op: "streq", Arg: "v1", Actions: d.Actions}
	if d.SecAction {
		t.Targets, t.Op, t.Arg = nil, "", ""
	}
	if ok, _, _ := matches(t, Style{}); !ok {
		return "roundtrip:" + actionCulprit(t)
	}
	return "unclassified:" + how + ":" + d.canon()
}

func targetCulprit(d Desc) string {
	var all []string
	for _, t := range d.Targets {
		all = append(all, t.label())
		x := d
		x.Targets = []Target{t}
		if t.Neg {
			x.Targets = []Target{{Coll: t.Coll}, t}
		}
		if ok, _, _ := matches(x, Style{}); ok {
			continue
		}
		// does the key spelling fail already without the ! or & prefix?
		bare := t
		bare.Neg, bare.Count = false, false
		x.Targets = []Target{bare}
		if ok, _, _ := matches(x, Style{}); !ok {
			return bare.label()
		}
		return t.label()
	}
	return "combination:" + strings.Join(all, "+")
}

var charClass = map[byte]string{' ': "space", '"': "dquote", '\\': "backslash", '\'': "squote", ',': "comma", ':': "colon", '@': "at", '!': "bang"}

func classes(s string) string {
	seen := map[string]bool{}
	var out []string
	for i := 0; i < len(s); i++ {
		if c, ok := charClass[s[i]]; ok && !seen[c] {
			seen[c] = true
			out = append(out, c)
		}
	}
	if len(s) > 60000 {
		out = append(out, "over-64k")
	}
	sort.Strings(out)
	if len(out) == 0 {
		return "plain"
	}
	return strings.Join(out, "+")
}

// argCulprit: the shortest substring of the argument (embedded between
// letters) that already fails.
func argCulprit(d Desc) string {
	arg := d.Arg
	for l := 1; l < len(arg); l++ {
		for i := 0; i+l <= len(arg); i++ {
			sub := arg[i : i+l]
			for _, cand := range []string{"a" + sub + "a", sub + "a", "a" + sub, sub} {
				if !argRepresentable(cand) {
					continue
				}
				x := d
				x.Arg = cand
				if ok, _, _ := matches(x, Style{}); !ok {
					where := "inside"
					switch cand {
					case sub + "a":
						where = "at-start"
					case "a" + sub:
						where = "at-end"
					case sub:
						where = "alone"
					}
					return classSeq(sub) + "-" + where
				}
			}
		}
	}
	return classSeq(arg) + "-whole"
}

func classSeq(s string) string {
	var out []string
	for i := 0; i < len(s); i++ {
		if c, ok := charClass[s[i]]; ok {
			out = append(out, c)
		} else {
			out = append(out, "letter")
		}
	}
	return strings.Join(out, ".")
}

// actionCulprit: the single value-carrying action that fails on its own and
// how its compiled value departs from the described one.
func actionCulprit(d Desc) string {
	for _, a := range d.Actions {
		if !valued[a.Name] || a.Name == "id" || a.Name == "phase" {
			continue
		}
		x := d
		x.Actions = append(append([]Action{}, trivialActs...), a)
		if a.Name == "redirect" {
			x.Actions = append(acts("id=1", "phase=2", "log"), a)
		}
		if a.Name == "status" {
			x.Actions = append(acts("id=1", "phase=2", "log", "deny"), a)
		}
		ok, e, o := matches(x, Style{})
		if ok {
			continue
		}
		if o.Err {
			return "action-value:" + classes(valueOf(a)) + ":rejected"
		}
		if obs, found := readBack(a, o); found {
			return "action-value:" + editClass(valueOf(a), obs)
		}
		return "action:" + a.Name + ":" + classes(a.Value) + ":" + diffKind(e, o)
	}
	var names []string
	for _, a := range d.Actions {
		names = append(names, a.Name)
	}
	return "action-list:combination:" + strings.Join(names, ",")
}

func valueOf(a Action) string {
	if a.Name == "setvar" {
		if m := setvarRe.FindStringSubmatch(a.Value); m != nil {
			return m[2]
		}
	}
	return a.Value
}

// readBack extracts the compiled value of a text-carrying action from an
// observed signature (rule under test = first rule, probe 0 = the firing one
// for the trivial rule).
func readBack(a Action, o Sig) (string, bool) {
	if len(o.Rules) == 0 {
		return "", false
	}
	var f *Fired
	var ps *ProbeSig
	for i := range o.Probes {
		for j := range o.Probes[i].Fired {
			if o.Probes[i].Fired[j].ID == o.Rules[0].ID && f == nil {
				f, ps = &o.Probes[i].Fired[j], &o.Probes[i]
			}
		}
	}
	switch a.Name {
	case "tag":
		if len(o.Rules[0].Tags) == 1 {
			return o.Rules[0].Tags[0], true
		}
	case "rev":
		return o.Rules[0].Rev, true
	case "ver":
		return o.Rules[0].Ver, true
	case "msg":
		if f != nil {
			return f.Msg, true
		}
	case "logdata":
		if f != nil {
			return f.Data, true
		}
	case "setvar":
		if ps != nil && len(ps.TX) == 1 {
			_, v, _ := strings.Cut(ps.TX[0], "=")
			return v, true
		}
	case "redirect":
		if ps != nil {
			if i := strings.Index(ps.Itr, "data="); i >= 0 {
				var s string
				if _, err := fmt.Sscanf(ps.Itr[i+5:len(ps.Itr)-1], "%q", &s); err == nil {
					return s, true
				}
			}
		}
	}
	return "", false
}

// editClass names how an observed value departs from the expected one.
func editClass(exp, obs string) string {
	switch {
	case strings.Contains(exp, "'") && obs == strings.ReplaceAll(exp, "'", `\'`):
		return "backslash-of-escaped-quote-kept"
	case len(exp) >= 2 && obs == exp[1:len(exp)-1]:
		return "outer-characters-stripped:" + classes(exp[:1]+exp[len(exp)-1:])
	case obs == "":
		return "empty"
	case strings.HasPrefix(exp, obs):
		return "truncated-before:" + classSeq(exp[len(obs):len(obs)+1])
	case strings.HasPrefix(obs, exp):
		return "following-text-swallowed"
	case strings.HasSuffix(exp, obs):
		return "head-lost-up-to:" + classSeq(exp[len(exp)-len(obs)-1:len(exp)-len(obs)])
	}
	return "changed:" + classes(exp)
}

// ---------------------------------------------------------------------------
// Near-misses.

// unspecified: reference-reader refusals about which the documentation of the
// parser says nothing either way (quotes are balanced and the parser keeps the
// text literally); not asserted.
var unspecified = map[string]bool{
	"text-after-closing-quote-of-action-value": true,
	"quote-inside-unquoted-action-value":       true,
	"quote-inside-plain-key":                   true,
	"model: missing-id":                        true,
}

// literalReading: cfg, read with slashes inside unquoted keys taken literally,
// is a spelling of rules that behave as observed.
func (cc *caseCtx) literalReading(cfg Config, o Sig) bool {
	rules, err := refConfig(cfg, true)
	if err != nil {
		return false
	}
	return expect(rules, cc.probes).String() == o.String()
}

func (cc *caseCtx) nearMisses(st Style, seen map[string]bool) {
	text, delims := renderRule(cc.d, st)
	orig := cc.rules
	try := func(name, kind string, cfg Config) {
		key := cfgKey(cfg)
		if seen[key] {
			cc.c.Count("duplicate_renderings_skipped", 1)
			return
		}
		seen[key] = true
		cc.nearMiss(name, kind, cfg, orig)
	}
	for _, dl := range delims {
		if !ownDelim(cc.axis, dl.Kind) {
			continue
		}
		del := text[:dl.Off] + text[dl.Off+dl.Len:]
		dup := text[:dl.Off+dl.Len] + text[dl.Off:]
		try("delete "+dl.Kind, dl.Kind, renderConfig(del, Style{}))
		try("duplicate "+dl.Kind, dl.Kind, renderConfig(dup, Style{}))
	}
	// the newline that ends the rule
	base := renderConfig(text, Style{})
	marker := text + "\n"
	if i := strings.Index(base.Main, marker); i >= 0 {
		j := i + len(text)
		try("delete directive-newline", "directive-newline", Config{Main: base.Main[:j] + base.Main[j+1:]})
		try("duplicate directive-newline", "directive-newline", Config{Main: base.Main[:j] + "\n" + base.Main[j:]})
	}
	// a continuation on the last line of the text
	trimmed := strings.TrimSuffix(base.Main, "\n")
	try("continuation on the last line", "final-continuation", Config{Main: trimmed + " \\\n"})
	try("continuation on the last line, no newline", "final-continuation", Config{Main: trimmed + " \\"})
	if st.Place == 0 && len(st.Cont) == 0 {
		lone, _ := renderRule(cc.d, Style{})
		orig = []Desc{cc.d}
		try("continuation on the last line (rule last)", "final-continuation", Config{Main: "SecRuleEngine On\n" + lone + " \\\n"})
	}
}

func (cc *caseCtx) nearMiss(name, kind string, cfg Config, orig []Desc) {
	c := cc.c
	c.Count("evaluations", 1)
	c.Count("near_misses", 1)
	c.Distinct(cfgKey(cfg))
	rules, rerr := refConfig(cfg, false)
	probes := cc.probes
	var exp Sig
	if rerr != nil {
		exp = Sig{Err: true}
	} else {
		probes = battery(rules)
		exp = expect(rules, probes)
		if exp.Err {
			probes = cc.probes
		}
	}
	o := observe(cfg, probes)
	os := o.String()
	c.Outcome("near:" + os)
	if c.WantSample() && o.Err && kind == "value-close-squote" {
		c.Sample(map[string]any{"near_miss": name, "config": cfg, "outcome": os + " (" + o.ErrMsg + ")"})
	}
	switch {
	case exp.Err && o.Err:
		c.Count("near_misses_rejected", 1)
		return
	case !exp.Err && o.Err:
		// a readable text that the parser refuses: not "silently altered"
		c.Count("near_misses_readable_but_rejected", 1)
		return
	case exp.Err && o.String() == expect(orig, probes).String():
		// not a spelling of anything, but it compiles to exactly the rule it
		// was derived from: nothing is altered
		c.Count("near_misses_tolerated_same_meaning", 1)
		return
	case exp.Err && (rerr != nil && unspecified[kindOf(rerr)] || rerr == nil && unspecified[exp.ErrMsg]):
		c.Count("skipped_unspecified", 1)
		return
	case exp.Err && rerr != nil && kindOf(rerr) == "slash-inside-plain-key" && cc.literalReading(cfg, o):
		// a slash inside an unquoted key may be read as an ordinary character
		c.Count("near_misses_literal_reading", 1)
		return
	case exp.Err:
		why := "model: the description it spells cannot be compiled"
		sig := "nearmiss-accepted:"
		if rerr != nil {
			why = kindOf(rerr)
			sig += why
		} else {
			sig += exp.ErrMsg
		}
		what := fmt.Sprintf("near-miss text (%s) is not a spelling of any rule list (%s) but compiles without error\n%sobserved:\n%s", name, why, cfg.String(), os)
		allowed := []string{expect(orig, probes).String()}
		if rules2, err2 := refConfig(cfg, true); err2 == nil {
			allowed = append(allowed, expect(rules2, probes).String())
		}
		c.Violation(sig, what, Scenario{Cfg: cfg, Probes: probes, MustReject: true, RejectWhy: why, Allowed: allowed, NearMiss: name, Desc: &cc.d})
		return
	}
	c.Count("near_misses_readable", 1)
	if os == exp.String() {
		return
	}
	// the text is a spelling of other descriptions; if one of those does not
	// round-trip on its own, that is the root cause
	sig := ""
	for _, r := range rules {
		if r.SecAction && len(r.Actions) == len(sentinel.Actions) && r.canon() == sentinel.canon() {
			continue
		}
		if !representable(r) {
			continue
		}
		if ok, e, o0 := matches(r, Style{}); !ok {
			sig = classifyDesc(r, e, o0)
			break
		}
	}
	if sig == "" {
		sig = "nearmiss-differs:" + name + ":" + diffKind(exp, o)
	}
	what := fmt.Sprintf("near-miss text (%s) is a spelling of %d rule(s) but does not compile to them\n%sexpected:\n%sobserved:\n%s", name, len(rules), cfg.String(), exp.String(), os)
	c.Violation(sig, what, Scenario{Cfg: cfg, Probes: probes, Expect: exp.String(), NearMiss: name, Desc: &cc.d})
}
