package c16

import (
	"fmt"
	"net/url"
	"path"
	"regexp"
	"sort"
	"strconv"
	"strings"

	"github.com/corazawaf/coraza/v3/internal/verif/scen"
)

// ---------------------------------------------------------------------------
// Behavioural signature of a configuration.

// RuleMeta is what the rule observer reports about one compiled rule.
type RuleMeta struct {
	ID       int
	Phase    int
	Severity int
	Tags     []string
	Rev, Ver string
}

// Fired is one matched rule of a probe transaction.
type Fired struct {
	ID    int
	Msg   string
	Data  string
	Datas []string
}

// ProbeSig is the outcome of one probe transaction.
type ProbeSig struct {
	Itr   string
	Fired []Fired // sorted by ID
	TX    []string
}

// Sig is the behavioural signature of a configuration.
type Sig struct {
	Err    bool
	ErrMsg string `json:",omitempty"` // not compared
	Rules  []RuleMeta
	Probes []ProbeSig
}

func (s Sig) String() string {
	if s.Err {
		return "compile error"
	}
	var sb strings.Builder
	for _, r := range s.Rules {
		fmt.Fprintf(&sb, "rule id=%d phase=%d severity=%d tags=%q rev=%q ver=%q\n", r.ID, r.Phase, r.Severity, r.Tags, r.Rev, r.Ver)
	}
	for i, p := range s.Probes {
		fmt.Fprintf(&sb, "probe %d: itr=%s tx=%q\n", i, p.Itr, p.TX)
		for _, f := range p.Fired {
			fmt.Fprintf(&sb, "  fired %d msg=%q data=%q %q\n", f.ID, f.Msg, f.Data, f.Datas)
		}
	}
	return sb.String()
}

// ---------------------------------------------------------------------------
// Probe battery.

// Probe is one request of the battery, kept structured for the model.
type Probe struct {
	Args    [][2]string `json:"args"`
	Headers [][2]string `json:"headers,omitempty"`
}

func (p Probe) req() scen.Req {
	var q []string
	for _, a := range p.Args {
		q = append(q, url.QueryEscape(a[0])+"="+url.QueryEscape(a[1]))
	}
	return scen.Req{URI: "/p?" + strings.Join(q, "&"), Headers: p.Headers}
}

func probeFor(v string) Probe {
	return Probe{
		Args:    [][2]string{{"a", v}, {"b", v}, {"ab", v}, {"c", "zz"}, {"p/q", v}, {"d", "v1"}, {"bc", v}, {`q\x`, v}},
		Headers: [][2]string{{"x-a", v}, {"x-q", "v1"}},
	}
}

// battery derives the probe requests from the rule descriptions: for every
// operator argument the request that carries exactly those bytes in every
// selected place, its upper-case twin (transformations) and two fixed requests.
func battery(rules []Desc) []Probe {
	seen := map[string]bool{}
	var out []Probe
	add := func(v string) {
		if !seen[v] {
			seen[v] = true
			out = append(out, probeFor(v))
		}
	}
	add("v1")
	add("zz")
	for _, d := range rules {
		if d.SecAction {
			continue
		}
		add(d.Arg)
		add(strings.ToUpper(d.Arg))
	}
	return out
}

// ---------------------------------------------------------------------------
// secmodel: what a list of rule descriptions must do.

type invalid struct{ kind string }

func (e *invalid) Error() string { return e.kind }

func bad(kind string) error { return &invalid{kind} }

func kindOf(err error) string {
	if e, ok := err.(*invalid); ok {
		return e.kind
	}
	return "error"
}

var severities = map[string]int{"emergency": 0, "alert": 1, "critical": 2, "error": 3, "warning": 4, "notice": 5, "info": 6, "debug": 7}

var setvarRe = regexp.MustCompile(`^(?i:tx)\.([A-Za-z0-9_]+)=(.*)$`)

type compiled struct {
	d        Desc
	meta     RuleMeta
	status   int
	disrupt  string // "", deny, redirect
	redirect string
	msg      string
	logdata  string
	setvars  [][2]string
	lower    bool
	keyRx    []*regexp.Regexp // per target
	opRx     *regexp.Regexp
}

// inheritDefault takes the disruptive action, status and redirect target of the description's default action list.
func (c *compiled) inheritDefault() {
	c.disrupt = ""
	for _, da := range c.d.Default {
		switch da.Name {
		case "deny":
			c.disrupt = "deny"
		case "pass":
			c.disrupt = ""
		case "redirect":
			c.disrupt, c.redirect = "redirect", da.Value
		case "status":
			if n, err := strconv.Atoi(da.Value); err == nil {
				c.status = n
			}
		}
	}
}

// compile validates one description and resolves its actions.
func compile(d Desc) (*compiled, error) {
	c := &compiled{d: d, meta: RuleMeta{Phase: 2, Severity: -1}}
	explicit := false // the rule names a disruptive action itself
	defer func() {
		// a rule without a disruptive action of its own takes the one of the default action list
		if !explicit && len(d.Default) > 0 {
			st := c.status
			c.inheritDefault()
			if st != 0 {
				c.status = st
			}
		}
	}()
	for _, a := range d.Actions {
		switch {
		case valueless[a.Name]:
			if a.Value != "" {
				return nil, bad("value-for-valueless-action")
			}
		case valued[a.Name]:
			if a.Value == "" {
				return nil, bad("missing-action-value")
			}
		default:
			return nil, bad("unknown-action")
		}
		switch a.Name {
		case "id":
			n, err := strconv.Atoi(a.Value)
			if err != nil || n <= 0 {
				return nil, bad("bad-id")
			}
			c.meta.ID = n
		case "phase":
			n, err := strconv.Atoi(a.Value)
			if err != nil || n < 1 || n > 2 {
				return nil, bad("bad-phase")
			}
			c.meta.Phase = n
		case "status":
			n, err := strconv.Atoi(a.Value)
			if err != nil {
				return nil, bad("bad-status")
			}
			c.status = n
		case "severity":
			if len(a.Value) == 1 {
				n, err := strconv.Atoi(a.Value)
				if err != nil || n > 7 {
					return nil, bad("bad-severity")
				}
				c.meta.Severity = n
			} else if n, ok := severities[strings.ToLower(a.Value)]; ok {
				c.meta.Severity = n
			} else {
				return nil, bad("bad-severity")
			}
		case "msg":
			c.msg = a.Value
		case "logdata":
			c.logdata = a.Value
		case "tag":
			c.meta.Tags = append(c.meta.Tags, a.Value)
		case "rev":
			c.meta.Rev = a.Value
		case "ver":
			c.meta.Ver = a.Value
		case "setvar":
			m := setvarRe.FindStringSubmatch(a.Value)
			if m == nil {
				return nil, bad("bad-setvar")
			}
			c.setvars = append(c.setvars, [2]string{strings.ToLower(m[1]), m[2]})
		case "t":
			switch a.Value {
			case "none":
				c.lower = false
			case "lowercase":
				c.lower = true
			default:
				return nil, bad("bad-transformation")
			}
		case "deny":
			c.disrupt = "deny"
			explicit = true
		case "block":
			// the disruptive action (and status / redirect target) of the default action list of the rule's
			// phase; without one the built-in default is pass
			explicit = true
			c.inheritDefault()
		case "pass":
			c.disrupt = ""
			explicit = true
		case "redirect":
			c.disrupt = "redirect"
			c.redirect = a.Value
			explicit = true
		}
		if strings.Contains(a.Value, "%{") {
			return nil, bad("macro-out-of-model")
		}
	}
	if c.meta.ID == 0 {
		// what a rule without an id does is not part of the model
		return nil, bad("missing-id")
	}
	if d.SecAction {
		return c, nil
	}
	if len(d.Targets) == 0 {
		return nil, bad("no-targets")
	}
	for _, t := range d.Targets {
		if t.Coll != "ARGS_GET" && t.Coll != "REQUEST_HEADERS" {
			return nil, bad("unknown-collection")
		}
		var re *regexp.Regexp
		if t.Kind == kindRegex {
			pat := t.Key
			if t.Coll == "REQUEST_HEADERS" {
				pat = strings.ToLower(pat)
			}
			var err error
			re, err = regexp.Compile(pat)
			if err != nil {
				return nil, bad("bad-key-regex")
			}
		}
		if t.Kind == kindPlain && t.Key == "" {
			return nil, bad("empty-key")
		}
		c.keyRx = append(c.keyRx, re)
	}
	switch d.Op {
	case "streq":
	case "rx":
		re, err := regexp.Compile("(?sm)" + d.Arg)
		if err != nil {
			return nil, bad("bad-operator-regex")
		}
		c.opRx = re
	default:
		return nil, bad("unknown-operator")
	}
	if strings.Contains(d.Arg, "%{") {
		return nil, bad("macro-out-of-model")
	}
	return c, nil
}

type entry struct{ coll, key, val string }

func (c *compiled) selects(i int, name string) bool {
	t := c.d.Targets[i]
	switch t.Kind {
	case kindWhole:
		return true
	case kindPlain:
		return strings.EqualFold(name, t.Key)
	default:
		if t.Coll == "REQUEST_HEADERS" {
			name = strings.ToLower(name)
		}
		return c.keyRx[i].MatchString(name)
	}
}

// eval returns the matched data of the rule on p (nil = does not fire).
func (c *compiled) eval(p Probe) []string {
	if c.d.SecAction {
		return []string{"UNKNOWN||"}
	}
	var entries []entry
	for i, t := range c.d.Targets {
		if t.Neg {
			continue
		}
		src := p.Args
		if t.Coll == "REQUEST_HEADERS" {
			src = p.Headers
		}
		var sel []entry
		for _, kv := range src {
			if !c.selects(i, kv[0]) {
				continue
			}
			excluded := false
			// exclusions written before this target do not apply to it; the
			// vocabulary only writes them after
			for j := i + 1; j < len(c.d.Targets); j++ {
				if e := c.d.Targets[j]; e.Neg && e.Coll == t.Coll && c.selects(j, kv[0]) {
					excluded = true
				}
			}
			if !excluded {
				sel = append(sel, entry{t.Coll, kv[0], kv[1]})
			}
		}
		if t.Count {
			k := ""
			switch t.Kind {
			case kindPlain:
				k = t.Key
			case kindRegex:
				k = "/" + strings.ReplaceAll(t.Key, "/", `\/`) + "/"
			}
			if t.Coll == "REQUEST_HEADERS" {
				k = strings.ToLower(k)
			}
			sel = []entry{{t.Coll, k, strconv.Itoa(len(sel))}}
		}
		entries = append(entries, sel...)
	}
	var datas []string
	for _, e := range entries {
		v := e.val
		if c.lower {
			v = strings.ToLower(v)
		}
		var m bool
		if c.opRx != nil {
			m = c.opRx.MatchString(v)
		} else {
			m = v == c.d.Arg
		}
		if m != c.d.Not {
			datas = append(datas, e.coll+"|"+e.key+"|"+v)
		}
	}
	sort.Strings(datas)
	return datas
}

// expect is the signature the model derives from a list of rule descriptions.
func expect(rules []Desc, probes []Probe) Sig {
	var cs []*compiled
	ids := map[int]bool{}
	for _, d := range rules {
		c, err := compile(d)
		if err != nil {
			return Sig{Err: true, ErrMsg: "model: " + err.Error()}
		}
		if c.meta.ID != 0 && ids[c.meta.ID] {
			return Sig{Err: true, ErrMsg: "model: duplicate id"}
		}
		ids[c.meta.ID] = true
		cs = append(cs, c)
	}
	var s Sig
	for _, c := range cs {
		s.Rules = append(s.Rules, c.meta)
	}
	for _, p := range probes {
		ps := ProbeSig{Itr: "-"}
		tx := map[string]string{}
		stopped := false
		for phase := 1; phase <= 2 && !stopped; phase++ {
			for _, c := range cs {
				if c.meta.Phase != phase {
					continue
				}
				datas := c.eval(p)
				if datas == nil {
					continue
				}
				ps.Fired = append(ps.Fired, Fired{ID: c.meta.ID, Msg: c.msg, Data: c.logdata, Datas: datas})
				for _, sv := range c.setvars {
					tx[sv[0]] = sv[1]
				}
				switch c.disrupt {
				case "deny":
					st := c.status
					if st == 0 {
						st = 403
					}
					ps.Itr = fmt.Sprintf("{rule=%d action=deny status=%d data=%q}", c.meta.ID, st, "")
				case "redirect":
					st := 302
					if c.status == 301 || c.status == 302 || c.status == 303 || c.status == 307 {
						st = c.status
					}
					ps.Itr = fmt.Sprintf("{rule=%d action=redirect status=%d data=%q}", c.meta.ID, st, c.redirect)
				}
				if c.disrupt != "" {
					stopped = true
					break
				}
			}
		}
		sort.Slice(ps.Fired, func(i, j int) bool { return ps.Fired[i].ID < ps.Fired[j].ID })
		for k, v := range tx {
			ps.TX = append(ps.TX, k+"="+v)
		}
		sort.Strings(ps.TX)
		s.Probes = append(s.Probes, ps)
	}
	return s
}

// ---------------------------------------------------------------------------
// Reference reader: the strict inverse of the renderer. It accepts exactly the
// texts that are a spelling of some list of descriptions (in a vocabulary
// wider than the enumerated one) and says why not otherwise.

// refConfig reads cfg. literalSlash selects the alternative reading in which a
// slash after the first character of an unquoted key is an ordinary character.
func refConfig(cfg Config, literalSlash bool) ([]Desc, error) {
	r := &refReader{files: cfg.Files, literalSlash: literalSlash}
	if err := r.text(cfg.Main, ""); err != nil {
		return nil, err
	}
	return r.rules, nil
}

type refReader struct {
	literalSlash bool
	files        map[string]string
	rules        []Desc
	includes     int
}

func (r *refReader) text(s, dir string) error {
	var buf strings.Builder
	pending := false
	for _, raw := range strings.Split(s, "\n") {
		line := strings.TrimSpace(raw)
		if line == "" || line[0] == '#' {
			continue
		}
		if line[len(line)-1] == '\\' {
			buf.WriteString(line[:len(line)-1])
			pending = true
			continue
		}
		buf.WriteString(line)
		pending = false
		if err := r.line(buf.String(), dir); err != nil {
			return err
		}
		buf.Reset()
	}
	if pending {
		return bad("continuation-at-end-of-text")
	}
	return nil
}

func (r *refReader) line(l, dir string) error {
	name, rest, _ := strings.Cut(l, " ")
	rest = strings.Trim(rest, " ")
	switch strings.ToLower(name) {
	case "secruleengine":
		if rest != "On" {
			return bad("engine-argument")
		}
		return nil
	case "include":
		if len(rest) >= 2 && rest[0] == '"' && rest[len(rest)-1] == '"' {
			rest = rest[1 : len(rest)-1]
		}
		if rest == "" || strings.ContainsAny(rest, "\" ") {
			return bad("include-path")
		}
		r.includes++
		if r.includes > 100 {
			return bad("include-depth")
		}
		p := path.Join(dir, rest)
		var names []string
		if strings.Contains(p, "*") {
			for k := range r.files {
				if ok, _ := path.Match(p, k); ok {
					names = append(names, k)
				}
			}
			sort.Strings(names)
		} else {
			if _, ok := r.files[p]; !ok {
				return bad("include-missing-file")
			}
			names = []string{p}
		}
		for _, n := range names {
			if err := r.text(r.files[n], path.Dir(n)); err != nil {
				return err
			}
		}
		return nil
	case "secaction":
		var al []Action
		var err error
		if rest != "" && !strings.ContainsAny(rest, "\" ") {
			// an unquoted argument is one word
			al, err = refActions(rest)
		} else {
			al, err = refQuotedActions(rest)
		}
		if err != nil {
			return err
		}
		r.rules = append(r.rules, Desc{SecAction: true, Actions: al})
		return nil
	case "secrule":
		d, err := refRule(rest, r.literalSlash)
		if err != nil {
			return err
		}
		r.rules = append(r.rules, d)
		return nil
	}
	return bad("unknown-directive")
}

func refRule(rest string, literalSlash bool) (Desc, error) {
	var d Desc
	tg, rest, ok := strings.Cut(rest, " ")
	if !ok {
		return d, bad("missing-operator")
	}
	var err error
	if d.Targets, err = refTargets(tg, literalSlash); err != nil {
		return d, err
	}
	rest = strings.TrimLeft(rest, " ")
	if rest == "" || rest[0] != '"' {
		return d, bad("operator-not-quoted")
	}
	end := -1
	run := 0
	for i := 1; i < len(rest); i++ {
		switch rest[i] {
		case '\\':
			run++
		case '"':
			if run%2 == 0 {
				end = i
			}
			run = 0
		default:
			run = 0
		}
		if end >= 0 {
			break
		}
	}
	if end < 0 {
		return d, bad("operator-unterminated")
	}
	op := strings.ReplaceAll(rest[1:end], `\"`, `"`)
	rest = strings.TrimLeft(rest[end+1:], " ")
	// operator
	switch {
	case op == "" || (op[0] != '@' && op[0] != '!'):
		d.Op, d.Arg = "rx", strings.TrimSpace(op)
	case op == "!":
		d.Not, d.Op = true, "rx"
	case op[0] == '!' && op[1] != '@':
		d.Not, d.Op, d.Arg = true, "rx", strings.TrimSpace(op[1:])
	default:
		if op[0] == '!' {
			d.Not = true
			op = op[1:]
		}
		name, arg, _ := strings.Cut(op[1:], " ")
		d.Op, d.Arg = name, strings.TrimSpace(arg)
		if d.Op != "streq" && d.Op != "rx" {
			return d, bad("unknown-operator")
		}
	}
	if d.Actions, err = refQuotedActions(rest); err != nil {
		return d, err
	}
	return d, nil
}

func refQuotedActions(s string) ([]Action, error) {
	if len(s) < 2 || s[0] != '"' || s[len(s)-1] != '"' {
		if strings.Contains(s, `"`) {
			return nil, bad("dquote-inside-actions")
		}
		return nil, bad("actions-not-quoted")
	}
	s = s[1 : len(s)-1]
	if strings.Contains(s, `"`) {
		return nil, bad("dquote-inside-actions")
	}
	return refActions(s)
}

func refActions(s string) ([]Action, error) {
	var out []Action
	quotes := 0
	for i := 0; i < len(s); i++ {
		if s[i] == '\\' {
			i++
			continue
		}
		if s[i] == '\'' {
			quotes++
		}
	}
	if quotes%2 == 1 {
		return nil, bad("action-value-quote-not-closed")
	}
	i := 0
	for {
		// key
		j := i
		for j < len(s) && s[j] != ':' && s[j] != ',' {
			j++
		}
		name := strings.ToLower(strings.TrimSpace(s[i:j]))
		if name == "" {
			return nil, bad("empty-action")
		}
		if !valueless[name] && !valued[name] {
			return nil, bad("unknown-action")
		}
		if strings.ContainsAny(name, "'\\") {
			return nil, bad("unknown-action")
		}
		a := Action{Name: name}
		if j < len(s) && s[j] == ':' {
			if valueless[name] {
				return nil, bad("value-for-valueless-action")
			}
			j++
			for j < len(s) && s[j] == ' ' {
				j++
			}
			if j < len(s) && s[j] == '\'' {
				// quoted value: \' is a quote, no other backslash allowed
				var v strings.Builder
				k := j + 1
				closed := false
				for k < len(s) {
					if s[k] == '\\' {
						if k+1 < len(s) && s[k+1] == '\'' {
							v.WriteByte('\'')
							k += 2
							continue
						}
						return nil, bad("backslash-in-action-value")
					}
					if s[k] == '\'' {
						closed = true
						k++
						break
					}
					v.WriteByte(s[k])
					k++
				}
				if !closed {
					return nil, bad("action-value-quote-not-closed")
				}
				for k < len(s) && s[k] == ' ' {
					k++
				}
				if k < len(s) && s[k] != ',' {
					return nil, bad("text-after-closing-quote-of-action-value")
				}
				a.Value = v.String()
				j = k
			} else {
				k := j
				for k < len(s) && s[k] != ',' {
					if s[k] == '\'' {
						return nil, bad("quote-inside-unquoted-action-value")
					}
					if s[k] == '\\' {
						return nil, bad("backslash-in-action-value")
					}
					k++
				}
				a.Value = strings.TrimSpace(s[j:k])
				j = k
			}
			if a.Value == "" {
				return nil, bad("missing-action-value")
			}
		} else if valued[name] {
			return nil, bad("missing-action-value")
		}
		out = append(out, a)
		if j >= len(s) {
			return out, nil
		}
		// s[j] == ','
		i = j + 1
		if i >= len(s) {
			return nil, bad("empty-action")
		}
	}
}

var collRe = regexp.MustCompile(`^[A-Z_]+$`)

func refTargets(s string, literalSlash bool) ([]Target, error) {
	var out []Target
	i := 0
	for {
		var t Target
		if i < len(s) && s[i] == '!' {
			t.Neg = true
			i++
		} else if i < len(s) && s[i] == '&' {
			t.Count = true
			i++
		}
		j := i
		for j < len(s) && s[j] != ':' && s[j] != '|' {
			j++
		}
		t.Coll = s[i:j]
		if !collRe.MatchString(t.Coll) {
			return nil, bad("target-collection-name")
		}
		if j < len(s) && s[j] == ':' {
			j++
			if j < len(s) && s[j] == '\'' {
				t.Quoted = true
				j++
			}
			if j < len(s) && s[j] == '/' {
				t.Kind = kindRegex
				var pat strings.Builder
				k := j + 1
				closed := false
				for k < len(s) {
					if s[k] == '\\' && k+1 < len(s) {
						if s[k+1] == '/' {
							pat.WriteByte('/')
						} else {
							pat.WriteByte('\\')
							pat.WriteByte(s[k+1])
						}
						k += 2
						continue
					}
					if s[k] == '/' {
						closed = true
						k++
						break
					}
					pat.WriteByte(s[k])
					k++
				}
				if !closed {
					return nil, bad("regex-key-not-closed")
				}
				t.Key = pat.String()
				j = k
			} else {
				t.Kind = kindPlain
				k := j
				for k < len(s) && s[k] != '|' && (s[k] != '\'' || !t.Quoted) {
					if s[k] == '\'' {
						return nil, bad("quote-inside-plain-key")
					}
					if s[k] == '/' && !(literalSlash && k > j) {
						return nil, bad("slash-inside-plain-key")
					}
					k++
				}
				t.Key = s[j:k]
				if t.Key == "" {
					return nil, bad("empty-key")
				}
				j = k
			}
			if t.Quoted {
				if j >= len(s) || s[j] != '\'' {
					return nil, bad("quoted-key-not-closed")
				}
				j++
			}
			if j < len(s) && s[j] != '|' {
				if t.Kind == kindRegex {
					return nil, bad("text-after-regex-key")
				}
				return nil, bad("text-after-key")
			}
		}
		out = append(out, t)
		if j >= len(s) {
			return out, nil
		}
		i = j + 1
		if i >= len(s) {
			return nil, bad("empty-target")
		}
	}
}
