// Package c12 decides C12: sharing transformation work between rules never
// substitutes a wrong value (DESIGN.md §3 C12).
package c12

import (
	"encoding/json"
	"fmt"
	"runtime"
	"sort"
	"strings"
	"time"

	coraza "github.com/corazawaf/coraza/v3"
	"github.com/corazawaf/coraza/v3/experimental/plugins"
	"github.com/corazawaf/coraza/v3/experimental/plugins/plugintypes"
	"github.com/corazawaf/coraza/v3/internal/verif/mc"
	"github.com/corazawaf/coraza/v3/internal/verif/runner"
	"github.com/corazawaf/coraza/v3/internal/verif/scen"
)

func init() {
	plugins.RegisterOperator("verifgc", func(plugintypes.OperatorOptions) (plugintypes.Operator, error) { return gcOp{}, nil })
	for i := 1; i <= 4; i++ {
		plugins.RegisterTransformation(fmt.Sprintf("verifid%d", i), func(s string) (string, bool, error) { return s, false, nil })
	}
	runner.Register(&runner.Check{
		ID:    "C12",
		Level: "exploration",
		Rule: "program = 2 (quick) or 3 (thorough) rules of one phase whose transformation lists are drawn from {[], [lowercase], [lowercase,trim], [lowercase,trim,removeWhitespace], [trim], [trim,lowercase], [urlDecode], [urlDecode,urlDecode], [uppercase,lowercase], [hexDecode], [hexDecode,lowercase] (hexDecode fails on most values)} plus a family of two / three counting rules over requests with 12..999 values (counts of up to three digits through shared prefixes); targets " +
			"{ARGS_GET, ARGS_GET:a, ARGS_GET|!ARGS_GET:b, &ARGS_GET, ARGS, REQUEST_HEADERS, chain->MATCHED_VAR (raw and t:trimRight starters), chain->MATCHED_VARS, multiMatch rules, ENV:k rewritten by setenv between rules, RULE:id}; " +
			"request = repeated / case-variant names with values that the transformations change differently; every map order within the bound; each transaction is run twice on the same (pool-recycled) object. " +
			"Oracle: the same program with rule i's list prefixed by a distinct identity transformation registered through the plugin API (no two rules can then share a cache entry) must give the same fired rules and match data. " +
			"distinct_nontrivial = distinct (program, request) in which two rules with a common non-empty transformation prefix both selected at least one value",
		Assumptions: []string{"the gc scenario places forced garbage collections at rule boundaries; whether a collected value's address is reused is up to the allocator (40 repetitions; detection of a non-retaining cache key is therefore likely, not certain; no effect on code whose cache keeps its values alive)", "the identity transformations verifid1..4 make the transformation-chain ids of all rules pairwise different, so the reference run has no cross-rule reuse"},
		Run:         run,
		Replay:      replay,
	})
}

type ruleT struct {
	Target string   `json:"target"`
	Trans  []string `json:"trans"`
	Kind   string   `json:"kind"` // plain | mvar | mvars | env | rule
}

type kase struct {
	Rules []ruleT  `json:"rules"`
	Req   scen.Req `json:"req"`
	Order []int    `json:"order,omitempty"`
}

var transLists = [][]string{nil, {"lowercase"}, {"lowercase", "trim"}, {"lowercase", "trim", "removeWhitespace"}, {"trim"}, {"trim", "lowercase"},
	{"urlDecode"}, {"urlDecode", "urlDecode"}, {"uppercase", "lowercase"},
	// hexDecode fails on most of the values below (the value then stays as it was): what is shared must be that value, not the failed step's output
	{"hexDecode"}, {"hexDecode", "lowercase"},
	// two lists that part only at the fourth position (prefix bookkeeping of sibling lists must not be shared)
	{"lowercase", "trim", "removeWhitespace", "uppercase"}, {"lowercase", "trim", "removeWhitespace", "urlDecode"}}

var kinds = []ruleT{
	{Target: "ARGS_GET", Kind: "plain"},
	{Target: "ARGS_GET:a", Kind: "plain"},
	{Target: "ARGS_GET|!ARGS_GET:b", Kind: "plain"},
	{Target: "&ARGS_GET", Kind: "plain"},
	{Target: "ARGS", Kind: "plain"},
	{Target: "REQUEST_HEADERS", Kind: "plain"},
	{Target: "ARGS_GET", Kind: "mvar"},
	{Target: "ARGS_GET:a", Kind: "mvars"},
	{Target: "ARGS_GET", Kind: "mvart"}, // starter with t:trimRight: MATCHED_VAR is a sub-string (same address, other length) of the raw value
	{Target: "ARGS_GET", Kind: "multi"}, // multiMatch rule: sees the original and every intermediate value
	{Target: "", Kind: "env"},
	{Target: "", Kind: "rule"},
}

var requests = []scen.Req{
	{URI: "/p?a=%20X&a=x%20&b=Y"},
	{URI: "/p?b=%20x&a=X&A=y"},
	{URI: "/p?a=x&a=x&c=%20X%20"},
	{URI: "/p?c=X%20y&b=x&a=3", Headers: [][2]string{{"X-A", " X"}, {"X-B", "x "}}},
	{URI: "/p?a=X", Headers: [][2]string{scen.Form()}, Body: "a=%20x&b=X%20"},
	{URI: "/p?a=%252578&a=%2578%20&b=x%20%20"}, // decoded once by the query parser: "%2578", "%78 ", "x  "
}

// reqOverride replaces the request list for one family (nil = the common list).
var reqOverride []scen.Req

// largeCounts: counts of three and four digits through shared transformation prefixes. Two counting targets of one
// collection whose counts have the same number of digits must each see their own number.
func largeCounts(c *runner.Ctx, idx *int, bound int) {
	big := func(na, nb int) scen.Req {
		var parts []string
		for i := 0; i < na; i++ {
			parts = append(parts, "a=x")
		}
		for i := 0; i < nb; i++ {
			parts = append(parts, "b=y")
		}
		return scen.Req{URI: "/p?" + strings.Join(parts, "&")}
	}
	reqOverride = []scen.Req{big(100, 101), big(250, 999), big(99, 100), big(12, 13)}
	defer func() { reqOverride = nil }()
	// hexEncode: the lists must produce a new string (one that returns its input unchanged hands back the very
	// memory the count was rendered into, which hides a stale cache entry behind the fresh digits)
	lists := [][]string{{"hexEncode"}, {"lowercase", "hexEncode"}, {"hexEncode", "lowercase"}, {"trim", "hexEncode"}, {"lowercase"}, {"hexEncode", "hexDecode"}}
	for _, l1 := range lists {
		for _, l2 := range lists {
			*idx++
			if !c.Mine(*idx) || c.Expired() {
				continue
			}
			c.Count("large_count_programs", 1)
			checkProgram(c, []ruleT{{Target: "&ARGS_GET:a", Kind: "lastdigit", Trans: l1}, {Target: "&ARGS_GET:b", Kind: "lastdigit", Trans: l2}}, bound)
			checkProgram(c, []ruleT{{Target: "&ARGS_GET:b", Kind: "lastdigit", Trans: l1}, {Target: "&ARGS_GET", Kind: "lastdigit", Trans: l2}, {Target: "&ARGS_GET:a", Kind: "lastdigit", Trans: l1}}, bound)
		}
	}
}

func tlist(tr []string, idPrefix int) string {
	var parts []string
	if idPrefix > 0 {
		parts = append(parts, fmt.Sprintf("t:verifid%d", idPrefix))
	}
	for _, t := range tr {
		parts = append(parts, "t:"+t)
	}
	if len(parts) == 0 {
		return ""
	}
	return "," + strings.Join(parts, ",")
}

// render produces the configuration; ref=true prefixes every rule's list
// with its own identity transformation.
func render(rules []ruleT, ref bool) string {
	var sb strings.Builder
	sb.WriteString("SecRuleEngine On\nSecRequestBodyAccess On\n")
	for i, r := range rules {
		id := (i + 1) * 10
		p := 0
		if ref {
			p = i + 1
		}
		tl := tlist(r.Trans, p)
		switch r.Kind {
		case "plain":
			fmt.Fprintf(&sb, "SecRule %s \"@rx ^[x1-9]\" \"id:%d,phase:2,pass,log%s\"\n", r.Target, id, tl)
		case "lastdigit":
			// tells neighbouring numbers apart (100 / 101, 250 / 999, 12 / 13)
			fmt.Fprintf(&sb, "SecRule %s \"@rx [13-9]$\" \"id:%d,phase:2,pass,log%s\"\n", r.Target, id, tl)
		case "mvar":
			fmt.Fprintf(&sb, "SecRule %s \"@rx .\" \"id:%d,phase:2,pass,log,chain\"\n  SecRule MATCHED_VAR \"@rx ^x\" \"%s\"\n", r.Target, id, strings.TrimPrefix(tl, ","))
		case "mvart":
			fmt.Fprintf(&sb, "SecRule %s \"@rx .\" \"id:%d,phase:2,pass,log,t:trimRight,chain\"\n  SecRule MATCHED_VAR \"@rx ^[x%%]\" \"%s\"\n", r.Target, id, strings.TrimPrefix(tl, ","))
		case "multi":
			fmt.Fprintf(&sb, "SecRule %s \"@rx ^[xX1-9]\" \"id:%d,phase:2,pass,log,multiMatch%s\"\n", r.Target, id, tl)
		case "mvars":
			fmt.Fprintf(&sb, "SecRule %s \"@rx .\" \"id:%d,phase:2,pass,log,chain\"\n  SecRule MATCHED_VARS \"@rx ^x\" \"%s\"\n", r.Target, id, strings.TrimPrefix(tl, ","))
		case "env":
			// the value of ENV:VK changes between rules of the same phase
			val := []string{" X", "y ", "x"}[i%3]
			fmt.Fprintf(&sb, "SecAction \"id:%d,phase:2,pass,nolog,setenv:VERIFK=%s\"\n", id+1, val)
			fmt.Fprintf(&sb, "SecRule ENV:VERIFK \"@rx ^x\" \"id:%d,phase:2,pass,log%s\"\n", id, tl)
		case "rule":
			fmt.Fprintf(&sb, "SecRule RULE:id \"@rx ^%d\" \"id:%d,phase:2,pass,log%s\"\n", id, id, tl)
		}
	}
	return sb.String()
}

func fix(s string) string {
	// a chained rule with an empty action list is not valid SecLang: give it a no-op
	s = strings.ReplaceAll(s, "\"@rx ^[x%]\" \"\"\n", "\"@rx ^[x%]\" \"t:none\"\n")
	return strings.ReplaceAll(s, "\"@rx ^x\" \"\"\n", "\"@rx ^x\" \"t:none\"\n")
}

func sharePrefix(a, b []string) bool { return len(a) > 0 && len(b) > 0 && a[0] == b[0] }

// gcOp is an operator that forces two garbage collections and never matches:
// placed between rules it makes "a garbage collection happens here" a point of
// the rule program.
type gcOp struct{}

func (gcOp) Evaluate(plugintypes.TransactionState, string) bool {
	runtime.GC()
	runtime.GC()
	return false
}

// gcScenario: a target whose content is replaced during the phase by freshly
// allocated strings of equal length (ENV via setenv with a two-token macro),
// a transformed read of it after every replacement, and a garbage collection
// after every read. A cache entry that outlives the value it was computed from
// (and does not keep it alive) is hit by the next value allocated at the same
// address. Expectation: absolute (the lowercase of the current value).
func gcScenario(c *runner.Ctx) {
	var sb strings.Builder
	sb.WriteString("SecRuleEngine On\nSecAction \"id:1,phase:1,pass,nolog,setvar:tx.n=0\"\n")
	for i := 1; i <= 9; i++ {
		fmt.Fprintf(&sb, "SecAction \"id:%d,phase:1,pass,nolog,setvar:tx.n=+1,setenv:VERIFGC=Pad-%%{tx.n}-ABCDEFGHIJKLMNOPQRSTUVWXYZ\"\n", 100+i)
		fmt.Fprintf(&sb, "SecRule ENV:VERIFGC \"@verifgc\" \"id:%d,phase:1,pass,nolog,t:lowercase\"\n", 200+i)
		fmt.Fprintf(&sb, "SecRule ENV:VERIFGC \"!@streq pad-%d-abcdefghijklmnopqrstuvwxyz\" \"id:%d,phase:1,pass,log,t:lowercase\"\n", i, 300+i)
	}
	conf := sb.String()
	w, err := scen.Build(conf)
	if err != nil {
		c.Violation("build-gc:"+err.Error(), "gc scenario rejected: "+err.Error()+"\n"+conf, kase{})
		return
	}
	defer scen.Close(w)
	for rep := 0; rep < 40; rep++ {
		o := scen.Run(w, scen.Req{URI: "/p"}, scen.Options{})
		c.Count("evaluations", 1)
		stale := false
		for _, m := range o.Matched {
			if m.ID >= 300 {
				stale = true
			}
		}
		if stale || o.Panic != "" {
			c.Violation("stale-result-after-target-was-replaced-and-collected", fmt.Sprintf("configuration:\n%srepetition %d: a rule saw the lowercase of an earlier content of ENV:VERIFGC (cache entry outlived its value)\n%s", conf, rep, o.Core()), kase{})
			return
		}
	}
	c.Note("gc scenario: 40 transactions x 9 replacements with a forced collection after every transformed read")
}

func run(c *runner.Ctx) {
	if c.Worker == 0 {
		gcScenario(c)
	}
	n := 2
	if c.Thorough() {
		n = 3
	}
	bound := 1
	if c.Thorough() {
		bound = 2
	}
	idx := 0
	var rec func(cur []ruleT)
	rec = func(cur []ruleT) {
		if len(cur) == n {
			idx++
			if !c.Mine(idx) || c.Expired() {
				return
			}
			checkProgram(c, append([]ruleT{}, cur...), bound)
			return
		}
		ks := kinds
		tls := transLists
		if c.Thorough() && len(cur) == 2 {
			// third rule: a reduced menu keeps the product finite and finishes in minutes
			ks = []ruleT{kinds[0], kinds[2], kinds[6], kinds[9]}
			tls = [][]string{{"lowercase"}, {"lowercase", "trim"}}
		}
		for _, k := range ks {
			for _, tl := range tls {
				if (k.Kind == "mvar" || k.Kind == "mvars" || k.Kind == "mvart" || k.Kind == "multi") && len(tl) == 0 {
					continue
				}
				r := k
				r.Trans = tl
				rec(append(cur, r))
			}
		}
	}
	rec(nil)
	largeCounts(c, &idx, bound)
	if c.Worker == c.Workers-1 {
		manyChains(c)
	}
	c.Extra("deviation_bound", bound)
}

func checkProgram(c *runner.Ctx, rules []ruleT, bound int) {
	defer c.Watch("program", kase{Rules: rules}, 3*time.Minute)()
	conf, refConf := fix(render(rules, false)), fix(render(rules, true))
	w, err := scen.Build(conf)
	if err != nil {
		c.Violation("build:"+err.Error(), "generated configuration rejected: "+err.Error()+"\n"+conf, kase{Rules: rules})
		return
	}
	defer scen.Close(w)
	wr, err := scen.Build(refConf)
	if err != nil {
		c.Violation("build-ref:"+err.Error(), "reference configuration rejected: "+err.Error()+"\n"+refConf, kase{Rules: rules})
		return
	}
	defer scen.Close(wr)
	shared := false
	for i := range rules {
		for j := i + 1; j < len(rules); j++ {
			if sharePrefix(rules[i].Trans, rules[j].Trans) {
				shared = true
			}
		}
	}
	rqs := requests
	if reqOverride != nil {
		rqs = reqOverride
	}
	for _, rq := range rqs {
		var ref string
		st := mc.Explore(mc.Options{Bound: bound, MaxExecs: 3000}, func(cx *mc.Ctx) {
			c.Count("evaluations", 1)
			got := outcome(w, rq)
			// the reference run sees the same map orders
			mc.ReplayLenient(cx.Choices(), func(*mc.Ctx) { ref = outcome(wr, rq) })
			c.Outcome(got)
			if got != ref {
				k := kase{Rules: rules, Req: rq, Order: cx.Choices()}
				c.Violation(classify(rules), "configuration:\n"+conf+"request: "+rq.URI+" "+rq.Body+"\n--- with shared transformation work:\n"+got+"--- reference (no sharing possible):\n"+ref, k)
			}
		})
		if st.Capped {
			c.Incomplete("order exploration cap")
		}
		if shared && strings.Count(ref, "rule ") >= 2 {
			b, _ := json.Marshal(kase{Rules: rules, Req: rq})
			c.Distinct(string(b))
			if c.WantSample() {
				c.Sample(map[string]any{"config": conf, "reference_config": refConf, "request": rq, "outcome": ref, "orders_executed": st.Execs})
			}
		}
	}
}

// outcome runs the request twice (the second transaction exercises state a
// recycled object may carry) and renders fired rules with match data.
func outcome(w coraza.WAF, rq scen.Req) string {
	var sb strings.Builder
	for rep := 0; rep < 2; rep++ {
		o := scen.Run(w, rq, scen.Options{})
		if o.Panic != "" {
			fmt.Fprintf(&sb, "PANIC %s\n", o.Panic)
		}
		for _, m := range o.Matched {
			ds := append([]string{}, m.Datas...)
			sort.Strings(ds)
			fmt.Fprintf(&sb, "rule %d %q\n", m.ID, ds)
		}
		sb.WriteString("--\n")
	}
	return sb.String()
}

func classify(rules []ruleT) string {
	kindsSeen := map[string]bool{}
	for _, r := range rules {
		kindsSeen[r.Kind] = true
	}
	var ks []string
	for k := range kindsSeen {
		ks = append(ks, k)
	}
	sort.Strings(ks)
	return "wrong-value-under-sharing:" + strings.Join(ks, "+")
}

func replay(raw json.RawMessage) (bool, string) {
	var k kase
	if err := json.Unmarshal(raw, &k); err != nil {
		return false, err.Error()
	}
	conf, refConf := fix(render(k.Rules, false)), fix(render(k.Rules, true))
	w, err := scen.Build(conf)
	if err != nil {
		return true, "build: " + err.Error()
	}
	defer scen.Close(w)
	wr, err := scen.Build(refConf)
	if err != nil {
		return true, "build ref: " + err.Error()
	}
	defer scen.Close(wr)
	var got, ref string
	mc.Replay(k.Order, func(cx *mc.Ctx) { got = outcome(w, k.Req) })
	mc.ReplayLenient(k.Order, func(cx *mc.Ctx) { ref = outcome(wr, k.Req) })
	return got != ref, fmt.Sprintf("configuration:\n%srequest: %s %s\nmap-order choices: %v\n--- with sharing:\n%s--- reference:\n%s", conf, k.Req.URI, k.Req.Body, k.Order, got, ref)
}

// manyChains: a long-lived process keeps compiling new transformation lists (tenants, reloads), so the ids that
// identify list prefixes in the cache key grow without bound. Up to 2^16 + 4096 distinct prefixes are registered here
// (32-step lists of appending plug-in transformations, 8 new lists per WAF plus 4 lists every WAF shares, which were
// registered first); every rule must be evaluated against the value of its own list, however many lists exist.
func manyChains(c *runner.Ctx) {
	const steps, commonRules, tenantRules = 31, 4, 8
	tenants := (1<<16+4096)/(tenantRules*(steps+1)) + 1
	app := func(marker string) func(string) (string, bool, error) {
		return func(in string) (string, bool, error) { return in + marker, true, nil }
	}
	var tail, tailValue strings.Builder
	for k := 0; k < steps; k++ {
		name := fmt.Sprintf("verifmc%d", k)
		plugins.RegisterTransformation(name, app(fmt.Sprintf("|%d", k)))
		tail.WriteString(",t:" + name)
		fmt.Fprintf(&tailValue, "|%d", k)
	}
	type rule struct {
		id         int
		want, text string
	}
	mk := func(id int, head string) rule {
		plugins.RegisterTransformation(head, app("#"+head))
		return rule{id, "v#" + head + tailValue.String(),
			fmt.Sprintf("SecRule ARGS_GET:p \"@rx ^.*$\" \"id:%d,phase:1,pass,log,logdata:'%%{MATCHED_VAR}',t:none,t:%s%s\"\n", id, head, tail.String())}
	}
	var common []rule
	for r := 0; r < commonRules; r++ {
		common = append(common, mk(1+r, fmt.Sprintf("verifmccommon%d", r)))
	}
	for tenant := 0; tenant < tenants && !c.Expired(); tenant++ {
		rules := append([]rule{}, common...)
		for r := 0; r < tenantRules; r++ {
			rules = append(rules, mk(1000+r, fmt.Sprintf("verifmct%dx%d", tenant, r)))
		}
		var conf strings.Builder
		conf.WriteString("SecRuleEngine On\n")
		for _, r := range rules {
			conf.WriteString(r.text)
		}
		w, err := scen.Build(conf.String())
		if err != nil {
			c.Violation("build:"+err.Error(), err.Error(), map[string]any{"many_chains": true, "tenant": tenant})
			return
		}
		o := scen.Run(w, scen.Req{URI: "/?p=v"}, scen.Options{})
		scen.Close(w)
		c.Count("evaluations", 1)
		c.Count("transformation_lists_registered", int64(tenantRules*(steps+1)))
		seen := map[int]string{}
		for _, m := range o.Matched {
			if len(m.Datas) > 0 {
				seen[m.ID] = strings.TrimPrefix(m.Datas[0], "ARGS_GET|p|") // the value the operator was given
			}
		}
		for _, r := range rules {
			if got := seen[r.id]; got != r.want {
				c.Violation("wrong-value-under-sharing:after-many-transformation-lists", fmt.Sprintf("after %d WAFs (%d distinct list prefixes in this process) rule %d was evaluated against\n  %q\nits own list gives\n  %q", tenant+1, (tenant+1)*tenantRules*(steps+1), r.id, got, r.want), map[string]any{"many_chains": true, "tenant": tenant})
				return
			}
		}
	}
	c.Distinct("many-chains")
}
