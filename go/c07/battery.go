package c07

import (
	"fmt"
	"io"
	"strings"

	coraza "github.com/corazawaf/coraza/v3"
	"github.com/corazawaf/coraza/v3/types"
)

// The fixed battery of transaction call sequences every accepted configuration
// serves. The prelude of every generated configuration sets both body limits
// to bodyLimit bytes (ProcessPartial) unless the hole says otherwise.
const bodyLimit = 256

type sequence struct {
	Name string
	Run  func(tx types.Transaction)
}

func rep(s string, n int) string { return strings.Repeat(s, n)[:n] }

const (
	ctForm  = "application/x-www-form-urlencoded"
	ctMulti = "multipart/form-data; boundary=BbB"
	ctJSON  = "application/json"
	ctXML   = "text/xml"
)

var multipartBody = "--BbB\r\nContent-Disposition: form-data; name=\"f1\"\r\n\r\nv1 zzz\r\n" +
	"--BbB\r\nContent-Disposition: form-data; name=\"up\"; filename=\"a.php\"\r\nContent-Type: text/plain\r\n\r\nFILE\x00\xffDATA\r\n" +
	"--BbB--\r\n"

var binaryBytes = func() string {
	var sb strings.Builder
	for i := 0; i < 256; i += 5 {
		sb.WriteByte(byte(i))
	}
	sb.WriteString("%00%ff%u00e9&=&\xc0\xaf;\r\n\x00")
	return sb.String()
}()

func reqHead(tx types.Transaction, method, uri, ctype string, extra ...[2]string) {
	tx.ProcessConnection("10.0.0.1", 1234, "10.0.0.2", 80)
	tx.ProcessURI(uri, method, "HTTP/1.1")
	tx.SetServerName("c07.test")
	tx.AddRequestHeader("Host", "c07.test")
	tx.AddRequestHeader("User-Agent", "k zzz")
	tx.AddRequestHeader("Cookie", "s=1; k=\"q\"; =x; s=2")
	tx.AddRequestHeader("K", "hv")
	if ctype != "" {
		tx.AddRequestHeader("Content-Type", ctype)
	}
	for _, h := range extra {
		tx.AddRequestHeader(h[0], h[1])
	}
}

// exchange is the canonical connector order.
func exchange(tx types.Transaction, method, uri, ctype, body string, status int, rctype, rbody string) {
	reqHead(tx, method, uri, ctype)
	if tx.ProcessRequestHeaders() != nil {
		tx.ProcessLogging()
		return
	}
	if tx.IsRequestBodyAccessible() && body != "" {
		if it, _, _ := tx.WriteRequestBody([]byte(body)); it != nil {
			tx.ProcessLogging()
			return
		}
	}
	if it, _ := tx.ProcessRequestBody(); it != nil {
		tx.ProcessLogging()
		return
	}
	respond(tx, status, rctype, rbody)
}

func respond(tx types.Transaction, status int, rctype, rbody string) {
	tx.AddResponseHeader("Content-Type", rctype)
	tx.AddResponseHeader("K", "rv")
	tx.AddResponseHeader("Set-Cookie", "k=v; Path=/")
	if tx.ProcessResponseHeaders(status, "HTTP/1.1") != nil {
		tx.ProcessLogging()
		return
	}
	if tx.IsResponseBodyAccessible() && tx.IsResponseBodyProcessable() && rbody != "" {
		if it, _, _ := tx.WriteResponseBody([]byte(rbody)); it != nil {
			tx.ProcessLogging()
			return
		}
	}
	_, _ = tx.ProcessResponseBody()
	tx.ProcessLogging()
}

// (a truncated escape at the very end of a value and of a name: % followed by one hex digit)
const uriGet = "/p/a.php?k=1&b=x%20zzz&K=2&c[]=%27%22&k=3&v=k&e%4=1&t=%4#frag"

// a reader that is not a ByteLenger
type plainReader struct{ r io.Reader }

func (p plainReader) Read(b []byte) (int, error) { return p.r.Read(b) }

var battery = []sequence{
	{"get", func(tx types.Transaction) {
		exchange(tx, "GET", uriGet, "", "", 200, "text/plain", "hello k zzz")
	}},
	{"post-form", func(tx types.Transaction) {
		exchange(tx, "POST", "/p?k=1&e%4=1&t=%4", ctForm, "k=1&b=x%20y+zzz&c=%zz&d&k=%00&v=k&%&y=abc%4", 404, "application/json", `{"k":["zzz",1,null]}`)
	}},
	{"body-limit-minus-1", func(tx types.Transaction) {
		exchange(tx, "POST", "/p", ctForm, "k="+rep("A", bodyLimit-3), 200, "text/plain", rep("r", bodyLimit-1))
	}},
	{"body-limit", func(tx types.Transaction) {
		exchange(tx, "POST", "/p", ctForm, "k="+rep("A", bodyLimit-2), 200, "text/plain", rep("r", bodyLimit))
	}},
	{"body-limit-plus-1", func(tx types.Transaction) {
		exchange(tx, "POST", "/p", ctForm, "k="+rep("A", bodyLimit-1), 200, "text/plain", rep("r", bodyLimit+1))
	}},
	{"body-0-and-1-byte", func(tx types.Transaction) {
		reqHead(tx, "POST", "/p", ctForm)
		tx.ProcessRequestHeaders()
		_, _, _ = tx.WriteRequestBody(nil)
		_, _, _ = tx.WriteRequestBody([]byte{})
		_, _, _ = tx.WriteRequestBody([]byte("k"))
		_, _ = tx.ProcessRequestBody()
		tx.AddResponseHeader("Content-Type", "text/plain")
		tx.ProcessResponseHeaders(200, "HTTP/1.1")
		_, _, _ = tx.WriteResponseBody(nil)
		_, _, _ = tx.WriteResponseBody([]byte{})
		_, _, _ = tx.WriteResponseBody([]byte("k"))
		_, _ = tx.ProcessResponseBody()
		tx.ProcessLogging()
	}},
	{"binary", func(tx types.Transaction) {
		tx.ProcessConnection("\x00\xff", -1, "", 1<<31-1)
		tx.ProcessURI("/\x00\xff%zz?%00=%ff&\x80=\xfe&k="+binaryBytes, "\x00GE T", "")
		tx.AddRequestHeader("\x00\xff", binaryBytes)
		tx.AddRequestHeader("Cookie", binaryBytes)
		tx.AddRequestHeader("Content-Type", ctForm+binaryBytes)
		tx.AddRequestHeader("K", "\xff")
		tx.AddGetRequestArgument(binaryBytes, binaryBytes)
		tx.AddPostRequestArgument("\xff", "\x00")
		tx.AddPathRequestArgument("\x00", "\xfe")
		tx.ProcessRequestHeaders()
		_, _, _ = tx.WriteRequestBody([]byte(binaryBytes))
		_, _ = tx.ProcessRequestBody()
		tx.AddResponseHeader("\xff", binaryBytes)
		tx.AddResponseHeader("Content-Type", "text/plain;\x00")
		tx.AddResponseArgument("\xff", "\x00")
		tx.ProcessResponseHeaders(-1, "\xff")
		_, _, _ = tx.WriteResponseBody([]byte(binaryBytes))
		_, _ = tx.ProcessResponseBody()
		tx.ProcessLogging()
	}},
	{"multipart-file", func(tx types.Transaction) {
		exchange(tx, "POST", "/up?k=1", ctMulti, multipartBody, 200, "text/xml", `<k a="zzz"><b>c</b></k>`)
	}},
	{"multipart-binary", func(tx types.Transaction) {
		exchange(tx, "POST", "/up", ctMulti, "--BbB\r\n"+binaryBytes+"\r\n--BbB\r\nContent-Disposition: form-data; name=\"\xff\"; filename=\"\x00\"\r\n\r\n"+binaryBytes, 500, "text/plain", binaryBytes)
	}},
	{"json", func(tx types.Transaction) {
		exchange(tx, "POST", "/api", ctJSON, `{"k":{"b":[1,"zzz",null,true,{"k":[]}]},"c":"d","":1}`, 200, "application/json", `{"k":`)
	}},
	{"xml", func(tx types.Transaction) {
		exchange(tx, "POST", "/api", ctXML, `<?xml version="1.0"?><k a="zzz"><b>c</b><b/>&amp;<![CDATA[x]]></k>`, 200, "text/xml", `<k><`)
	}},
	{"reversed", func(tx types.Transaction) {
		tx.ProcessLogging()
		_, _ = tx.ProcessResponseBody()
		_, _, _ = tx.WriteResponseBody([]byte("resp k zzz"))
		tx.ProcessResponseHeaders(200, "HTTP/1.1")
		tx.AddResponseHeader("Content-Type", "text/plain")
		_, _ = tx.ProcessRequestBody()
		_, _, _ = tx.WriteRequestBody([]byte("k=1&b=zzz"))
		tx.ProcessRequestHeaders()
		tx.AddRequestHeader("Content-Type", ctForm)
		tx.ProcessURI(uriGet, "POST", "HTTP/1.1")
		tx.ProcessConnection("10.0.0.1", 1234, "10.0.0.2", 80)
		tx.ProcessLogging()
	}},
	{"bodies-before-headers", func(tx types.Transaction) {
		chunk := []byte("k=" + rep("B", 98))
		_, _, _ = tx.WriteRequestBody(chunk)
		_, _, _ = tx.WriteResponseBody(chunk)
		reqHead(tx, "POST", "/p?k=1", ctForm)
		tx.ProcessRequestHeaders()
		_, _, _ = tx.WriteRequestBody(chunk)
		_, _, _ = tx.WriteRequestBody(chunk)
		_, _, _ = tx.WriteRequestBody(chunk)
		_, _ = tx.ProcessRequestBody()
		tx.AddResponseHeader("Content-Type", "text/plain")
		tx.ProcessResponseHeaders(200, "HTTP/1.1")
		_, _, _ = tx.WriteResponseBody(chunk)
		_, _, _ = tx.WriteResponseBody(chunk)
		_, _, _ = tx.WriteResponseBody(chunk)
		_, _ = tx.ProcessResponseBody()
		tx.ProcessLogging()
	}},
	{"response-only", func(tx types.Transaction) {
		tx.AddResponseHeader("Content-Type", "text/plain")
		tx.ProcessResponseHeaders(200, "HTTP/1.1")
		_, _, _ = tx.WriteResponseBody([]byte("resp k zzz"))
		_, _ = tx.ProcessResponseBody()
		tx.ProcessLogging()
	}},
	{"readers", func(tx types.Transaction) {
		reqHead(tx, "POST", "/p", ctForm)
		tx.ProcessRequestHeaders()
		_, _, _ = tx.ReadRequestBodyFrom(strings.NewReader("k=" + rep("C", 100)))
		_, _, _ = tx.ReadRequestBodyFrom(plainReader{strings.NewReader("&b=" + rep("D", 100))})
		_, _, _ = tx.ReadRequestBodyFrom(strings.NewReader("&c=" + rep("E", 100)))
		_, _, _ = tx.ReadRequestBodyFrom(plainReader{strings.NewReader("&d=" + rep("F", 100))})
		_, _ = tx.ProcessRequestBody()
		tx.AddResponseHeader("Content-Type", "text/plain")
		tx.ProcessResponseHeaders(200, "HTTP/1.1")
		_, _, _ = tx.ReadResponseBodyFrom(strings.NewReader(rep("r", 100)))
		_, _, _ = tx.ReadResponseBodyFrom(plainReader{strings.NewReader(rep("s", 100))})
		_, _, _ = tx.ReadResponseBodyFrom(strings.NewReader(rep("t", 100)))
		_, _, _ = tx.ReadResponseBodyFrom(plainReader{strings.NewReader(rep("u", 100))})
		_, _ = tx.ProcessResponseBody()
		tx.ProcessLogging()
	}},
	{"repeats", func(tx types.Transaction) {
		reqHead(tx, "GET", uriGet, ctForm)
		tx.ProcessURI("/other?k=9", "PUT", "HTTP/2.0")
		tx.AddRequestHeader("", "x")
		tx.AddRequestHeader("k", "")
		tx.ProcessRequestHeaders()
		tx.ProcessRequestHeaders()
		_, _, _ = tx.WriteRequestBody([]byte("k=1"))
		_, _ = tx.ProcessRequestBody()
		_, _, _ = tx.WriteRequestBody([]byte("&b=zzz"))
		_, _ = tx.ProcessRequestBody()
		if r, err := tx.RequestBodyReader(); err == nil && r != nil {
			_, _ = io.Copy(io.Discard, r)
		}
		tx.AddResponseHeader("", "x")
		tx.AddResponseHeader("Content-Type", "text/plain")
		tx.ProcessResponseHeaders(200, "HTTP/1.1")
		tx.ProcessResponseHeaders(500, "HTTP/1.0")
		_, _, _ = tx.WriteResponseBody([]byte("k zzz"))
		_, _ = tx.ProcessResponseBody()
		_, _, _ = tx.WriteResponseBody([]byte("more"))
		_, _ = tx.ProcessResponseBody()
		if r, err := tx.ResponseBodyReader(); err == nil && r != nil {
			_, _ = io.Copy(io.Discard, r)
		}
		tx.ProcessLogging()
		tx.ProcessLogging()
	}},
	{"one-byte-chunks", func(tx types.Transaction) {
		reqHead(tx, "POST", "/p", ctForm)
		tx.ProcessRequestHeaders()
		b := []byte("k=" + rep("G", bodyLimit))
		for i := range b {
			_, _, _ = tx.WriteRequestBody(b[i : i+1])
		}
		_, _ = tx.ProcessRequestBody()
		tx.AddResponseHeader("Content-Type", "text/plain")
		tx.ProcessResponseHeaders(200, "HTTP/1.1")
		for i := range b {
			_, _, _ = tx.WriteResponseBody(b[i : i+1])
		}
		_, _ = tx.ProcessResponseBody()
		tx.ProcessLogging()
	}},
	{"no-calls", func(tx types.Transaction) {}},
	// Close in a non-final position: whatever a connector calls afterwards returns normally
	{"calls-after-close", func(tx types.Transaction) {
		reqHead(tx, "POST", "/p?k=1", ctForm)
		tx.ProcessRequestHeaders()
		_ = tx.Close()
		_, _, _ = tx.WriteRequestBody([]byte("k=1&b=zzz"))
		_, _ = tx.ProcessRequestBody()
		tx.AddResponseHeader("Content-Type", "text/plain")
		tx.ProcessResponseHeaders(200, "HTTP/1.1")
		_, _, _ = tx.WriteResponseBody([]byte("resp k zzz"))
		_, _ = tx.ProcessResponseBody()
		tx.ProcessLogging()
		_ = tx.Close()
		tx.ProcessLogging()
	}},
	{"close-first", func(tx types.Transaction) {
		_ = tx.Close()
		exchange(tx, "POST", "/p?k=1", ctForm, "k=1&b=zzz", 200, "text/plain", "resp k zzz")
		_ = tx.Close()
		exchange(tx, "GET", uriGet, "", "", 404, "text/plain", "k")
	}},
	// values around the sizes at which log fields are cut (200..512 bytes), made of bytes on which a
	// "do not split a character" cut has nowhere to stop: UTF-8 continuation bytes only, and a two-byte
	// character straddling every even / odd offset
	{"long-fields", func(tx types.Transaction) {
		cont := rep("\x80\xbf", 600)
		tx.ProcessConnection("10.0.0.1", 1234, "10.0.0.2", 80)
		tx.ProcessURI("/p?k="+rep("%80", 3*600)+"&b=a"+rep("é", 600)+"&zzz="+rep("é", 600), "GET", "HTTP/1.1")
		tx.AddRequestHeader("Host", "c07.test")
		tx.AddRequestHeader("K", cont)
		tx.AddRequestHeader("User-Agent", "zzz"+cont)
		tx.AddRequestHeader("Cookie", "k="+cont+"; s="+rep("é", 600))
		tx.AddRequestHeader("Content-Type", ctForm)
		tx.ProcessRequestHeaders()
		_, _, _ = tx.WriteRequestBody([]byte("k=" + cont))
		_, _ = tx.ProcessRequestBody()
		tx.AddResponseHeader("Content-Type", "text/plain")
		tx.AddResponseHeader("K", cont)
		tx.ProcessResponseHeaders(200, "HTTP/1.1")
		_, _, _ = tx.WriteResponseBody([]byte(cont))
		_, _ = tx.ProcessResponseBody()
		tx.ProcessLogging()
	}},
}

// quickBattery: indexes of the sequences the quick tier runs.
var quickBattery = []int{0, 1, 4, 6, 7, 9, 10, 11, 12, 14, 18, 19, 20}

// observe reads everything a connector reads from a finished transaction.
func observe(tx types.Transaction) string {
	it := tx.Interruption()
	_ = tx.IsInterrupted()
	_ = tx.IsRuleEngineOff()
	_ = tx.IsRequestBodyAccessible()
	_ = tx.IsResponseBodyAccessible()
	_ = tx.IsResponseBodyProcessable()
	_ = tx.ID()
	_ = tx.DebugLogger()
	n := 0
	for _, mr := range tx.MatchedRules() {
		n++
		_ = mr.ErrorLog()
		_ = mr.AuditLog()
		_ = mr.Message()
		_ = mr.Data()
		_ = mr.URI()
		_ = mr.TransactionID()
		_ = mr.Disruptive()
		_ = mr.ServerIPAddress()
		_ = mr.ClientIPAddress()
		if r := mr.Rule(); r != nil {
			_ = r.ID()
			_ = r.Raw()
			_ = r.Tags()
		}
		for _, md := range mr.MatchedDatas() {
			_ = md.Variable().Name()
			_ = md.Key()
			_ = md.Value()
			_ = md.Message()
			_ = md.Data()
			_ = md.ChainLevel()
		}
	}
	if it == nil {
		return fmt.Sprintf("-/%d", n)
	}
	return fmt.Sprintf("%s%d/%d", it.Action, it.Status, n)
}

func newTx(w coraza.WAF, seq int) types.Transaction {
	if seq%5 == 4 {
		return w.NewTransactionWithID("id \x00\xff" + rep("I", seq))
	}
	return w.NewTransaction()
}
