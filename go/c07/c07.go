// Package c07 decides C07: the library never panics or hangs, whatever
// configuration text or traffic it is given (DESIGN.md §3 C07).
//
// One-hole grammar closure: a fixed small configuration with one hole; the hole
// is filled with every directive x argument shape, every action x value shape
// (including a %{VAR.k} macro for every variable name), every ctl option x
// value, every operator x argument shape, every variable name x selector form,
// every transformation, pairs of roles for one string (in one WAF and in two
// WAFs alive in one process), and - thorough tier - every single-delimiter
// deletion / duplication of the produced rule texts. Every accepted
// configuration serves a fixed battery of transaction call sequences. The only
// oracle: no call panics (recover around NewWAF and around every sequence) and
// every case returns within the watchdog time.
package c07

import (
	"encoding/json"
	"fmt"
	"os"
	"path/filepath"
	"regexp"
	"strconv"
	"strings"
	"sync"
	"time"

	coraza "github.com/corazawaf/coraza/v3"
	"github.com/corazawaf/coraza/v3/internal/memoize"
	"github.com/corazawaf/coraza/v3/internal/verif/probe"
	"github.com/corazawaf/coraza/v3/internal/verif/runner"
	"github.com/corazawaf/coraza/v3/types"
)

func init() {
	runner.Register(&runner.Check{
		ID:    "C07",
		Level: "exploration",
		Rule: fmt.Sprintf("case = fixed prelude (engine On, both bodies buffered, both limits %d bytes ProcessPartial, two data sets, the JSON/XML body-processor selection rules of coraza.conf-recommended, three companion rules) with ONE hole filled by: "+
			"every directive of directivesmap.gen.go + Include + 2 unknown (%d names) x {%d generic argument shapes: missing, On, abc, -1, 0, `1 2 \"X\"`, quoted, unterminated quote, 70 kB token, binary bytes, ...; per-directive valid and near-valid values} at two positions (before / after the rules); "+
			"every registered action + 2 unknown spellings (%d) x {%d value shapes + per-action values} and x `%%{VAR.k}` for every variable name, each in 3 (quick) / 7 (thorough) rule templates (SecAction in all 5 phases, per-match with capture, chain link; thorough also denying chain starter, SecDefaultAction, SecRuleUpdateActionById, response phase with multiMatch); 9 macro positions x every variable name; "+
			"every ctl option + 2 unknown (%d) x {%d generic values + per-option values: valid, negative, zero, huge, garbage} x phases 1-4 (thorough 1-5 and per-match), every variable name as ctl target; "+
			"every registered operator + 2 unknown (%d) x %d argument shapes x {plain, negated} on 10 targets in phases 2 and 4 (@rbl and @inspectFile only constructed, never evaluated), the @rx arguments again with SecRxPreFilter On; "+
			"every variable name + 4 other spellings x %d selector forms as rule target in all 5 phases (thorough also as SecRuleUpdateTargetById/ByTag argument); every transformation + 3 other spellings (%d), alone, doubled, quoted (thorough: all ordered pairs); "+
			"%d roles x %d roles x %d strings for one string used twice (in one WAF; in two WAFs alive in one process); %d other engine contexts (DetectionOnly, Reject limit actions, body access Off, 16-byte in-memory limit with kept uploads, engine Off, tiny argument / JSON-depth limits) x a sample of the action and ctl classes; a sample of all classes with debug level 9 and the audit engine On (4 formats x 2 writers x 5 part sets incl. the default ABCFHZ x 5 disruptive actions x 5 phases); "+
			"thorough only: every text obtained from a hole text by deleting or duplicating one delimiter, one of %q. "+
			"Every accepted configuration serves the battery of call sequences (quick %d, thorough %d: canonical GET/POST, bodies of limit-1/limit/limit+1 bytes, 0/1-byte writes, binary bytes in every field, multipart with file, JSON, XML, reversed order, bodies before headers, response only, io.Reader bodies, repeated calls, one-byte chunks, no calls, calls after Close, 600-byte fields of continuation bytes; Close twice after each). "+
			"distinct_nontrivial = distinct accepted configurations (the ones that reached the transaction battery)",
			bodyLimit, len(directiveNames), len(genericArgs), len(actionNames), len(genericValues), len(ctlOptions), len(ctlGeneric), len(operatorNames), len(operatorArgs),
			len(selectorForms("V")), len(transformationNames), len(roles), len(roles), len(roleStrings), len(engineContexts), delimiters, len(quickBattery), len(battery)),
		Assumptions: []string{
			"calls after Close are exercised (Close in a non-final position, Close first, Close twice) on an object that is not handed to another transaction meanwhile; one goroutine per transaction",
			"operators that leave the process (@rbl DNS, @inspectFile exec) are constructed but never evaluated; audit writers HTTPS/Syslog are initialised but never written to over the network",
			"file-system targets of directives are confined to the worker's private directory; the file system does not fail (C20's subject)",
			"hangs are detected by a 20 s per-case watchdog (re-run twice before it is believed), which is a timeout, not an exploration",
		},
		Run:    run,
		Replay: replay,
	})
}

// watchdog time per case. C07_WATCHDOG (seconds) and C07_INJECT_HANG (a class
// name: cases of that class never return) exist only to exercise the watchdog
// path itself; they are never set by the driver.
var watchdog = func() time.Duration {
	if s, err := strconv.Atoi(os.Getenv("C07_WATCHDOG")); err == nil && s > 0 {
		return time.Duration(s) * time.Second
	}
	return 20 * time.Second
}()

var injectHang = os.Getenv("C07_INJECT_HANG")

// MarshalJSON keeps arbitrary bytes of the configuration replayable.
func (k kase) MarshalJSON() ([]byte, error) {
	return json.Marshal(map[string]string{
		"class": k.Class, "conf": strconv.QuoteToASCII(k.Conf), "conf2": strconv.QuoteToASCII(k.Conf2), "seq": k.Seq,
	})
}

func (k *kase) UnmarshalJSON(b []byte) error {
	var m map[string]string
	if err := json.Unmarshal(b, &m); err != nil {
		return err
	}
	var err error
	k.Class, k.Seq = m["class"], m["seq"]
	if k.Conf, err = strconv.Unquote(m["conf"]); err != nil {
		return err
	}
	if m["conf2"] != "" {
		if k.Conf2, err = strconv.Unquote(m["conf2"]); err != nil {
			return err
		}
	}
	return nil
}

// env is the private file-system environment of a worker.
type env struct {
	scratch string // cwd of the process; every relative or @@S@@ path lands here; emptied after every case
	fx      string // read-only fixtures
	tmp     string // TMPDIR of the process
	environ []string
	n       int
}

func newEnv(work string) (*env, error) {
	e := &env{scratch: filepath.Join(work, "s"), fx: filepath.Join(work, "fx")}
	tmp := filepath.Join(work, "tmp")
	e.tmp = tmp
	for _, d := range []string{e.scratch, e.fx, tmp} {
		if err := os.MkdirAll(d, 0o755); err != nil {
			return nil, err
		}
	}
	files := map[string]string{
		"pm.txt":      "zzz\nk\n# comment\n\n",
		"ip.txt":      "10.0.0.0/8\n::1\n# c\n192.168.1.1\n",
		"schema.json": `{"type":"object","properties":{"k":{"type":"string"}}}`,
		"bad.json":    `{"type":`,
		"inc.conf":    "SecAction \"id:80,phase:1,pass,nolog\"\n",
		"self.conf":   "SecAction \"phase:1,pass,nolog\"\nInclude " + filepath.Join(e.fx, "self.conf") + "\n",
		"loop-a.conf": "Include " + filepath.Join(e.fx, "loop-b.conf") + "\n",
		"loop-b.conf": "Include loop-a.conf\n",
		"bad.conf":    "SecRule ARGS \"@rx (\" \"id:81\"\n",
		"k":           "zzz\n",
		"zzz":         "zzz\n",
		"role1":       "zzz\n",
	}
	for n, c := range files {
		if err := os.WriteFile(filepath.Join(e.fx, n), []byte(c), 0o644); err != nil {
			return nil, err
		}
	}
	if err := os.Chdir(e.scratch); err != nil {
		return nil, err
	}
	_ = os.Setenv("TMPDIR", tmp)
	e.environ = os.Environ()
	return e, nil
}

func (e *env) expand(conf string) string {
	if !strings.Contains(conf, "@@") {
		return conf
	}
	conf = strings.ReplaceAll(conf, "@@S@@", e.scratch)
	conf = strings.ReplaceAll(conf, "@@FX@@", e.fx)
	return strings.ReplaceAll(conf, big, strings.Repeat("A", 70000))
}

// cleanup empties the scratch directory and undoes setenv actions.
func (e *env) cleanup(conf string) {
	lc := strings.ToLower(conf)
	e.n++
	if e.n%512 == 0 || strings.Contains(lc, "@@s@@") || strings.Contains(lc, "secauditlog") || strings.Contains(lc, "secdebuglog") ||
		strings.Contains(lc, "secupload") || strings.Contains(lc, "secdatadir") {
		for _, d := range []string{e.scratch, e.tmp} {
			if ents, err := os.ReadDir(d); err == nil {
				for _, en := range ents {
					_ = os.RemoveAll(filepath.Join(d, en.Name()))
				}
			}
		}
	}
	if strings.Contains(lc, "setenv") {
		os.Clearenv()
		for _, kv := range e.environ {
			if i := strings.IndexByte(kv, '='); i > 0 {
				_ = os.Setenv(kv[:i], kv[i+1:])
			}
		}
	}
}

type panicRec struct {
	Stage string
	Text  string // "msg @ frame"
}

type result struct {
	accepted bool
	buildErr string
	panics   []panicRec
	outcome  string
	seqs     int
	builds   int
}

func build(conf string) (w coraza.WAF, err error, pan string) {
	pan = probe.Safe(func() {
		cfg := coraza.NewWAFConfig().WithDirectives(conf).WithErrorCallback(func(mr types.MatchedRule) {
			_ = mr.ErrorLog()
		})
		w, err = coraza.NewWAF(cfg)
	})
	return
}

func closeWAF(w coraza.WAF) string {
	return probe.Safe(func() {
		if c, ok := w.(interface{ Close() error }); ok {
			_ = c.Close()
		}
	})
}

// execute runs one case to the end. seqs = indexes into battery; only = a
// single stage to run ("" = everything).
func execute(e *env, k kase, seqs []int, only string) *result {
	r := &result{}
	if injectHang != "" && k.Class == injectHang {
		select {}
	}
	memoize.Reset()
	defer e.cleanup(k.Conf + k.Conf2)
	var wafs []coraza.WAF
	var out strings.Builder
	for i, conf := range []string{k.Conf, k.Conf2} {
		if conf == "" {
			continue
		}
		stage := "NewWAF"
		if i == 1 {
			stage = "NewWAF#2"
		}
		r.builds++
		w, err, pan := build(e.expand(conf))
		switch {
		case pan != "":
			r.panics = append(r.panics, panicRec{stage, pan})
			out.WriteString(stage + ":panic;")
		case err != nil:
			r.buildErr = err.Error()
			out.WriteString(stage + ":" + blank(err.Error()) + ";")
		default:
			wafs = append(wafs, w)
		}
	}
	if len(r.panics) == 0 && r.buildErr == "" {
		r.accepted = true
		for wi := len(wafs) - 1; wi >= 0; wi-- {
			w := wafs[wi]
			for _, si := range seqs {
				s := battery[si]
				stage := s.Name
				if wi == 1 {
					stage += "#2"
				}
				if isSequenceStage(only) && only != stage {
					continue
				}
				r.seqs++
				var tx types.Transaction
				obs := ""
				pan := probe.Safe(func() {
					tx = newTx(w, si)
					s.Run(tx)
					obs = observe(tx)
				})
				if tx != nil {
					if p := probe.Safe(func() { _ = tx.Close(); _ = tx.Close() }); p != "" && pan == "" {
						pan = "Close: " + p
					}
				}
				if pan != "" {
					r.panics = append(r.panics, panicRec{stage, pan})
					obs = "panic"
				}
				out.WriteString(obs + ";")
			}
		}
	}
	for _, w := range wafs {
		if p := closeWAF(w); p != "" {
			r.panics = append(r.panics, panicRec{"WAF.Close", p})
		}
	}
	r.outcome = out.String()
	return r
}

func isSequenceStage(stage string) bool {
	stage = strings.TrimSuffix(stage, "#2")
	for _, s := range battery {
		if s.Name == stage {
			return true
		}
	}
	return false
}

// guarded runs execute under the watchdog. A goroutine and a timer are used
// for nothing else in this check.
func guarded(e *env, k kase, seqs []int, only string, d time.Duration) (*result, bool) {
	ch := make(chan *result, 1)
	go func() { ch <- execute(e, k, seqs, only) }()
	t := time.NewTimer(d)
	defer t.Stop()
	select {
	case r := <-ch:
		return r, true
	case <-t.C:
		return nil, false
	}
}

var (
	reFired  = regexp.MustCompile(`/[0-9]+;`)
	reNum    = regexp.MustCompile(`[0-9]+`)
	reQuoted = regexp.MustCompile(`"(?:[^"\\]|\\.)*"`)
	reHex    = regexp.MustCompile(`0x[0-9a-fA-F]+`)
)

// blank removes what varies with the input from a message: quoted text, numbers.
func blank(s string) string {
	if len(s) > 400 {
		s = s[:400]
	}
	s = reQuoted.ReplaceAllString(s, `"…"`)
	s = reHex.ReplaceAllString(s, "0xN")
	s = reNum.ReplaceAllString(s, "N")
	if len(s) > 160 {
		s = s[:160]
	}
	return s
}

// signature of a panic: the blanked message and the innermost coraza frame.
func signature(p string) string {
	msg, frame := p, ""
	if i := strings.LastIndex(p, " @ "); i >= 0 {
		msg, frame = p[:i], p[i+3:]
	}
	return "panic:" + blank(msg) + " @ " + frame
}

func rootClass(class string) string {
	class = strings.TrimPrefix(class, "edit:")
	parts := strings.Split(class, ":")
	if len(parts) > 2 {
		parts = parts[:2]
	}
	return strings.Join(parts, ":")
}

func describe(k kase, stage, text string) string {
	var sb strings.Builder
	fmt.Fprintf(&sb, "stage %s: %s\nclass %s\nconfiguration (after the fixed prelude):\n", stage, text, k.Class)
	sb.WriteString(clip(strings.TrimPrefix(k.Conf, prelude)))
	if k.Conf2 != "" {
		sb.WriteString("second WAF of the same process (after the fixed prelude):\n" + clip(strings.TrimPrefix(k.Conf2, prelude)))
	}
	return sb.String()
}

func clip(s string) string {
	s = strings.ReplaceAll(s, companions, "<companion rules>\n")
	if len(s) > 1500 {
		s = s[:1500] + "…"
	}
	return strconv.QuoteToASCII(s) + "\n"
}

// heartbeat records the case about to be executed in the file the runner reads
// when a worker dies (fatal errors - stack exhaustion, concurrent map writes -
// cannot be recovered). runner.Ctx.Heartbeat opens, writes and closes the file
// every time; with one case per 100 us that is the dominant cost, so the file is
// kept open here and overwritten in place.
type heartbeat struct {
	c *runner.Ctx
	f *os.File
}

func newHeartbeat(c *runner.Ctx) *heartbeat {
	h := &heartbeat{c: c}
	c.Heartbeat("c07-probe")
	path := filepath.Join(filepath.Dir(c.Work), fmt.Sprintf("worker-%s%d.json.hb", c.Variant, c.Worker))
	if b, err := os.ReadFile(path); err == nil && string(b) == `"c07-probe"` {
		if f, err := os.OpenFile(path, os.O_WRONLY, 0o644); err == nil {
			h.f = f
		}
	}
	return h
}

func (h *heartbeat) beat(k kase) {
	if h.f == nil {
		h.c.Heartbeat(k)
		return
	}
	b, _ := json.Marshal(k)
	if _, err := h.f.WriteAt(b, 0); err == nil {
		_ = h.f.Truncate(int64(len(b)))
	}
}

func (h *heartbeat) close() {
	if h.f != nil {
		_ = h.f.Close()
	}
}

// progress is shared between the goroutine that executes the cases and the
// supervisor that watches it (the only concurrency of this check).
type progress struct {
	mu        sync.Mutex
	index     int       // enumeration index of the case in progress (0 = none)
	started   time.Time // when it started
	abandoned bool      // the supervisor gave this executor up
}

func run(c *runner.Ctx) {
	e, err := newEnv(c.Work)
	if err != nil {
		c.Incomplete("cannot prepare the private directories: " + err.Error())
		return
	}
	if added := completeDirectives(); len(added) > 0 {
		c.Note("directives of the checked tree missing from the built-in list, added: %v", added)
	}
	if n := len(variableNames()); n < 100 {
		c.Incomplete(fmt.Sprintf("only %d variable names found", n))
	}
	seqs := quickBattery
	if c.Thorough() {
		seqs = nil
		for i := range battery {
			seqs = append(seqs, i)
		}
	}
	hb := newHeartbeat(c)
	defer hb.close()
	c.Count("watchdog_kills", 0) // reported also when nothing was killed
	c.Count("hangs_confirmed", 0)

	// The cases are executed one after the other by one goroutine; this
	// goroutine only watches the clock. When a case does not return within the
	// watchdog time its executor is abandoned, the case is re-run twice (each
	// under the same watchdog) before the hang is believed, and a new executor
	// continues with the next case.
	var counts map[string]int
	from := 1
	for {
		p := &progress{}
		done := make(chan struct{})
		go func(from int) {
			defer close(done)
			cn := executor(c, e, hb, seqs, p, from)
			if cn != nil {
				counts = cn
			}
		}(from)
		hung, hungCase := supervise(p, done)
		if hung == 0 {
			break
		}
		c.Count("configurations", 1)
		c.Count("watchdog_kills", 1)
		c.Count("evaluations", 1)
		again := 0
		for n := 0; n < 2; n++ {
			if _, ok := guarded(e, hungCase, seqs, "", watchdog); !ok {
				again++
			}
		}
		if again == 2 {
			c.Count("hangs_confirmed", 1)
			c.Violation("hang:"+rootClass(hungCase.Class), describe(hungCase, "watchdog", fmt.Sprintf("no return within %v, three times", watchdog)), hungCase)
		} else {
			c.Count("watchdog_kills_not_confirmed", 1)
		}
		from = hung + 1
	}
	if c.Worker == 0 && counts != nil {
		c.Extra("configurations_per_class", counts)
		c.Extra("battery", len(seqs))
	}
}

// supervise returns (0, _) when the executor has finished, or the index and the
// case that has been running for longer than the watchdog time.
func supervise(p *progress, done chan struct{}) (int, kase) {
	t := time.NewTicker(250 * time.Millisecond)
	defer t.Stop()
	for {
		select {
		case <-done:
			return 0, kase{}
		case <-t.C:
			p.mu.Lock()
			if p.index != 0 && time.Since(p.started) > watchdog {
				p.abandoned = true
				i := p.index
				p.mu.Unlock()
				return i, caseAt(i)
			}
			p.mu.Unlock()
		}
	}
}

var caseAtThorough bool

// caseAt re-enumerates the space up to case i.
func caseAt(i int) kase {
	var out kase
	n := 0
	forEachCase(caseAtThorough, func(k kase) {
		n++
		if n == i {
			out = k
		}
	})
	return out
}

// executor runs this worker's share of the cases numbered from..; it returns
// the per-class sizes of the space when it reached the end.
func executor(c *runner.Ctx, e *env, hb *heartbeat, seqs []int, p *progress, from int) map[string]int {
	caseAtThorough = c.Thorough()
	i := 0
	stop := false
	counts := forEachCase(c.Thorough(), func(k kase) {
		i++
		if stop || i < from || !c.Mine(i) {
			return
		}
		if c.Expired() {
			stop = true
			return
		}
		hb.beat(k)
		p.mu.Lock()
		p.index, p.started = i, time.Now()
		p.mu.Unlock()
		r := execute(e, k, seqs, "")
		p.mu.Lock()
		p.index = 0
		gone := p.abandoned
		if !gone {
			record(c, k, r)
		}
		p.mu.Unlock()
		if gone {
			stop = true
		}
	})
	if stop {
		return nil
	}
	return counts
}

func record(c *runner.Ctx, k kase, r *result) {
	c.Count("configurations", 1)
	c.Count("evaluations", int64(r.builds+r.seqs))
	c.Count("sequences_run", int64(r.seqs))
	if r.accepted {
		c.Count("configurations_accepted", 1)
		c.Distinct(k.Conf + "\x00" + k.Conf2)
		if c.WantSample() && c.Get("configurations_accepted")%97 == 1 {
			c.Sample(map[string]any{"class": k.Class, "configuration_after_prelude": strings.TrimPrefix(k.Conf, prelude), "sequences": r.seqs, "outcome": r.outcome})
		}
	} else {
		c.Count("configurations_rejected", 1)
	}
	if strings.Contains(k.Conf, "@@") || strings.Contains(k.Conf2, "@@") {
		// the private directory has a random name and may end up in operator
		// arguments: the number of fired rules is not a function of the case
		c.Outcome(reFired.ReplaceAllString(r.outcome, "/*;"))
	} else {
		c.Outcome(r.outcome)
	}
	for sig, p := range signatures(r.panics) {
		c.Count("panics", 1)
		kk := k
		kk.Seq = p.Stage
		c.Violation(sig, describe(k, p.Stage, p.Text), kk)
	}
}

// outOfOrder: sequences that call the transaction in an order no connector uses.
var outOfOrder = map[string]bool{"reversed": true, "bodies-before-headers": true, "response-only": true, "repeats": true}

const outOfOrderMark = " [body bytes written before the request headers were processed]"

// bodyWriter: the innermost frame is one of the four body-buffering calls.
func bodyWriter(sig string) bool {
	return strings.Contains(sig, "Transaction).WriteRequestBody") || strings.Contains(sig, "Transaction).WriteResponseBody") ||
		strings.Contains(sig, "Transaction).ReadRequestBodyFrom") || strings.Contains(sig, "Transaction).ReadResponseBodyFrom")
}

// signatures maps the panics of one case to root-cause signatures (first stage
// per signature): blanked message + innermost coraza frame. One refinement, for
// the slice arithmetic of the four body-buffering calls only: two different
// defects end in the same frame with the same message - a limit that is not
// positive (every write fails, also in connector order) and a limit lowered
// below what is already buffered (needs body bytes written before phase 1, an
// order no connector uses). A case of the second kind is recognised by failing
// in none of the connector-order sequences and gets its own signature.
func signatures(panics []panicRec) map[string]panicRec {
	inOrder := map[string]bool{}
	for _, p := range panics {
		if !outOfOrder[strings.TrimSuffix(p.Stage, "#2")] {
			inOrder[signature(p.Text)] = true
		}
	}
	out := map[string]panicRec{}
	for _, p := range panics {
		sig := signature(p.Text)
		if bodyWriter(sig) && !inOrder[sig] {
			sig += outOfOrderMark
		}
		if _, ok := out[sig]; !ok {
			out[sig] = p
		}
	}
	return out
}

func replay(raw json.RawMessage) (bool, string) {
	var k kase
	if err := json.Unmarshal(raw, &k); err != nil {
		return false, err.Error()
	}
	work, err := os.MkdirTemp("", "c07-replay-")
	if err != nil {
		return false, err.Error()
	}
	cwd, _ := os.Getwd()
	defer func() {
		if cwd != "" {
			_ = os.Chdir(cwd)
		}
		_ = os.RemoveAll(work)
	}()
	e, err := newEnv(work)
	if err != nil {
		return false, err.Error()
	}
	var seqs []int
	for i := range battery {
		seqs = append(seqs, i)
	}
	r, ok := guarded(e, k, seqs, k.Seq, watchdog)
	if !ok {
		return true, describe(k, "watchdog", fmt.Sprintf("no return within %v", watchdog))
	}
	var sb strings.Builder
	for sig, p := range signatures(r.panics) {
		sb.WriteString(describe(k, p.Stage, p.Text))
		sb.WriteString("signature: " + sig + "\n")
	}
	if len(r.panics) == 0 {
		fmt.Fprintf(&sb, "no panic; accepted=%v error=%q outcome=%s\n", r.accepted, r.buildErr, r.outcome)
	}
	return len(r.panics) > 0, sb.String()
}
