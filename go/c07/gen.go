package c07

import (
	"fmt"
	"strings"
)

// kase is one point of the enumerated space and, at the same time, the
// replayable scenario of a violation.
type kase struct {
	Class string `json:"class"`           // grammar class of the hole (root of the hang signature)
	Conf  string `json:"conf"`            // configuration text; @@S@@ = private scratch dir, @@FX@@ = fixture dir, @@BIG@@ = 70 kB token
	Conf2 string `json:"conf2,omitempty"` // second WAF built in the same process while the first is alive
	Seq   string `json:"seq,omitempty"`   // replay only: the failing stage ("NewWAF", "NewWAF#2", "<sequence>", "<sequence>#2")
}

const bt = "`"

// Every configuration = prelude + hole + companions (or prelude + companions + hole).
const prelude = "SecRuleEngine On\n" +
	"SecRequestBodyAccess On\n" +
	"SecResponseBodyAccess On\n" +
	"SecResponseBodyMimeType text/plain application/json text/xml\n" +
	"SecRequestBodyLimit 256\n" +
	"SecRequestBodyLimitAction ProcessPartial\n" +
	"SecResponseBodyLimit 256\n" +
	"SecResponseBodyLimitAction ProcessPartial\n" +
	"SecDataset d1 " + bt + "\nzzz\nk\n" + bt + "\n" +
	"SecDataset dip " + bt + "\n10.0.0.0/8\n::1\n" + bt + "\n" +
	"SecAction \"id:90,phase:1,pass,nolog,setvar:tx.b=k,setvar:tx.n=1\"\n" +
	// the body-processor selection of coraza.conf-recommended, so that JSON and XML bodies are parsed
	"SecRule REQUEST_HEADERS:Content-Type \"^application/json\" \"id:93,phase:1,pass,nolog,ctl:requestBodyProcessor=JSON\"\n" +
	"SecRule REQUEST_HEADERS:Content-Type \"^text/xml\" \"id:94,phase:1,pass,nolog,ctl:requestBodyProcessor=XML\"\n" +
	"SecRule RESPONSE_HEADERS:Content-Type \"^application/json\" \"id:95,phase:3,pass,nolog,ctl:responseBodyProcessor=JSON\"\n" +
	"SecRule RESPONSE_HEADERS:Content-Type \"^text/xml\" \"id:96,phase:3,pass,nolog,ctl:responseBodyProcessor=XML\"\n"

const companions = "SecRule ARGS \"@rx zzz\" \"id:91,phase:2,pass,log,tag:t1,msg:'m1'\"\n" +
	"SecRule RESPONSE_BODY \"@contains zzz\" \"id:92,phase:4,pass,log,tag:t1\"\n" +
	"SecMarker M1\n"

// context B: everything that formats or logs is switched on.
const loud = "SecDebugLog @@S@@/debug.log\nSecDebugLogLevel 9\n" +
	"SecAuditEngine On\nSecAuditLog @@S@@/audit.log\nSecAuditLogParts ABCDEFGHIJKZ\nSecAuditLogFormat JSON\n"

const big = "@@BIG@@"

// delimiters of the byte-level mutations (DESIGN §C07) plus the three the
// macro and ctl scanners look at.
const delimiters = "\"',:|\\/=;%{}"

type emitter struct {
	thorough bool
	f        func(k kase)
	counts   map[string]int
}

func (e *emitter) raw(class, conf, conf2 string) {
	e.counts[strings.SplitN(class, ":", 2)[0]]++
	e.f(kase{Class: class, Conf: conf, Conf2: conf2})
}

// hole emits the configuration with the hole in the middle and, in the
// thorough tier, every single-delimiter deletion / duplication of the hole text.
func (e *emitter) hole(class, hole string) { e.holeAt(class, hole, false, true) }

func (e *emitter) holeAt(class, hole string, atEnd, edits bool) {
	build := func(h string) string {
		if atEnd {
			return prelude + companions + h + "\n"
		}
		return prelude + h + "\n" + companions
	}
	e.raw(class, build(hole), "")
	if !e.thorough || !edits {
		return
	}
	for i := 0; i < len(hole); i++ {
		c := hole[i]
		if strings.IndexByte(delimiters, c) < 0 {
			continue
		}
		if inPlaceholder(hole, i) {
			continue
		}
		e.raw("edit:"+class, build(hole[:i]+hole[i+1:]), "")
		e.raw("edit:"+class, build(hole[:i+1]+hole[i:]), "")
	}
}

// inPlaceholder: position i is inside an @@X@@ token.
func inPlaceholder(s string, i int) bool {
	for _, p := range []string{"@@S@@", "@@FX@@", big} {
		for off := 0; ; {
			j := strings.Index(s[off:], p)
			if j < 0 {
				break
			}
			j += off
			if i >= j && i < j+len(p) {
				return true
			}
			off = j + len(p)
		}
	}
	return false
}

func forEachCase(thorough bool, f func(k kase)) map[string]int {
	e := &emitter{thorough: thorough, f: f, counts: map[string]int{}}
	vars := variableNames()
	genDirectives(e)
	genActions(e, vars)
	genCtl(e, vars)
	genOperators(e)
	genVariables(e, vars)
	genTransformations(e)
	genRoles(e)
	genContexts(e)
	genLoud(e, vars)
	return e.counts
}

// ---- directives x argument shapes -----------------------------------------

var genericArgs = []string{
	"", " ", "On", "Off", "abc", "-1", "0", "1", `1 2 "X"`, `"On"`, `"x y"`, `"abc`, `'abc`, `abc"`, `""`, `"`,
	"99999999999999999999", "1073741825", bt, "a" + bt, `a\`, `\`, "%{tx.b}", "k=v", "/", "//", big, "\t", "\x00\xff",
}

var specificArgs = map[string][]string{
	"secruleengine":                  {"DetectionOnly", "on", "detectiononly"},
	"secrequestbodylimit":            {"13", "255", "257", "1073741824", "9223372036854775807", "-9223372036854775808", "1e3", "0x10", "+5"},
	"secresponsebodylimit":           {"13", "255", "257", "1073741824", "9223372036854775807"},
	"secrequestbodyinmemorylimit":    {"13", "256", "257", "9223372036854775807"},
	"secrequestbodynofileslimit":     {"13", "9223372036854775807"},
	"secrequestbodylimitaction":      {"Reject", "ProcessPartial", "reject"},
	"secresponsebodylimitaction":     {"Reject", "ProcessPartial"},
	"secrequestbodyjsondepthlimit":   {"2", "2147483647"},
	"secargumentslimit":              {"2", "3", "2147483647"},
	"secresponsebodymimetype":        {"text/plain", "*/*", "text/plain  text/html", "TEXT/PLAIN"},
	"secauditengine":                 {"RelevantOnly", "relevantonly"},
	"secauditlogparts":               {"ABCDEFGHIJKZ", "AZ", "ABCFHZ", "ABCXYZ", "A", "Z", "ZA", "+E", "-E", "abz", "AAZ", "ABCDEFGHIJKZABCDEFGHIJKZ"},
	"secauditlogformat":              {"JSON", "JsonLegacy", "Native", "OCSF", "json"},
	"secauditlogtype":                {"Serial", "Concurrent", "HTTPS", "Syslog", "serial"},
	"secauditlogrelevantstatus":      {"^4", "(", ".*", "^(?:5|4(?!04))", "k"},
	"secauditlogdirmode":             {"0600", "0777", "9", "07777777777", "default"},
	"secauditlogfilemode":            {"0600", "0777", "9", "07777777777", "default"},
	"secuploadfilemode":              {"0600", "0777", "9", "07777777777"},
	"secuploadkeepfiles":             {"RelevantOnly"},
	"secuploadfilelimit":             {"2", "2147483648"},
	"secuploaddir":                   {"@@S@@", "@@S@@/missing", "@@FX@@/pm.txt"},
	"secauditlog":                    {"@@S@@/a.log", "@@S@@/missing/a.log", "@@S@@", "/dev/stdout-not"},
	"secauditlogstoragedir":          {"@@S@@", "@@S@@/missing"},
	"secdebuglog":                    {"@@S@@/d.log", "@@S@@/missing/d.log", "@@S@@"},
	"secdatadir":                     {"@@S@@"},
	"secdebugloglevel":               {"2", "3", "4", "5", "9", "10", "127", "128", "-128", "-129"},
	"secruleremovebyid":              {"91", "90-92", "91 92", "92-90", "1-", "-", "a-b", "91-91", "0-0", "1-2-3", "91  92", "-5-5", "999"},
	"secruleremovebymsg":             {"m1", `"m1"`, "'m1'", "%{tx.b}"},
	"secruleremovebytag":             {"t1", `"t1"`},
	"secruleupdatetargetbyid":        {"91 ARGS:x", `91 "!ARGS:x"`, "90-92 ARGS:x", "91 92 ARGS", "91", "0 ARGS", "91 FOO", "91 ARGS:/(/", "91 &ARGS", `91 "ARGS|!ARGS:/a/"`, "91-91 X", "999 ARGS", "91 999 ARGS", "90-92 FOO", "92-90 ARGS", "91 ARGS:/a", `91 "`, "91 ARGS:'", "91 JSON:a.b", "91 XML:/*", "90-92 !ARGS:", "a ARGS", "-1 ARGS", "1- ARGS", "91 ARGS:"},
	"secruleupdateactionbyid":        {`91 "deny,status:403"`, `91 "chain"`, `90-92 "t:none"`, "91 setvar:tx.a", `91 "id:5"`, `91 "phase:1"`, `0 "deny"`, `91 ""`, `91 "`, "91 92 pass", `90-92 "deny"`, `90-92 "foo"`, `91 "msg:'%{JSON.x}'"`, `0 "chain"`, "91 ,", "91 :", `91 "t:lowercase,t:none,t:length"`, `90-92 "setvar:tx.a"`, `90-92 "id:7"`, "999 deny", "91", "a deny", "92-90 deny", `91 "skipAfter:M1"`, `91 "ctl:ruleRemoveById=91"`, `90-92 "severity:x"`},
	"secruleupdatetargetbytag":       {"t1 ARGS:x", "t1", `"t1" "!ARGS"`, "t1 FOO", "t1 ARGS:/(/", "nope ARGS", "t1 ARGS X", `t1 "`, "t1 ARGS:"},
	"secdefaultaction":               {`"phase:2,deny,status:403"`, `"phase:1,pass,log"`, `"phase:2,pass,t:lowercase"`, `"deny"`, `"phase:2"`, `"phase:2,deny,msg:'x'"`, `"phase:9,deny"`, `"phase:2,pass,setvar:tx.a"`, `"phase:2,block"`, `"phase:2,pass,chain"`, `"phase:2,pass,ctl:ruleEngine=Off"`, `"phase:2,pass,foo"`, `"phase:4,drop"`, `"phase:2,pass,logdata:'%{JSON.x}'"`, "phase:2,deny", `"phase:2,redirect:http://x/"`, `"phase:2,allow:phase"`, `"phase:2,pass,skip:1"`},
	"secdataset":                     {"d2 " + bt + "\nx\n" + bt, "d2", "d1 " + bt + "\n" + bt, "d2 " + bt, "d2 x", bt + "\n" + bt, "d2 " + bt + "\n# c\n\n" + bt},
	"secmarker":                      {"M1", "M2", `"x y"`},
	"secaction":                      {`"id:1,pass"`, `"pass"`, `id:1,pass`, `"id:1,pass`, `id:1,pass"`, `"id:90,pass"`, `"id:1,chain"`, `"id:1,phase:2,pass" "x"`, `"id:1,phase:2,pass"extra`},
	"secrule":                        {`ARGS "@rx k" "id:1,pass"`, `ARGS "@rx k"`, `ARGS`, `ARGS k`, `ARGS "k`, `ARGS "k" "id:1,pass`, `ARGS "k" id:1`, `ARGS  "k"  "id:1,pass"`, `"ARGS" "k" "id:1"`, `ARGS "k\" "id:1,pass"`, `ARGS "k\\" "id:1,pass"`, `ARGS "@rx k" "id:1,chain"`, `ARGS "" "id:1,pass"`, `ARGS "!" "id:1,pass"`, `ARGS "@" "id:1,pass"`, `ARGS "!@" "id:1,pass"`, `ARGS "! " "id:1,pass"`, `ARGS " " "id:1,pass"`, `ARGS "@ rx" "id:1,pass"`, `ARGS "!@ " "id:1,pass"`, `ARGS "!!@rx k" "id:1,pass"`, `ARGS "k" ""`, `ARGS "k" " "`, `ARGS "k" ","`, `ARGS "k" ":"`, `ARGS "k" "'"`, `ARGS "k" "id:1,"`, `ARGS "k" ",id:1"`, `ARGS "k" "id:1,,pass"`, `ARGS "k" "id:1,pass,:"`, `ARGS "k" "id:1,pass,'"`, ` ARGS "k" "id:1"`},
	"secignorerulecompilationerrors": {"On\nSecRule ARGS \"@rx (\" \"id:1,pass,chain\"\nSecRule ARGS \"@rx k\" \"setvar:tx.a=1\"", "On\nSecRule ARGS \"@rx k\" \"id:1,pass,chain\"\nSecRule FOO \"@rx k\" \"pass\"\nSecRule ARGS \"@rx k\" \"id:2,pass\"", "On\nSecRule ARGS \"@rx k\" \"id:1,pass,chain\"\nSecRule ARGS \"@rx k\" \"deny\"", "On\nSecRule ARGS \"@foo\" \"id:1\"\nSecAction \"id:90,pass\""},
	"secrxprefilter":                 {"On\nSecRule ARGS|REQUEST_HEADERS \"@rx ^(k)$\" \"id:1,phase:2,pass,capture\"\nSecRule ARGS \"@rx (?i)zz+|^$|\\x00\" \"id:2,phase:2,pass,capture\""},
	"seccomponentsignature":          {`"OWASP_CRS/4.18.0"`},
	"include":                        {"@@FX@@/inc.conf", "@@FX@@/self.conf", "@@FX@@/*.conf", "@@FX@@", "@@FX@@/missing.conf", "@@FX@@/[", "inc.conf", "*", `"@@FX@@/inc.conf"`, "@@FX@@/loop-a.conf", "@@FX@@/bad.conf", "@@FX@@/pm.txt"},
}

func genDirectives(e *emitter) {
	for _, d := range directiveNames {
		args := append([]string{}, genericArgs...)
		args = append(args, specificArgs[strings.ToLower(d)]...)
		for _, a := range args {
			line := d
			if a != "" {
				line = d + " " + a
			}
			edits := a != big
			e.holeAt("directive:"+d, line, false, edits)
			e.holeAt("directive:"+d+":last", line, true, false)
		}
		// other spellings of the name
		e.holeAt("directive:"+d, strings.ToUpper(d)+" On", false, false)
		e.holeAt("directive:"+d, d+"\tOn", false, false)
	}
}

// ---- actions x value shapes -------------------------------------------------

var genericValues = []string{
	"", ":", ":x", ":tx.a=1", ":!tx.a", ":tx.a", ":tx.%{tx.b}=+1", ":'q,u:o'", ":-1", ":0", ":1", ":2", ":5", ":6",
	":99999999999999999999", ":%{tx.b}", ":%{", ":%{}", ":%{tx.}", ":%{.x}", ":%{tx.b", ":%{tx.b}}", ":%%{tx.b}", ":%{tx.b.c}", ":%{tx}",
	":%{unknown}", ":%{unknown.k}", ":%{foo.k}", ":'unclosed", ":a=b", ":=b", ":a=", ":=", ": x ", `:"x"`, ":''", ":'", ":" + big,
	":\\", ":x\\", ":\\'", ":'\\'", ":a:b", ":a,b", ":!", ":!tx", ":tx.", ":tx.=1", ":!tx.", ":tx", ":TX.A=%{TX.B}", ":tx.a=+", ":tx.a=-", ":tx.a=+x",
	":tx.a=+%{tx.b}", ":tx.a=-%{tx.n}", ":tx.n=+99999999999999999999", ":tx.n=-9223372036854775808", ":tx.a=%{tx.a}%{tx.b}x", ":ip.a=1", ":!ip.a",
	":\x00", ":\xff", ":%", ":x%", ":%%", ":%{tx.b}%", ":{", ":}", ":%}", ":%{tx.b}{", ":tx.a=%", ":tx.%=1",
}

var specificValues = map[string][]string{
	"allow":      {":phase", ":request", ":Phase"},
	"severity":   {":CRITICAL", ":EMERGENCY", ":7", ":8", ":critical", ":'2'"},
	"phase":      {":request", ":response", ":logging", ":3", ":4", ":Request"},
	"t":          {":lowercase", ":none", ":length", ":none,t:length,t:none"},
	"status":     {":403", ":302", ":999999", ":301"},
	"redirect":   {":http://x/", ":%{tx.b}", ":/%{request_uri}"},
	"skip":       {":3", ":2147483647", ":9223372036854775807"},
	"skipAfter":  {":M1", ":ABSENT", ":'M1'", ":%{tx.b}"},
	"id":         {":7", ":2147483647", ":9223372036854775807", ":'7'", ":07", ":+7"},
	"maturity":   {":9", ":10"},
	"chain":      {"\"\nSecRule ARGS \"@rx k\" \"pass", "\"\nSecAction \"pass", "\"\nSecRule ARGS \"@rx k\" \"deny", "\"\nSecRule ARGS \"@rx k\" \"chain\"\nSecRule ARGS \"@rx k\" \"setvar:tx.c=1", "\"\nSecMarker X\nSecAction \"id:7,pass", "\"\nSecRule ARGS \"@rx (\" \"pass\"\nSecAction \"id:7,pass", ",skip:1\"\nSecRule ARGS \"@rx k\" \"pass", ",skipAfter:M1\"\nSecRule ARGS \"@rx k\" \"msg:'%{matched_var}'"},
	"setenv":     {":C07K=v", ":C07K=%{tx.b}", ":C07K=", ":=v", ":C07=K=v", ":C07\x00K=v"},
	"initcol":    {":ip=%{remote_addr}", ":ip", ":=x", ":global=global", ":%{tx.b}=%{tx.b}"},
	"expirevar":  {":tx.a=60", ":ip.a=-1"},
	"exec":       {":/bin/true"},
	"capture":    {},
	"multiMatch": {},
	"logdata":    {":'%{matched_var}'", ":%{tx.0}%{tx.10}"},
	"msg":        {":'m1'", ":'%{rule.msg}'", ":%{rule.id}"},
	"tag":        {":t1", ":'a,b'"},
	"ctl":        {":ruleEngine=Off", ":ruleEngine"},
}

// macroShapes: the places a %{VAR.k} macro naming any variable can stand in.
func macroShapes(v string) []string {
	return []string{
		"setvar:tx.a=%{" + v + ".k}",
		"setvar:tx.%{" + v + ".k}=1",
		"setvar:tx.a=+%{" + v + "}",
		"setvar:!tx.%{" + v + "}",
		"msg:'x %{" + v + ".k} y'",
		"logdata:'%{" + v + "}'",
		"setenv:C07K=%{" + v + ".k}",
		"redirect:/%{" + v + ".k}",
		"initcol:ip=%{" + v + ".k}",
	}
}

// actionTemplates wrap one action text into rule texts.
func actionTemplates(thorough bool) []func(a string) string {
	t := []func(a string) string{
		// unconditional, once per phase
		func(a string) string {
			var sb strings.Builder
			for p := 1; p <= 5; p++ {
				fmt.Fprintf(&sb, "SecAction \"id:%d,phase:%d,pass,%s\"\n", p, p, a)
			}
			return strings.TrimSuffix(sb.String(), "\n")
		},
		// per matched value, with captures
		func(a string) string {
			return "SecRule ARGS|REQUEST_HEADERS \"@rx (k)|(z)\" \"id:1,phase:2,pass,capture," + a + "\""
		},
		// in a chain link
		func(a string) string {
			return "SecRule ARGS \"@rx k\" \"id:1,phase:2,pass,chain\"\nSecRule REQUEST_HEADERS \"@rx k\" \"" + a + "\""
		},
	}
	if thorough {
		t = append(t,
			// on a chain starter that denies
			func(a string) string {
				return "SecRule ARGS \"@rx k\" \"id:1,phase:2,deny,status:403," + a + ",chain\"\nSecRule REQUEST_HEADERS \"@rx k\" \"t:none\""
			},
			// inherited from SecDefaultAction
			func(a string) string {
				return "SecDefaultAction \"phase:2,pass," + a + "\"\nSecRule ARGS \"@rx k\" \"id:1,phase:2\""
			},
			// added afterwards
			func(a string) string {
				return "SecRule ARGS \"@rx k\" \"id:1,phase:2,pass\"\nSecRuleUpdateActionById 1 \"" + a + "\""
			},
			// response phase, multiMatch
			func(a string) string {
				return "SecRule RESPONSE_BODY|RESPONSE_HEADERS \"@rx k\" \"id:1,phase:4,pass,multiMatch,t:lowercase,t:urlDecodeUni," + a + "\""
			},
		)
	}
	return t
}

func genActions(e *emitter, vars []string) {
	tmpl := actionTemplates(e.thorough)
	for _, name := range actionNames {
		vals := append([]string{}, genericValues...)
		vals = append(vals, specificValues[name]...)
		for _, v := range vals {
			for ti, t := range tmpl {
				e.holeAt(fmt.Sprintf("action:%s:t%d", name, ti), t(name+v), false, (ti == 1 || ti == 2) && !strings.Contains(v, big))
			}
		}
		// a macro naming every variable as the value of every action
		for _, vn := range vars {
			for ti, t := range tmpl {
				if ti > 0 && !e.thorough {
					break
				}
				e.holeAt(fmt.Sprintf("action-macro:%s:t%d", name, ti), t(name+":%{"+vn+".k}"), false, false)
			}
		}
	}
	for _, vn := range append(append([]string{}, vars...), "FOO", "tx", "Args_Get") {
		for _, a := range macroShapes(vn) {
			for ti, t := range tmpl {
				e.holeAt(fmt.Sprintf("macro:%s:t%d", a[:strings.IndexByte(a, ':')], ti), t(a), false, ti == 1 && vn == "JSON")
			}
		}
	}
}

// ---- ctl options x values ---------------------------------------------------

var ctlGeneric = []string{"", "-1", "0", "1", "99999999999999999999", "abc", "On", "Off", "1-", "-", "1-3", "3-1", "90-92", "91", "%{tx.b}", big, "=", ";", "91;", ";ARGS"}

var ctlSpecific = map[string][]string{
	"auditEngine":               {"RelevantOnly", "on"},
	"auditLogParts":             {"+E", "-E", "ABCDEFGHIJKZ", "+", "-", "+X", "-ABCDEFGHIJKZ", "AZ", "+ABCDEFGHIJKZ"},
	"requestBodyLimit":          {"5", "13", "99", "100", "101", "255", "256", "257", "9223372036854775807", "-9223372036854775808", "+5", " 5"},
	"responseBodyLimit":         {"5", "13", "99", "100", "101", "255", "256", "257", "9223372036854775807", "-9223372036854775808"},
	"requestBodyProcessor":      {"JSON", "XML", "MULTIPART", "URLENCODED", "RAW", "json", "FOO", "%{tx.b}"},
	"responseBodyProcessor":     {"JSON", "XML", "MULTIPART", "URLENCODED", "RAW", "FOO"},
	"ruleEngine":                {"DetectionOnly", "on"},
	"debugLogLevel":             {"9", "5", "127", "128", "-128", "10"},
	"ruleRemoveByMsg":           {"m1"},
	"ruleRemoveByTag":           {"t1"},
	"ruleRemoveById":            {"0", "90-92", "1-2-3", "-5-5"},
	"ruleRemoveTargetById":      {"91;ARGS:k", "91;ARGS", "90-92;ARGS:k", "91;FOO:k", "91;ARGS:/k/", "91;ARGS:/(/", "91;ARGS://", "91;ARGS:/", "91;%{tx.b}", "91;ARGS:K", "0;ARGS", "1;ARGS:k", "91;ARGS:k;ARGS:b", "91;ARGS:", "91; ARGS : k ", "91;&ARGS", "91;!ARGS:k", "91;ARGS:/\\//", "3-1;ARGS", "a;ARGS", ";ARGS:k", "91;RESPONSE_BODY", "92;RESPONSE_BODY", "91;ARGS:/K/"},
	"ruleRemoveTargetByTag":     {"t1;ARGS:k", "t1;ARGS", "t1;FOO", "t1;ARGS:/k/", "t1;ARGS:/(/", "nope;ARGS", "t1;RESPONSE_BODY"},
	"ruleRemoveTargetByMsg":     {"m1;ARGS:k", "m1;ARGS", "m1;FOO", "m1;ARGS:/k/", "m1;ARGS:/(/", "nope;ARGS"},
	"forceRequestBodyVariable":  {"on"},
	"forceResponseBodyVariable": {"on"},
}

func genCtl(e *emitter, vars []string) {
	phases := []int{1, 2, 3, 4}
	if e.thorough {
		phases = []int{1, 2, 3, 4, 5}
	}
	for _, opt := range ctlOptions {
		vals := append([]string{}, ctlGeneric...)
		vals = append(vals, ctlSpecific[opt]...)
		for _, v := range vals {
			for _, p := range phases {
				e.holeAt(fmt.Sprintf("ctl:%s:p%d", opt, p), fmt.Sprintf("SecAction \"id:1,phase:%d,pass,ctl:%s=%s\"", p, opt, v), false, p == 1 && v != big)
			}
			if e.thorough {
				// the same ctl fired per matched value of a rule with an operator
				e.holeAt("ctl:"+opt+":rule", fmt.Sprintf("SecRule ARGS|REQUEST_HEADERS \"@rx k\" \"id:1,phase:1,pass,ctl:%s=%s\"", opt, v), false, false)
			}
		}
	}
	// every variable name as the target of the three target-removing options
	for _, opt := range []string{"ruleRemoveTargetById=91", "ruleRemoveTargetByTag=t1", "ruleRemoveTargetByMsg=m1"} {
		for _, vn := range append(append([]string{}, vars...), "FOO") {
			for _, sel := range []string{"", ":k", ":/k/"} {
				e.holeAt("ctl-target:"+opt[:strings.IndexByte(opt, '=')], fmt.Sprintf("SecAction \"id:1,phase:1,pass,ctl:%s;%s%s\"\nSecRule %s \"@unconditionalMatch\" \"id:2,phase:2,pass,tag:t1,msg:'m1'\"", opt, vn, sel, vn), false, false)
			}
		}
	}
	// several ctl in one rule
	e.hole("ctl:combo", "SecAction \"id:1,phase:1,pass,ctl:requestBodyLimit=100,ctl:requestBodyAccess=Off,ctl:requestBodyAccess=On,ctl:requestBodyLimit=13\"")
	e.hole("ctl:combo", "SecAction \"id:1,phase:3,pass,ctl:responseBodyLimit=100,ctl:responseBodyAccess=Off,ctl:responseBodyAccess=On,ctl:responseBodyLimit=13\"")
	e.hole("ctl:combo", "SecAction \"id:1,phase:1,pass,ctl:ruleEngine=DetectionOnly,ctl:requestBodyLimit=13\"\nSecAction \"id:2,phase:2,deny\"")
	e.hole("ctl:combo", "SecAction \"id:1,phase:1,pass,ctl:forceRequestBodyVariable=On,ctl:requestBodyProcessor=FOO\"")
}

// ---- operators x argument shapes -------------------------------------------

var operatorArgs = []string{
	"", " ", " x", " k", " %{tx.b}", " %{JSON.x}", " %{tx.", " %{}", " (", " [a", " a{1001}", " a{2,1}", " \\", " 1", " -1", " 0",
	" 99999999999999999999", " 1-255", " 255-1", " 1,2,300", " 255", " 256", " 0-256", " 0-255", " -1-5", " a,b", " -", " ,", " 1-", " 32-126,", " 10.0.0.1", " 10.0.0.0/8",
	" 10.0.0.0/99", " ::1", " 10.0.0.1,::1, 10.0.0.0/8", " 10.0.0.1,x", " x|y", " a b c", " |", " @@FX@@/pm.txt", " @@FX@@/ip.txt",
	" @@FX@@/schema.json", " @@FX@@/bad.json", " @@FX@@/missing", " @@FX@@", " pm.txt", " d1", " dip", " nodataset", " /p/{id}", " /{",
	" {}", " /{id}/{id}", " /{(}", " cl .*", " us \\d", " zz x", " cl (", " cl", " cl  ", " \\xff", " (?i)K", " (?P<n>k)(?P<n2>.)",
	" ^$", " .", " \\", " " + big, " \x00", " \xff",
}

func genOperators(e *emitter) {
	for _, op := range operatorNames {
		target := "ARGS|ARGS_NAMES|REQUEST_HEADERS|REQUEST_URI|REQUEST_BODY|FILES|REMOTE_ADDR|RESPONSE_BODY|RESPONSE_STATUS|XML:/*"
		if noEvalOperators[op] {
			target = "TX:c07_never"
		}
		for _, arg := range operatorArgs {
			for _, neg := range []string{"@", "!@"} {
				hole := fmt.Sprintf("SecRule %s \"%s%s%s\" \"id:1,phase:2,pass,capture,setvar:tx.r=%%{tx.0}%%{tx.1}\"\n"+
					"SecRule %s \"%s%s%s\" \"id:2,phase:4,pass,capture,multiMatch,t:none,t:urlDecodeUni,t:lowercase\"",
					target, neg, op, arg, target, neg, op, arg)
				e.holeAt("operator:"+op, hole, false, neg == "@" && !noEvalOperators[op] && !strings.Contains(arg, big))
			}
		}
	}
	// implicit @rx and negation spellings
	for _, o := range []string{"k", "!k", "!", "", "@", "!@", "! @rx k", "!!k", "@rx", "!@rx", "\\@rx k", "@rx  k", "@rx\tk"} {
		e.hole("operator:implicit", "SecRule ARGS|REQUEST_HEADERS \""+o+"\" \"id:1,phase:2,pass,capture\"")
	}
	// the prefilter build of every @rx argument
	for _, arg := range operatorArgs {
		if strings.Contains(arg, big) {
			continue
		}
		e.holeAt("operator:rx-prefilter", "SecRxPreFilter On\nSecRule ARGS|REQUEST_HEADERS|REQUEST_BODY|RESPONSE_BODY \"@rx"+arg+"\" \"id:1,phase:4,pass,capture\"", false, false)
	}
	for _, re := range []string{"^k$", "^(k)$", "(?i)^k$", "^k", "k$", "\\Ak", "k\\z", "^(?:k|zzz)$", "k|", "|", "()", "(?i)(?:k)(z)*", "^$", "\\x00", "(?s).", "[^k]", "k{0,1000}", "(((((((((((k)))))))))))", "^k|z$", "\\bk\\b", "(?m)^k$", "(?-s).", "(?U)k+"} {
		e.holeAt("operator:rx-prefilter", "SecRxPreFilter On\nSecRule ARGS|REQUEST_HEADERS|REQUEST_BODY|RESPONSE_BODY \"@rx "+re+"\" \"id:1,phase:4,pass,capture\"", false, false)
	}
}

// ---- variables x selector forms ---------------------------------------------

func selectorForms(v string) []string {
	return []string{
		v, v + ":k", v + ":/k/", v + ":/(/", "&" + v, "&" + v + ":k", "&" + v + ":/k/", "!" + v, "!" + v + ":k", v + "|!" + v + ":k", v + "|!" + v + ":/k/",
		v + "|!" + v, v + ":'k'", v + ":'/k/'", v + ":", v + ":/k", v + ":k|", "|" + v, v + "||" + v, v + ":k:j", v + ":/a\\/b/", v + ":/a|b/",
		"!" + v + ":", "&!" + v, "!&" + v, v + ":'k", v + ":k'", v + ":'", v + ":/", v + "://", v + ":K", v + ":/K/", v + ":/k/|" + v + ":k", v + "|" + v,
		v + ":" + "/k/x", v + ":'k'x", v + ": k", v + " ", "&&" + v, "!!" + v, v + ":k|!" + v + ":k", v + ":%{tx.b}", v + ".k", v + ":*", v + ":/*", v + "://k",
		v + ":\x00", v + ":\xff",
	}
}

func genVariables(e *emitter, vars []string) {
	for _, v := range append(append([]string{}, vars...), "FOO", "args", "Args_Get", "") {
		for _, sel := range selectorForms(v) {
			var sb strings.Builder
			for p := 1; p <= 5; p++ {
				fmt.Fprintf(&sb, "SecRule %s \"@unconditionalMatch\" \"id:%d,phase:%d,pass,msg:'%%{MATCHED_VAR_NAME}',logdata:'%%{MATCHED_VAR}',setvar:tx.%%{matched_var_name}=+1\"\n", sel, p, p)
			}
			fmt.Fprintf(&sb, "SecRule %s \"@rx (.)\" \"id:6,phase:5,pass,capture,multiMatch,t:none,t:length,setvar:tx.c=%%{tx.1}\"", sel)
			e.holeAt("variable:"+v, sb.String(), false, false)
			if !e.thorough {
				continue
			}
			// edits on the single-rule form
			e.holeAt("variable1:"+v, fmt.Sprintf("SecRule %s \"@unconditionalMatch\" \"id:1,phase:5,pass,msg:'%%{MATCHED_VAR_NAME}'\"", sel), false, true)
			// as the target added or excluded afterwards
			e.holeAt("variable-update:"+v, fmt.Sprintf("SecRule ARGS \"@unconditionalMatch\" \"id:1,phase:5,pass,tag:t2\"\nSecRuleUpdateTargetById 1 %s\nSecRuleUpdateTargetByTag t2 %s", sel, sel), false, false)
		}
	}
}

// ---- transformations --------------------------------------------------------

func genTransformations(e *emitter) {
	tgt := "ARGS|ARGS_NAMES|REQUEST_HEADERS|REQUEST_URI|REQUEST_BODY|REQUEST_COOKIES|RESPONSE_BODY|FILES_TMP_CONTENT"
	rule := func(ts string) string {
		return fmt.Sprintf("SecRule %s \"@rx .\" \"id:1,phase:4,pass,t:none,%s\"\nSecRule %s \"@rx .\" \"id:2,phase:5,pass,t:none,%s,multiMatch\"", tgt, ts, tgt, ts)
	}
	for _, t := range transformationNames {
		e.hole("transformation:"+t, rule("t:"+t))
		e.holeAt("transformation:"+t, rule("t:"+t+",t:"+t), false, false)
		e.holeAt("transformation:"+t, rule("t:'"+t+"'"), false, false)
	}
	if e.thorough {
		for _, a := range transformationNames {
			for _, b := range transformationNames {
				if a != b {
					e.holeAt("transformation-pair", rule("t:"+a+",t:"+b), false, false)
				}
			}
		}
	}
}

// ---- two roles for one string, in one WAF and in two WAFs of one process ------

type role struct {
	name string
	conf func(s string) string
}

var roles = []role{
	{"rx", func(s string) string { return "SecRule ARGS \"@rx " + s + "\" \"id:1,phase:2,pass\"" }},
	{"pm", func(s string) string { return "SecRule ARGS \"@pm " + s + "\" \"id:2,phase:2,pass\"" }},
	{"keyrx", func(s string) string { return "SecRule ARGS:/" + s + "/ \"@rx k\" \"id:3,phase:2,pass\"" }},
	{"negkeyrx", func(s string) string { return "SecRule ARGS|!ARGS:/" + s + "/ \"@rx k\" \"id:4,phase:2,pass\"" }},
	{"ctlrx", func(s string) string {
		return "SecAction \"id:5,phase:1,pass,ctl:ruleRemoveTargetById=91;ARGS:/" + s + "/\""
	}},
	{"restpath", func(s string) string { return "SecRule REQUEST_URI \"@restpath " + s + "\" \"id:6,phase:2,pass\"" }},
	{"validateNid", func(s string) string { return "SecRule ARGS \"@validateNid cl " + s + "\" \"id:7,phase:2,pass\"" }},
	{"relevantstatus", func(s string) string { return "SecAuditLogRelevantStatus " + s }},
	{"pmFromDataset", func(s string) string {
		return "SecDataset " + s + " " + bt + "\nzzz\n" + bt + "\nSecRule ARGS \"@pmFromDataset " + s + "\" \"id:8,phase:2,pass\""
	}},
	{"pmFromFile", func(s string) string { return "SecRule ARGS \"@pmFromFile @@FX@@/" + s + "\" \"id:9,phase:2,pass\"" }},
	{"updatetarget", func(s string) string { return "SecRuleUpdateTargetById 90 ARGS:/" + s + "/" }},
	{"within", func(s string) string { return "SecRule ARGS \"@within " + s + "\" \"id:10,phase:2,pass\"" }},
	{"ipMatchFromDataset", func(s string) string {
		return "SecDataset " + s + " " + bt + "\n10.0.0.1\n" + bt + "\nSecRule REMOTE_ADDR \"@ipMatchFromDataset " + s + "\" \"id:11,phase:2,pass\""
	}},
}

// strings that are valid in every role (regex, phrase, data set name, file name in the fixture dir)
var roleStrings = []string{"k", "zzz", "role1"}

func genRoles(e *emitter) {
	for _, s := range roleStrings {
		for _, a := range roles {
			for _, b := range roles {
				ca, cb := a.conf(s), b.conf(s)
				// one WAF, both roles
				e.raw("roles:one-waf:"+a.name+"+"+b.name, prelude+ca+"\n"+strings.ReplaceAll(cb, "id:", "id:10")+"\n"+companions, "")
				// two WAFs alive at the same time
				e.raw("roles:two-wafs:"+a.name+"+"+b.name, prelude+ca+"\n"+companions, prelude+cb+"\n"+companions)
			}
		}
	}
}

// ---- other engine contexts: a sample of the action and ctl classes -------------------

var engineContexts = []string{
	"SecRuleEngine DetectionOnly\n",
	"SecRequestBodyLimitAction Reject\nSecResponseBodyLimitAction Reject\n",
	"SecRequestBodyAccess Off\nSecResponseBodyAccess Off\n",
	"SecRequestBodyInMemoryLimit 16\nSecUploadDir @@S@@\nSecUploadKeepFiles On\nSecUploadFileLimit 1\n",
	"SecRuleEngine Off\n",
	"SecArgumentsLimit 2\nSecRequestBodyJsonDepthLimit 1\nSecResponseBodyMimeTypesClear\n",
}

func genContexts(e *emitter) {
	for ci, ctx := range engineContexts {
		class := fmt.Sprintf("context:%d", ci)
		for _, name := range actionNames {
			vals := append([]string{"", ":1"}, specificValues[name]...)
			for _, v := range vals {
				if name == "chain" && v != "" && v[0] != ':' {
					continue
				}
				var sb strings.Builder
				for p := 1; p <= 4; p++ {
					fmt.Fprintf(&sb, "SecRule ARGS|REQUEST_HEADERS|RESPONSE_HEADERS \"@rx k\" \"id:%d,phase:%d,deny,status:403,%s%s\"\n", p, p, name, v)
				}
				e.raw(class+":action", prelude+ctx+sb.String()+companions, "")
			}
		}
		for _, opt := range ctlOptions {
			for _, v := range append([]string{"", "-1", "0", "1", "On", "Off"}, ctlSpecific[opt]...) {
				e.raw(class+":ctl", prelude+ctx+fmt.Sprintf("SecAction \"id:1,phase:1,pass,ctl:%s=%s\"\nSecAction \"id:2,phase:3,pass,ctl:%s=%s\"\n", opt, v, opt, v)+companions, "")
			}
		}
	}
}

// ---- context B: a sample of every class with all logging switched on -----------

func genLoud(e *emitter, vars []string) {
	wrap := func(class, hole string) {
		e.raw("loud:"+class, prelude+loud+hole+"\n"+companions, "")
	}
	for _, v := range vars {
		wrap("variable", fmt.Sprintf("SecRule %s \"@unconditionalMatch\" \"id:1,phase:5,log,auditlog,pass,msg:'%%{MATCHED_VAR_NAME}',logdata:'%%{MATCHED_VAR}',tag:'t/%%{%s}',severity:2\"\nSecRule &%s \"@ge 0\" \"id:2,phase:2,log,deny,status:403,msg:'%%{%s.k}'\"", v, v, v, v))
	}
	for _, f := range []string{"JSON", "JsonLegacy", "Native", "OCSF"} {
		for _, ty := range []string{"Serial", "Concurrent"} {
			// ABCFHZ is the documented default (trailer H without the matched-rules part K), ABKZ has K without H
			for _, parts := range []string{"ABCDEFGHIJKZ", "AZ", "ABIJFHKZ", "ABCFHZ", "ABKZ", "ABKHZ"} { // ... ABKHZ lists K before H
				for _, act := range []string{"pass", "deny,status:403", "drop", "redirect:http://x/", "allow"} {
					for _, ph := range []int{1, 2, 3, 4, 5} {
						hole := fmt.Sprintf("SecAuditLogFormat %s\nSecAuditLogType %s\nSecAuditLogStorageDir @@S@@\nSecAuditLogParts %s\nSecUploadDir @@S@@\nSecUploadKeepFiles On\n"+
							"SecRule ARGS|REQUEST_HEADERS|FILES|REQUEST_BODY|RESPONSE_BODY|RESPONSE_HEADERS \"@rx .\" \"id:1,phase:%d,log,auditlog,%s,msg:'m %%{MATCHED_VAR}',logdata:'%%{MATCHED_VAR_NAME}',tag:'a',tag:'b',severity:CRITICAL,rev:'1',ver:'v',maturity:1\"", f, ty, parts, ph, act)
						wrap("audit", hole)
					}
				}
			}
		}
	}
	for _, op := range operatorNames {
		if noEvalOperators[op] {
			continue
		}
		for _, arg := range []string{"", " k", " 1", " 10.0.0.0/8", " 1-255", " @@FX@@/pm.txt", " @@FX@@/ip.txt", " d1", " dip", " cl .*", " /p/{id}", " @@FX@@/schema.json"} {
			wrap("operator", fmt.Sprintf("SecRule ARGS|REQUEST_HEADERS|REMOTE_ADDR|REQUEST_URI|XML:/* \"@%s%s\" \"id:1,phase:2,log,pass,capture,msg:'%%{tx.0}'\"", op, arg))
		}
	}
	for _, t := range transformationNames {
		wrap("transformation", fmt.Sprintf("SecRule ARGS|REQUEST_HEADERS|REQUEST_BODY \"@rx .\" \"id:1,phase:2,log,pass,t:none,t:%s,multiMatch\"", t))
	}
	for _, opt := range ctlOptions {
		vals := append([]string{"", "-1", "0", "1", "abc", "On", "91", "91;ARGS:k", "91;ARGS:/k/"}, ctlSpecific[opt]...)
		for _, v := range vals {
			wrap("ctl", fmt.Sprintf("SecAction \"id:1,phase:1,log,pass,ctl:%s=%s\"\nSecAction \"id:2,phase:3,log,pass,ctl:%s=%s\"", opt, v, opt, v))
		}
	}
	for _, name := range actionNames {
		for _, v := range append([]string{"", ":x", ":1", ":tx.a=1", ":%{tx.b}"}, specificValues[name]...) {
			if name == "chain" && v != "" && v[0] != ':' {
				continue
			}
			wrap("action", "SecRule ARGS|REQUEST_HEADERS \"@rx (k)\" \"id:1,phase:2,log,pass,capture,"+name+v+"\"")
		}
	}
}
