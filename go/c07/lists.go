package c07

import (
	"os"
	"regexp"
	"sort"
	"strings"

	"github.com/corazawaf/coraza/v3/types/variables"
)

// The alphabets of the grammar closure. Directive, action, operator,
// transformation and ctl-option names are the ones registered in the pinned
// tree (seclang/directivesmap.gen.go, actions/actions.go, operators/*.go,
// transformations/transformations.go, actions/ctl.go parseCtl); the directive
// list is completed at run time from the tree that is being checked, so a
// directive added by a later change is enumerated too. Variable names are taken
// from the generated variables package itself (every RuleVariable whose Name()
// is valid), never from a copy.

var directiveNames = []string{
	"SecComponentSignature", "SecMarker", "SecAction", "SecRule", "SecResponseBodyAccess", "SecRequestBodyLimit",
	"SecRequestBodyAccess", "SecRequestBodyJsonDepthLimit", "SecRuleEngine", "SecWebAppID", "SecServerSignature",
	"SecRuleRemoveByTag", "SecRuleRemoveByMsg", "SecRuleRemoveByID", "SecResponseBodyMimeTypesClear",
	"SecResponseBodyMimeType", "SecResponseBodyLimitAction", "SecResponseBodyLimit", "SecRequestBodyLimitAction",
	"SecRequestBodyInMemoryLimit", "SecRemoteRulesFailAction", "SecRemoteRules", "SecConnWriteStateLimit", "SecSensorID",
	"SecConnReadStateLimit", "SecPcreMatchLimitRecursion", "SecPcreMatchLimit", "SecHTTPBlKey", "SecGsbLookupDb",
	"SecHashMethodPm", "SecHashMethodRx", "SecHashParam", "SecHashKey", "SecHashEngine", "SecDefaultAction",
	"SecConnEngine", "SecCollectionTimeout", "SecAuditLog", "SecAuditLogType", "SecAuditLogFormat",
	"SecAuditLogStorageDir", "SecAuditLogDirMode", "SecAuditLogFileMode", "SecAuditLogRelevantStatus",
	"SecAuditLogParts", "SecAuditEngine", "SecDataDir", "SecUploadKeepFiles", "SecUploadFileMode",
	"SecUploadFileLimit", "SecUploadDir", "SecRequestBodyNoFilesLimit", "SecDebugLog", "SecDebugLogLevel",
	"SecRuleUpdateTargetByID", "SecRuleUpdateActionByID", "SecRuleUpdateTargetByTag",
	"SecIgnoreRuleCompilationErrors", "SecDataset", "SecArgumentsLimit", "SecRxPreFilter",
	// registered as unsupported (accepted, no effect)
	"SecArgumentSeparator", "SecCookieFormat", "SecRuleUpdateTargetByMsg", "SecRuleScript", "SecRulePerfTime",
	"SecUnicodeMap", "SecTmpDir",
	// the hard-coded one and two that are not registered
	"Include", "SecFooBar", "#SecRuleEngine",
}

var actionNames = []string{
	"allow", "auditlog", "block", "capture", "chain", "ctl", "deny", "drop", "exec", "expirevar", "id", "initcol",
	"log", "logdata", "maturity", "msg", "multiMatch", "noauditlog", "nolog", "pass", "phase", "redirect", "rev",
	"setenv", "setvar", "severity", "skip", "skipAfter", "status", "t", "tag", "ver",
	// not registered / other spelling
	"proxy", "SETVAR",
}

var operatorNames = []string{
	"beginsWith", "contains", "detectSQLi", "detectXSS", "endsWith", "eq", "ge", "geoLookup", "gt", "inspectFile",
	"ipMatch", "ipMatchFromDataset", "ipMatchFromFile", "ipMatchF", "le", "lt", "noMatch", "pm", "pmFromDataset",
	"pmFromFile", "pmf", "rbl", "restpath", "rx", "streq", "strmatch", "unconditionalMatch", "validateByteRange",
	"validateNid", "validateSchema", "validateUrlEncoding", "validateUtf8Encoding", "within",
	// not registered / other spelling
	"fooBar", "RX",
}

// operators whose evaluation would leave the process (DNS, exec): they are
// constructed on every argument shape but only ever attached to a target that
// has no value, so Evaluate is never called.
var noEvalOperators = map[string]bool{"rbl": true, "inspectFile": true}

var transformationNames = []string{
	"base64Decode", "base64DecodeExt", "base64Encode", "cmdLine", "compressWhitespace", "cssDecode",
	"escapeSeqDecode", "hexDecode", "hexEncode", "htmlEntityDecode", "jsDecode", "length", "lowercase", "md5",
	"none", "normalisePath", "normalisePathWin", "normalizePath", "normalizePathWin", "removeComments",
	"removeCommentsChar", "removeNulls", "removeWhitespace", "replaceComments", "replaceNulls", "sha1", "uppercase",
	"urlDecode", "urlDecodeUni", "urlEncode", "utf8toUnicode", "trim", "trimLeft", "trimRight",
	// not registered / other spelling / empty
	"fooBar", "LOWERCASE", "",
}

var ctlOptions = []string{
	"auditEngine", "auditLogParts", "requestBodyAccess", "requestBodyLimit", "requestBodyProcessor",
	"forceRequestBodyVariable", "responseBodyProcessor", "responseBodyAccess", "responseBodyLimit",
	"forceResponseBodyVariable", "ruleEngine", "ruleRemoveById", "ruleRemoveByMsg", "ruleRemoveByTag",
	"ruleRemoveTargetById", "ruleRemoveTargetByMsg", "ruleRemoveTargetByTag", "hashEngine", "hashEnforcement",
	"debugLogLevel",
	// not registered / other spelling
	"fooBar", "RULEENGINE",
}

// variableNames returns every variable name the generated package knows.
func variableNames() []string {
	var out []string
	seen := map[string]bool{}
	for i := 0; i < 256; i++ {
		n := variables.RuleVariable(i).Name()
		if n == "INVALID_VARIABLE" || seen[n] {
			continue
		}
		seen[n] = true
		out = append(out, n)
	}
	return out
}

var dirKeyRe = regexp.MustCompile(`(?m)^\s*"([a-z0-9]+)":\s+directive`)

// completeDirectives adds the directives of the checked tree that the list
// above does not have (best effort: the generated map is read from the
// repository the harness was built from).
func completeDirectives() (added []string) {
	repo := os.Getenv("VERIF_REPO")
	if repo == "" {
		repo = "/repo"
	}
	b, err := os.ReadFile(repo + "/internal/seclang/directivesmap.gen.go")
	if err != nil {
		return nil
	}
	have := map[string]bool{}
	for _, d := range directiveNames {
		have[strings.ToLower(d)] = true
	}
	for _, m := range dirKeyRe.FindAllStringSubmatch(string(b), -1) {
		if !have[m[1]] {
			have[m[1]] = true
			added = append(added, m[1])
		}
	}
	sort.Strings(added)
	directiveNames = append(directiveNames, added...)
	return added
}
