// Package mc is the stateless explorer: it enumerates, depth first, every
// sequence of answers to the choice points an execution passes through, within
// a deviation budget (DESIGN.md §2.2).
package mc

import (
	"fmt"

	"github.com/corazawaf/coraza/v3/internal/verif/vrt"
)

// Point is one choice point of an execution.
type Point struct {
	N       int
	Kind    vrt.Kind
	Label   string
	AltCost int // deviations charged for answering anything but 0
	Choice  int
}

// Nondeterminism is panicked when a replayed prefix does not meet the same
// choice points as the execution it was derived from.
type Nondeterminism struct{ Msg string }

func (n Nondeterminism) Error() string { return "HARNESS-NONDETERMINISM: " + n.Msg }

// Ctx is the chooser of one execution.
type Ctx struct {
	lenient bool
	prefix []int
	expect []Point // points of the parent execution (for divergence detection), may be shorter
	Points []Point
}

// Choose implements vrt.Chooser.
//
//go:norace
func (c *Ctx) Choose(n int, kind vrt.Kind, label string) int {
	cost := 0
	if kind != vrt.Input {
		cost = 1
	}
	return c.ChooseCost(n, kind, label, cost)
}

// ChooseCost is Choose with an explicit price for the alternatives. It is
// //go:norace because under package sched it is called from several
// goroutines whose hand-off is deliberately invisible to the race detector.
//
//go:norace
func (c *Ctx) ChooseCost(n int, kind vrt.Kind, label string, altCost int) int {
	i := len(c.Points)
	ch := 0
	if i < len(c.prefix) {
		ch = c.prefix[i]
		if ch >= n && c.lenient {
			ch = ch % n
		}
		if ch >= n {
			panic(Nondeterminism{fmt.Sprintf("choice %d out of range %d at point %d (%s)", ch, n, i, label)})
		}
	}
	if i < len(c.expect) {
		if e := c.expect[i]; e.N != n || e.Label != label {
			panic(Nondeterminism{fmt.Sprintf("point %d was (%d,%s) in the parent execution, now (%d,%s)", i, e.N, e.Label, n, label)})
		}
	}
	c.Points = append(c.Points, Point{N: n, Kind: kind, Label: label, AltCost: altCost, Choice: ch})
	return ch
}

// Choices returns the answers given in this execution.
func (c *Ctx) Choices() []int {
	out := make([]int, len(c.Points))
	for i, p := range c.Points {
		out[i] = p.Choice
	}
	return out
}

// Deviations returns the deviation cost of this execution.
func (c *Ctx) Deviations() int {
	d := 0
	for _, p := range c.Points {
		if p.Choice != 0 {
			d += p.AltCost
		}
	}
	return d
}

// Stats of one exploration.
type Stats struct {
	Execs    int
	Points   int
	MaxDepth int
	Bound    int  // completed deviation bound (-1 = unbounded)
	Capped   bool // MaxExecs hit: exploration incomplete
}

// Options of an exploration.
type Options struct {
	Bound    int // maximum deviations; <0 = unbounded
	MaxExecs int // 0 = no cap
	// Stop, when non-nil, is asked before every execution; true ends the
	// exploration (Stats.Capped is set).
	Stop func() bool
	// Workers > 1 shards the exploration: the root execution is run by every
	// worker, the subtrees below the root's alternatives are dealt round-robin
	// and this process explores those with index % Workers == Worker.
	Worker, Workers int
}

// Explore runs body once per execution. body must be deterministic given the
// answers of c. vrt.Active is set for the duration of each execution.
func Explore(opt Options, body func(c *Ctx)) Stats {
	e := &explorer{opt: opt, body: body}
	e.st.Bound = opt.Bound
	e.explore(nil, nil, 0)
	return e.st
}

// Replay runs body once with the given answers (then zeros).
func Replay(choices []int, body func(c *Ctx)) *Ctx {
	c := &Ctx{prefix: choices}
	prev := vrt.Active
	vrt.Active = c
	defer func() { vrt.Active = prev }()
	body(c)
	return c
}

// ReplayLenient is Replay for a body that may meet different choice points
// than the execution the answers come from (a differential partner): answers
// are reduced modulo the number of alternatives instead of failing.
func ReplayLenient(choices []int, body func(c *Ctx)) *Ctx {
	c := &Ctx{prefix: choices, lenient: true}
	prev := vrt.Active
	vrt.Active = c
	defer func() { vrt.Active = prev }()
	body(c)
	return c
}

type explorer struct {
	child int
	opt  Options
	body func(c *Ctx)
	st   Stats
}

func (e *explorer) explore(prefix []int, expect []Point, used int) {
	if e.opt.MaxExecs > 0 && e.st.Execs >= e.opt.MaxExecs {
		e.st.Capped = true
		return
	}
	if e.opt.Stop != nil && e.opt.Stop() {
		e.st.Capped = true
		return
	}
	c := &Ctx{prefix: prefix, expect: expect}
	prev := vrt.Active
	vrt.Active = c
	func() {
		defer func() { vrt.Active = prev }()
		e.body(c)
	}()
	if len(c.Points) < len(prefix) {
		panic(Nondeterminism{fmt.Sprintf("execution ended after %d points, prefix has %d", len(c.Points), len(prefix))})
	}
	e.st.Execs++
	e.st.Points += len(c.Points)
	if len(c.Points) > e.st.MaxDepth {
		e.st.MaxDepth = len(c.Points)
	}
	pts := c.Points
	for i := len(prefix); i < len(pts); i++ {
		p := pts[i]
		if p.N <= 1 {
			continue
		}
		if e.opt.Bound >= 0 && used+p.AltCost > e.opt.Bound {
			continue
		}
		for alt := 1; alt < p.N; alt++ {
			if len(prefix) == 0 && e.opt.Workers > 1 {
				e.child++
				if e.child%e.opt.Workers != e.opt.Worker {
					continue
				}
			}
			np := make([]int, i+1)
			for j := 0; j < i; j++ {
				np[j] = pts[j].Choice
			}
			np[i] = alt
			e.explore(np, pts[:i+1], used+p.AltCost)
		}
	}
}
