// Package vlog shadows log.Logger for the audit writers: a scheduling point
// before each record emission.
package vlog

import (
	"io"
	"log"

	"github.com/corazawaf/coraza/v3/internal/verif/vrt"
)

// Logger shadows log.Logger.
type Logger struct{ log.Logger }

func y(l string) {
	if s := vrt.Scheduler; s != nil {
		s.Yield(l)
	}
}

// New shadows log.New.
func New(out io.Writer, prefix string, flag int) *Logger {
	l := &Logger{}
	l.Logger.SetOutput(out)
	l.Logger.SetPrefix(prefix)
	l.Logger.SetFlags(flag)
	return l
}

func (l *Logger) Println(v ...any)               { y("log.Println"); l.Logger.Println(v...) }
func (l *Logger) Printf(format string, v ...any) { y("log.Printf"); l.Logger.Printf(format, v...) }
func (l *Logger) Print(v ...any)                 { y("log.Print"); l.Logger.Print(v...) }

// Output shadows (*log.Logger).Output: the audit writers call it directly.
func (l *Logger) Output(calldepth int, s string) error {
	y("log.Output")
	return l.Logger.Output(calldepth+1, s)
}
