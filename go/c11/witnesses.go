package c11

// Minimal reproducers of the defects this check found on the pinned tree, kept
// as a fixed part of both tiers (operator and WAF level) so that the shapes
// first met in the deeper thorough levels are also exercised by the quick tier.
// Each entry was reproduced through coraza.NewWAF with `SecRxPreFilter On|Off`.
//
//	SecRuleEngine On
//	SecRxPreFilter On
//	SecRule ARGS_GET:v "@rx \A[xy]cd" "id:1,phase:1,deny,status:403"
//	GET /?v=xcd                       -> passes; 403 with SecRxPreFilter Off
//
//	SecRule ARGS_GET:v "@rx ^abc$" "id:1,phase:1,capture,pass,setvar:tx.copy=%{TX.0}"
//	SecRule TX:copy "@streq abc" "id:2,phase:1,deny,status:403"
//	GET /?v=abc                       -> passes; 403 with SecRxPreFilter Off
type witness struct {
	pattern string
	inputs  []string
	defect  string // signature on the pinned tree
	why     string
}

var witnesses = []witness{
	// prefilterFunc / buildCombinedPF: usePrefix := hasBeginAnchor(re) && len(origFirst) >= 2 —
	// origFirst is the first *extracted* literal, not the element next to the anchor.
	{`\A[xy]cd`, []string{"xcd", "ycd", "cd", "xcdx"}, "prefilter:literal-assumed-adjacent-to-text-anchor",
		`HasPrefix("cd") rejects "xcd"`},
	{`\A.ab`, []string{"aab", "xab"}, "prefilter:literal-assumed-adjacent-to-text-anchor", `HasPrefix("ab")`},
	{`cd[xy]\z`, []string{"cdx", "cdy", "xcdx"}, "prefilter:literal-assumed-adjacent-to-text-anchor",
		`HasSuffix("cd") rejects "cdx"`},
	{`(\Aaba{2})bc`, []string{"abaabc"}, "prefilter:literal-assumed-adjacent-to-text-anchor",
		`the group's result is dropped on the way up, "bc" becomes the first literal`},
	// the same through ^ and $ (text anchors only under coraza.rule.no_regex_multiline)
	{`^[xy]cd`, []string{"xcd"}, "prefilter:literal-assumed-adjacent-to-text-anchor", `nomultiline build only`},
	{`ab(a{2}bc)$`, []string{"abaabc"}, "prefilter:literal-assumed-adjacent-to-text-anchor", `nomultiline build only`},
	{`bc(?:a{2}ab)+$`, []string{"bcaaab"}, "prefilter:literal-assumed-adjacent-to-text-anchor", `nomultiline build only`},

	// trieReconstruct: prefix glued to a literal that is not at the start of its branch
	{`a(?:.bc|b)`, []string{"axbc", "abc", "ab"}, "prefilter:trie-prefix-joined-to-non-adjacent-literal",
		`needles "abc","ab"; "axbc" contains neither`},
	{`ab|a.bc`, []string{"axbc"}, "prefilter:trie-prefix-joined-to-non-adjacent-literal", `factored by the parser into a(?:b|.bc)`},
	{`a(.a{2})`, []string{"axaa"}, "prefilter:trie-prefix-joined-to-non-adjacent-literal", `needle "aaa"`},
	{`a(?:b.bc|ab)`, []string{"abxbc"}, "prefilter:trie-prefix-joined-to-non-adjacent-literal",
		`the leading one-byte literal "b" of the branch is dropped, "bc" is glued to "a"`},
	// CRS 951240 (RESPONSE-951-DATA-LEAKAGES-SQL): needle "perror" instead of "pg::"
	{`(?i)P(?:ostgreSQL(?: query failed:|.{1,20}ERROR)|G::[a-z]*Error)|pg_(?:query|exec)\(\) \[:|Warning.{1,20}\bpg_.*|valid PostgreSQL result|Npgsql\.|Supplied argument is not a valid PostgreSQL .*? resource|(?:Unable to connect to PostgreSQL serv|invalid input syntax for integ)er`,
		[]string{"PG::Error: ERROR", "PG::Error", "pg::error"}, "prefilter:trie-prefix-joined-to-non-adjacent-literal",
		`Ruby PG::Error text no longer detected with SecRxPreFilter On`},

	// exact-match fast path returns before CaptureField
	{`^abc$`, []string{"abc", "abc\n", "ABC"}, "exact-match-fast-path:captures-not-set", `TX.0 stays empty`},
	{`(^abc$)`, []string{"abc"}, "exact-match-fast-path:captures-not-set", `TX.0 and TX.1 stay empty`},
	{`(?i)^abc$`, []string{"ABC", "abc"}, "exact-match-fast-path:captures-not-set", `case-insensitive variant`},
	{`\Aabc\z`, []string{"abc"}, "exact-match-fast-path:captures-not-set", `\A…\z spelling`},

	// shapes that are handled correctly and must stay so (Unicode fold partners, (?m) anchors)
	{`(?i)^ſ$`, []string{"ſ", "s", "S"}, "", `exact match must fold like the regex (ſ ~ s)`},
	{`(?i)^k$`, []string{kelvin, "k", "K"}, "", `K ~ k`},
	{`(?i)ks`, []string{kelvin + longS, "KS", "ks"}, "", `non-ASCII input must bypass the ASCII-only matchers`},
	{`bc$`, []string{"bc\nx", "abc\n"}, "", `(?m)$ is not a text anchor in the default build`},
	// classes without an ASCII member: an invalid UTF-8 byte decodes as U+FFFD of width 1, so the minimum match
	// length of such a class is 1 byte, whatever the encoded length of its smallest rune
	{`[^\x00-\x7f]`, []string{"\xff", "\xc3", "é", "a\xff", "x"}, "", `min length of a non-ASCII class is one byte`},
	{`(caf)([^[:ascii:]])`, []string{"caf\xc3", "café", "cafe", "caf\xff"}, "", `captures behind a non-ASCII class`},
	{`a[é-ü]`, []string{"aé", "a\xc3", "a\xff", "aü"}, "", `range class of two-byte runes`},
	{`[^\x00-\x7f]{2}`, []string{"\xff\xff", "é", "\xc3\xa9", "\xff"}, "", `repeated non-ASCII class`},
	{`(?i)^café$`, []string{"CAFÉ", "café", "Café", "cafe"}, "", `exact match must use Unicode simple folding like (?i)`},
	{`(?i)^привет$`, []string{"ПРИВЕТ", "привет", "Привет"}, "", `Cyrillic fold partners in the exact-match path`},
	{`(?i)^ok$`, []string{"O" + kelvin, "ok", "OK", "o" + kelvin}, "", `KELVIN SIGN folds to k in the exact-match path`},
	{`^bc`, []string{"x\nbc"}, "", `(?m)^ is not a text anchor in the default build`},
	{`(?i)ab|bc`, []string{"AB", "BC", "xBC"}, "", `shift table must know upper-case bytes`},
	{`(?i)abc.`, []string{"ABCx", "abcx"}, "", `minimum-length guard at exactly the minimum`},
}

func runWitnesses(rs *runState, idx *int) {
	c := rs.c
	for _, w := range witnesses {
		*idx++
		if !c.Mine(*idx) || c.Expired() {
			continue
		}
		c.Count("witness_patterns", 1)
		rs.checkPattern("witness", w.pattern, w.inputs, true)
		rs.checkWAF("witness", w.pattern, w.inputs, true)
		rs.checkWAF("witness", w.pattern, w.inputs, false)
	}
}
