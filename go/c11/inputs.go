package c11

import "sort"

// Input alphabet of a generated pattern: the symbols its atoms contribute
// (gen.go), one foreign byte, and — when case folding occurs anywhere in the
// pattern — the case variants and the Unicode simple-fold partners of its
// letters. A symbol is a byte string (multi-byte for K and ſ); inputs are all
// sequences of at most maxLen symbols.

const (
	kelvin = "K" // K, folds with k and K
	longS  = "ſ" // ſ, folds with s and S
)

func alphabet(syms uint16) []string {
	set := map[string]bool{"x": true}
	fold := syms&symFold != 0
	add := func(lo, up string) {
		set[lo] = true
		if fold {
			set[up] = true
		}
	}
	if syms&symA != 0 {
		add("a", "A")
	}
	if syms&symB != 0 {
		add("b", "B")
	}
	if syms&symC != 0 {
		add("c", "C")
	}
	if syms&symUpB != 0 {
		set["B"] = true
	}
	if syms&symNL != 0 {
		set["\n"] = true
	}
	if syms&symFF != 0 {
		set["\xff"] = true
	}
	if syms&symDig != 0 {
		set["1"] = true
	}
	if syms&symKel != 0 {
		set[kelvin] = true
		if fold {
			set["k"] = true
			set["K"] = true
		}
	}
	if syms&symLngS != 0 {
		set[longS] = true
		if fold {
			set["s"] = true
			set["S"] = true
		}
	}
	out := make([]string, 0, len(set))
	for s := range set {
		out = append(out, s)
	}
	sort.Strings(out)
	return out
}

type inputCache struct {
	m map[uint32][]string
}

// strings returns all sequences of at most maxLen symbols of the alphabet of
// syms (shortest first, deterministic order).
func (ic *inputCache) get(syms uint16, maxLen int) []string {
	key := uint32(syms)<<4 | uint32(maxLen)
	if v, ok := ic.m[key]; ok {
		return v
	}
	al := alphabet(syms)
	out := []string{""}
	prev := []string{""}
	for l := 1; l <= maxLen; l++ {
		var cur []string
		for _, p := range prev {
			for _, s := range al {
				cur = append(cur, p+s)
			}
		}
		out = append(out, cur...)
		prev = cur
	}
	if ic.m == nil {
		ic.m = map[uint32][]string{}
	}
	ic.m[key] = out
	return out
}
