// Package c11 decides C11: SecRxPreFilter never changes what @rx matches or
// captures (DESIGN.md §3 C11).
//
// Oracle (purely differential): the real operator factory is asked for the
// same pattern twice, once with RxPreFilterEnabled and once without; both
// operators are evaluated on the same input with a capturing transaction and
// must return the same verdict and the same captured groups 0-9.
package c11

import (
	"encoding/json"
	"fmt"
	"os"
	"strconv"
	"strings"

	"github.com/corazawaf/coraza/v3/collection"
	"github.com/corazawaf/coraza/v3/debuglog"
	"github.com/corazawaf/coraza/v3/experimental/plugins/plugintypes"
	"github.com/corazawaf/coraza/v3/internal/operators"
	"github.com/corazawaf/coraza/v3/internal/verif/probe"
	"github.com/corazawaf/coraza/v3/internal/verif/runner"
	"github.com/corazawaf/coraza/v3/types"
	"github.com/corazawaf/coraza/v3/types/variables"
)

func init() {
	runner.Register(&runner.Check{
		ID:    "C11",
		Level: "exploration",
		Rule: "case = (pattern, input, build variant default | coraza.rule.no_regex_multiline). Patterns: (1) every regex AST up to the tier's node bound " +
			"(quick 4, thorough 5) over the atoms {a ab abc bc Bc K ſ . [ab] \\d \\xff ^ $ \\A \\z (?i)} and constructors {concat (free), |, (…), ?, *, +, {2}, (?i:…)} " +
			"with (?:…) inserted where precedence needs it, one per printed form; (2) one more level (quick 5, thorough 6) over the reduced atoms " +
			"{a ab bc . \\A $ (?i)}; (3) every distinct @rx argument of the bundled CRS (explicit or implicit operator); (4) fixed witnesses. " +
			"Inputs: every sequence of at most L symbols over the pattern's own alphabet (its literal bytes, a foreign byte, \\n, \\xff, a digit, " +
			"case variants and Unicode fold partners where folding occurs; quick L=4 up to size 3 and L=3 at size 4; thorough L=4 up to size 4, L=2 at size 5) " +
			"and, from size 4 on and for CRS patterns, inputs derived from the pattern: a deterministic walk of the AST (each alternative once, repetitions 0/1/2), " +
			"padded, plus all one-byte deletions, case flips and newline insertions of those (thorough, CRS: also byte substitutions and two-byte deletions). " +
			"Each case is evaluated with the operator built with and without RxPreFilterEnabled (capturing; up to size 3 and for CRS also non-capturing); " +
			"all patterns up to size 3, the CRS patterns and the witnesses are repeated through two WAFs differing only in SecRxPreFilter. " +
			"distinct_nontrivial = distinct (variant, pattern) for which at least one input matched and one did not",
		Assumptions: []string{
			"the prefilter decision depends only on (pattern, input bytes, build tag); the operator keeps no state between evaluations",
			"an unset capture and an empty capture are the same observation (a transaction resets TX.0-9 to \"\" before each rule)",
			"patterns larger than the node bound and inputs longer than the symbol bound are outside the enumerated space",
		},
		Variants: []string{"", "nomultiline"},
		Run:      run,
		Replay:   replay,
	})
}

// ---------------------------------------------------------------------------
// capturing transaction stub

type capTx struct {
	capturing bool
	f         [10]string
	oob       bool
}

var _ plugintypes.TransactionState = (*capTx)(nil)

func (t *capTx) ID() string                                              { return "c11" }
func (t *capTx) Variables() plugintypes.TransactionVariables             { return nil }
func (t *capTx) Collection(variables.RuleVariable) collection.Collection { return nil }
func (t *capTx) Interrupt(*types.Interruption)                           {}
func (t *capTx) DebugLogger() debuglog.Logger                            { return debuglog.Noop() }
func (t *capTx) Capturing() bool                                         { return t.capturing }
func (t *capTx) LastPhase() types.RulePhase                              { return types.PhaseLogging }
func (t *capTx) CaptureField(idx int, value string) {
	if idx < 0 || idx > 9 {
		t.oob = true
		return
	}
	t.f[idx] = value
}

// result of one evaluation.
type result struct {
	ok   bool
	caps [10]string
	oob  bool
}

func (r result) String() string {
	if !r.ok {
		return "no-match"
	}
	n := 0
	for i, c := range r.caps {
		if c != "" {
			n = i + 1
		}
	}
	return fmt.Sprintf("match TX.0-%d=%q", max(n-1, 0), r.caps[:max(n, 1)])
}

func eval(op plugintypes.Operator, tx *capTx, in string) result {
	tx.f = [10]string{}
	tx.oob = false
	ok := op.Evaluate(tx, in)
	r := result{ok: ok, oob: tx.oob}
	if ok {
		// captures are only meaningful (copied out by setvar) when the rule matched
		r.caps = tx.f
	}
	return r
}

// pair holds the operator with and without prefilter.
type pair struct {
	on, off plugintypes.Operator
}

func build(pattern string) (p pair, errOn, errOff string) {
	if pn := probe.Safe(func() {
		var err error
		p.off, err = operators.Get("rx", plugintypes.OperatorOptions{Arguments: pattern, RxPreFilterEnabled: false})
		if err != nil {
			errOff = err.Error()
		}
	}); pn != "" {
		errOff = "PANIC " + pn
	}
	if pn := probe.Safe(func() {
		var err error
		p.on, err = operators.Get("rx", plugintypes.OperatorOptions{Arguments: pattern, RxPreFilterEnabled: true})
		if err != nil {
			errOn = err.Error()
		}
	}); pn != "" {
		errOn = "PANIC " + pn
	}
	return
}

// scenario is what a replay needs.
type scenario struct {
	Level   string `json:"level"` // "operator" | "waf"
	Variant string `json:"variant"`
	Pattern string `json:"pattern"`
	Input   []byte `json:"input"`
	InputQ  string `json:"input_quoted"`
	Capture bool   `json:"capture"`
	Source  string `json:"source,omitempty"`
}

// isMultiline reports how this binary was built (the default build prepends
// (?sm) to every @rx pattern, coraza.rule.no_regex_multiline only (?s)).
func isMultiline() bool {
	op, err := operators.Get("rx", plugintypes.OperatorOptions{Arguments: "^a"})
	if err != nil {
		panic(err)
	}
	return op.Evaluate(&capTx{}, "b\na")
}

type runState struct {
	c         *runner.Ctx
	multiline bool
	tx        *capTx
	seenOut   map[string]bool
	ic        inputCache
}

func (rs *runState) outcome(r result) {
	k := "n"
	if r.ok {
		var sb strings.Builder
		sb.WriteString("m")
		for _, c := range r.caps {
			if c != "" {
				sb.WriteByte('1')
			} else {
				sb.WriteByte('0')
			}
		}
		k = sb.String()
	}
	if !rs.seenOut[k] {
		rs.seenOut[k] = true
		rs.c.Outcome(k)
	}
}

// checkPattern evaluates one pattern over inputs; returns (#matched, #not matched).
func (rs *runState) checkPattern(source, pattern string, inputs []string, noCaptureToo bool) {
	c := rs.c
	p, eOn, eOff := build(pattern)
	if eOn != "" || eOff != "" {
		if (eOn == "") != (eOff == "") || strings.HasPrefix(eOn, "PANIC") || strings.HasPrefix(eOff, "PANIC") {
			sig := "build-differs"
			if strings.HasPrefix(eOn, "PANIC") || strings.HasPrefix(eOff, "PANIC") {
				sig = "panic-at-build:" + panicSite(eOn+eOff)
			}
			c.Violation(sig, fmt.Sprintf("pattern %q (%s build): prefilter on -> %q, off -> %q", pattern, rs.c.Variant, eOn, eOff),
				scenario{Level: "operator", Variant: c.Variant, Pattern: pattern, Source: source, Capture: true})
		}
		c.Count("patterns_rejected_by_both", 1)
		return
	}
	c.Count("patterns", 1)
	matched, unmatched, nocap := 0, 0, 0
	tx := rs.tx
	tx.capturing = true
	var cur string
	pn := probe.Safe(func() {
		for _, in := range inputs {
			cur = in
			off := eval(p.off, tx, in)
			on := eval(p.on, tx, in)
			if off.ok {
				matched++
			} else {
				unmatched++
			}
			rs.outcome(off)
			if on != off {
				sig := classify(rs.multiline, pattern, in, on, off, func(s string) (result, result) { return eval(p.on, tx, s), eval(p.off, tx, s) })
				c.Violation(sig, describe(c.Variant, pattern, in, on, off, "operator"),
					scenario{Level: "operator", Variant: c.Variant, Pattern: pattern, Input: []byte(in), InputQ: fmt.Sprintf("%q", in), Capture: true, Source: source})
			}
		}
		if noCaptureToo {
			// a rule without the capture action takes the MatchString path
			tx.capturing = false
			for _, in := range inputs {
				cur = in
				off := eval(p.off, tx, in)
				on := eval(p.on, tx, in)
				nocap++
				if on != off {
					sig := classify(rs.multiline, pattern, in, on, off, func(s string) (result, result) { return eval(p.on, tx, s), eval(p.off, tx, s) })
					c.Violation(sig, describe(c.Variant, pattern, in, on, off, "operator (no capture)"),
						scenario{Level: "operator", Variant: c.Variant, Pattern: pattern, Input: []byte(in), InputQ: fmt.Sprintf("%q", in), Capture: false, Source: source})
				}
			}
		}
	})
	c.Count("evaluations", int64(matched+unmatched+nocap))
	c.Count("evaluations_without_capture", int64(nocap))
	if pn != "" {
		c.Violation("panic:"+panicSite(pn), fmt.Sprintf("pattern %q input %q (%s build): %s", pattern, cur, c.Variant, pn),
			scenario{Level: "operator", Variant: c.Variant, Pattern: pattern, Input: []byte(cur), InputQ: fmt.Sprintf("%q", cur), Capture: true, Source: source})
		return
	}
	if matched > 0 && unmatched > 0 {
		c.Distinct(c.Variant + "|" + pattern)
		if c.WantSample() && (c.Get("patterns")%977 == 3) {
			c.Sample(map[string]any{"variant": c.Variant, "source": source, "pattern": pattern, "inputs": len(inputs), "matched": matched, "not_matched": unmatched})
		}
	}
}

func panicSite(p string) string {
	if i := strings.LastIndex(p, " @ "); i >= 0 {
		return p[i+3:]
	}
	return p
}

func describe(variant, pattern, in string, on, off result, level string) string {
	v := variant
	if v == "" {
		v = "default"
	}
	return fmt.Sprintf("%s level, %s build: @rx %s on input %q: SecRxPreFilter Off -> %s; SecRxPreFilter On -> %s", level, v, pattern, in, off, on)
}

// ---------------------------------------------------------------------------

type space struct {
	name   string
	atoms  []atom
	from   int
	to     int
	strLen func(size int) int  // all symbol sequences up to this length (0 = none)
	walk   func(size int) bool // plus the inputs derived from a walk of the AST
}

func spaces(thorough bool) []space {
	if thorough {
		return []space{
			{"full", atoms, 1, 5,
				func(sz int) int { return map[bool]int{true: 4, false: 2}[sz <= 4] },
				func(sz int) bool { return sz >= 4 }},
			{"reduced", reducedAtoms, 6, 6,
				func(int) int { return 0 },
				func(int) bool { return true }},
		}
	}
	return []space{
		{"full", atoms, 1, 4,
			func(sz int) int { return map[bool]int{true: 4, false: 3}[sz <= 3] },
			func(sz int) bool { return sz >= 4 }},
		{"reduced", reducedAtoms, 5, 5,
			func(int) int { return 0 },
			func(int) bool { return true }},
	}
}

func phase(name string) bool {
	only := os.Getenv("VERIF_C11_ONLY") // profiling aid; unset in normal runs
	return only == "" || strings.Contains(only, name)
}

func run(c *runner.Ctx) {
	rs := &runState{c: c, multiline: isMultiline(), tx: &capTx{}, seenOut: map[string]bool{}}
	if rs.multiline != (c.Variant == "") {
		c.Violation("harness:variant-mismatch", fmt.Sprintf("variant %q but multiline=%v", c.Variant, rs.multiline), scenario{Variant: c.Variant})
		return
	}
	idx := 0
	// 1. generated patterns
	for _, sp := range spaces(c.Thorough()) {
		if !phase(sp.name) {
			continue
		}
		forEachPattern(sp.atoms, sp.from, sp.to, func(size int, e ex) {
			idx++
			if !c.Mine(idx) || c.Expired() {
				return
			}
			var in []string
			if l := sp.strLen(size); l > 0 {
				in = rs.ic.get(e.syms, l)
			}
			if sp.walk(size) {
				w := derivedInputs(e.s, rs.multiline, false)
				if in == nil {
					in = w
				} else {
					in = append(w, in...) // in is shared: append to the fresh slice
				}
			}
			c.Count("patterns_"+sp.name+"_size_"+strconv.Itoa(size), 1)
			rs.checkPattern(sp.name, e.s, in, size <= 3)
		})
	}
	if phase("witness") {
		runWitnesses(rs, &idx)
	}
	if phase("crs") {
		runCRS(rs, &idx)
	}
	if phase("waf") {
		runWAF(rs, &idx)
	}
	if c.Worker == 0 {
		var desc []string
		for _, sp := range spaces(c.Thorough()) {
			desc = append(desc, fmt.Sprintf("%s atoms, sizes %d-%d", sp.name, sp.from, sp.to))
		}
		c.Extra("generated_spaces", desc)
	}
}

// ---------------------------------------------------------------------------

func replay(raw json.RawMessage) (bool, string) {
	var sc scenario
	if err := json.Unmarshal(raw, &sc); err != nil {
		return false, err.Error()
	}
	var sb strings.Builder
	pattern := sc.Pattern
	ml := isMultiline()
	if sc.Variant == "nomultiline" && ml {
		// The replay binary is the default build. (?-m) in front of the pattern
		// clears the multi-line flag this build prepends, which yields the same
		// regex AST the coraza.rule.no_regex_multiline build compiles.
		pattern = "(?-m)" + pattern
		fmt.Fprintf(&sb, "scenario recorded in the no_regex_multiline build; replayed in the default build as %q\n", pattern)
	}
	if sc.Level == "waf" {
		on, off, err := wafPair(pattern, sc.Capture)
		if err != nil {
			return true, "build: " + err.Error()
		}
		defer on.close()
		defer off.close()
		ro, rf := on.eval(string(sc.Input)), off.eval(string(sc.Input))
		fmt.Fprint(&sb, describe(sc.Variant, pattern, string(sc.Input), ro, rf, "waf"))
		return ro != rf, sb.String()
	}
	p, eOn, eOff := build(pattern)
	if eOn != "" || eOff != "" {
		fmt.Fprintf(&sb, "build: on=%q off=%q", eOn, eOff)
		return eOn != eOff, sb.String()
	}
	tx := &capTx{capturing: sc.Capture}
	var on, off result
	if pn := probe.Safe(func() {
		off = eval(p.off, tx, string(sc.Input))
		on = eval(p.on, tx, string(sc.Input))
	}); pn != "" {
		return true, "panic: " + pn
	}
	fmt.Fprint(&sb, describe(sc.Variant, pattern, string(sc.Input), on, off, "operator"))
	return on != off, sb.String()
}
