package c11

import (
	"io/fs"
	"regexp/syntax"
	"sort"
	"strings"
	"unicode"

	coreruleset "github.com/corazawaf/coraza-coreruleset"

	utils "github.com/corazawaf/coraza/v3/internal/strings"
)

// crsPatterns extracts the argument of every @rx operator (explicit or
// implicit) of the SecRule lines of the bundled CRS, the way the seclang
// parser reads them: lines trimmed, trailing "\" joins, first quoted string
// after the variables is the operator, `\"` unescaped, no operator name means
// @rx. Returned sorted and deduplicated.
func crsPatterns() ([]string, int, error) {
	files, err := fs.Glob(coreruleset.FS, "@owasp_crs/*.conf")
	if err != nil {
		return nil, 0, err
	}
	sort.Strings(files)
	seen := map[string]bool{}
	rules := 0
	for _, f := range files {
		data, err := fs.ReadFile(coreruleset.FS, f)
		if err != nil {
			return nil, 0, err
		}
		var buf strings.Builder
		for _, line := range strings.Split(string(data), "\n") {
			line = strings.TrimSpace(line)
			if line == "" || line[0] == '#' {
				continue
			}
			if line[len(line)-1] == '\\' {
				buf.WriteString(strings.TrimSuffix(line, "\\"))
				continue
			}
			buf.WriteString(line)
			l := buf.String()
			buf.Reset()
			dir, opts, _ := strings.Cut(l, " ")
			if !strings.EqualFold(dir, "SecRule") {
				continue
			}
			if p, ok := rxArgument(opts); ok {
				rules++
				seen[p] = true
			}
		}
	}
	out := make([]string, 0, len(seen))
	for p := range seen {
		out = append(out, p)
	}
	sort.Strings(out)
	return out, rules, nil
}

func rxArgument(opts string) (string, bool) {
	opts = strings.Trim(opts, " ")
	_, rest, ok := strings.Cut(opts, " ")
	if !ok {
		return "", false
	}
	rest = strings.TrimLeft(rest, " ")
	if len(rest) == 0 || rest[0] != '"' {
		return "", false
	}
	// cut the quoted string (a quote preceded by an odd number of backslashes is escaped)
	end := -1
	esc := 0
	for i := 1; i < len(rest); i++ {
		if rest[i] != '"' {
			if rest[i] == '\\' {
				esc++
			} else {
				esc = 0
			}
			continue
		}
		if esc%2 == 1 {
			esc = 0
			continue
		}
		end = i
		break
	}
	if end < 0 {
		return "", false
	}
	op := utils.UnescapeQuotedString(utils.MaybeRemoveQuotes(rest[:end+1]))
	switch {
	case len(op) == 0 || op[0] != '@' && op[0] != '!':
		op = "@rx " + op
	case op == "!":
		op = "!@rx"
	case len(op) > 1 && op[0] == '!' && op[1] != '@':
		op = "!@rx " + op[1:]
	}
	name, arg, _ := strings.Cut(op, " ")
	name = strings.TrimSpace(name)
	if name != "@rx" && name != "!@rx" {
		return "", false
	}
	return strings.TrimSpace(arg), true
}

// ---------------------------------------------------------------------------
// deterministic walk of a regex AST producing candidate matching strings

const walkCap = 24 // variants kept per node

func walk(re *syntax.Regexp) []string {
	switch re.Op {
	case syntax.OpEmptyMatch, syntax.OpBeginLine, syntax.OpEndLine, syntax.OpBeginText, syntax.OpEndText,
		syntax.OpWordBoundary, syntax.OpNoWordBoundary:
		return []string{""}
	case syntax.OpNoMatch:
		return []string{""}
	case syntax.OpLiteral:
		s := string(re.Rune)
		if re.Flags&syntax.FoldCase != 0 {
			lo, up := strings.ToLower(s), strings.ToUpper(s)
			if lo != up {
				return []string{lo, up}
			}
		}
		return []string{s}
	case syntax.OpAnyChar:
		return []string{"x", "\n"}
	case syntax.OpAnyCharNotNL:
		return []string{"x"}
	case syntax.OpCharClass:
		return classReps(re)
	case syntax.OpCapture:
		return walk(re.Sub[0])
	case syntax.OpStar:
		v := walk(re.Sub[0])
		out := []string{""}
		out = append(out, v...)
		out = append(out, v[0]+v[len(v)-1])
		return capN(uniq(out))
	case syntax.OpPlus:
		v := walk(re.Sub[0])
		out := append([]string{}, v...)
		out = append(out, v[0]+v[len(v)-1])
		return capN(uniq(out))
	case syntax.OpQuest:
		v := walk(re.Sub[0])
		return capN(uniq(append([]string{""}, v...)))
	case syntax.OpRepeat:
		v := walk(re.Sub[0])
		rep := func(n int, off int) string {
			var sb strings.Builder
			for i := 0; i < n; i++ {
				sb.WriteString(v[(i+off)%len(v)])
			}
			return sb.String()
		}
		out := []string{rep(re.Min, 0)}
		if len(v) > 1 {
			out = append(out, rep(re.Min, 1))
		}
		if (re.Max == -1 || re.Max > re.Min) && re.Min < 64 {
			out = append(out, rep(re.Min+1, 0))
		}
		if re.Max > re.Min+1 && re.Max <= 64 {
			out = append(out, rep(re.Max, 0))
		}
		return capN(uniq(out))
	case syntax.OpConcat:
		subs := make([][]string, len(re.Sub))
		n := 1
		for i, s := range re.Sub {
			subs[i] = walk(s)
			if len(subs[i]) > n {
				n = len(subs[i])
			}
		}
		var out []string
		for k := 0; k < n; k++ {
			var sb strings.Builder
			for _, v := range subs {
				sb.WriteString(v[k%len(v)])
			}
			out = append(out, sb.String())
		}
		// a second, skewed combination so that variants of different children meet
		for k := 0; k < n && n > 1; k++ {
			var sb strings.Builder
			for i, v := range subs {
				sb.WriteString(v[(k+i)%len(v)])
			}
			out = append(out, sb.String())
		}
		return capAlt(uniq(out))
	case syntax.OpAlternate:
		var out []string
		// each alternative once, then second variants
		var rest []string
		for _, s := range re.Sub {
			v := walk(s)
			out = append(out, v[0])
			if len(v) > 1 {
				rest = append(rest, v[1:]...)
			}
		}
		out = uniq(out)
		for _, r := range rest {
			if len(out) >= altCap {
				break
			}
			out = append(out, r)
		}
		return capAlt(uniq(out))
	}
	return []string{""}
}

const altCap = 400

func capN(v []string) []string {
	if len(v) > walkCap {
		return v[:walkCap]
	}
	return v
}

func capAlt(v []string) []string {
	if len(v) > altCap {
		return v[:altCap]
	}
	return v
}

func uniq(v []string) []string {
	seen := map[string]bool{}
	out := v[:0:0]
	for _, s := range v {
		if !seen[s] {
			seen[s] = true
			out = append(out, s)
		}
	}
	return out
}

// classReps picks up to three representatives of a character class: a
// "typical" member, the first and the last rune.
func classReps(re *syntax.Regexp) []string {
	in := func(r rune) bool {
		for i := 0; i+1 < len(re.Rune); i += 2 {
			if re.Rune[i] <= r && r <= re.Rune[i+1] {
				return true
			}
		}
		return false
	}
	var out []string
	for _, r := range []rune{'a', '1', ' ', '/', '_', '%', '\n'} {
		if in(r) {
			out = append(out, string(r))
			break
		}
	}
	if len(re.Rune) >= 2 {
		lo, hi := re.Rune[0], re.Rune[len(re.Rune)-1]
		if hi > unicode.MaxASCII && in('~') {
			hi = '~'
		}
		out = append(out, string(lo))
		if hi <= unicode.MaxRune && hi != lo {
			out = append(out, string(hi))
		}
	}
	if len(out) == 0 {
		return []string{""}
	}
	return uniq(out)
}

// derivedInputs derives an input set from the pattern itself: the strings of a
// walk of its AST, padded, and their one-byte deletions, case flips, newline
// insertions (thorough: also substitutions by a foreign / invalid byte and all
// two-byte deletions of short strings).
func derivedInputs(pattern string, multiline, thorough bool) []string {
	flags := "(?s)"
	if multiline {
		flags = "(?sm)"
	}
	re, err := syntax.Parse(flags+pattern, syntax.Perl)
	if err != nil {
		return []string{""}
	}
	base := walk(re)
	seen := map[string]bool{}
	var out []string
	add := func(s string) {
		if !seen[s] {
			seen[s] = true
			out = append(out, s)
		}
	}
	add("")
	for _, s := range base {
		add(s)
		add("x" + s)
		add(s + "x")
		add("x " + s + " x")
	}
	for _, s := range base {
		step := 1
		if len(s) > 48 {
			step = (len(s) + 47) / 48
		}
		for i := 0; i < len(s); i += step {
			add(s[:i] + s[i+1:]) // deletion
			b := s[i]
			switch {
			case b >= 'a' && b <= 'z':
				add(s[:i] + string(rune(b-32)) + s[i+1:])
			case b >= 'A' && b <= 'Z':
				add(s[:i] + string(rune(b+32)) + s[i+1:])
			}
			add(s[:i] + "\n" + s[i:])
			if thorough {
				add(s[:i] + "x" + s[i+1:])
				add(s[:i] + "\xff" + s[i+1:])
				add(s[:i] + "\xff" + s[i:])
			}
		}
		add(s + "\n")
		// Unicode fold partners of k and s
		if strings.ContainsAny(s, "kKsS") {
			add(strings.NewReplacer("k", kelvin, "K", kelvin).Replace(s))
			add(strings.NewReplacer("s", longS, "S", longS).Replace(s))
		}
		if thorough && len(s) <= 24 {
			for i := 0; i < len(s); i++ {
				for j := i + 1; j < len(s); j++ {
					add(s[:i] + s[i+1:j] + s[j+1:])
				}
			}
		}
	}
	return out
}

func runCRS(rs *runState, idx *int) {
	c := rs.c
	pats, rules, err := crsPatterns()
	if err != nil {
		c.Violation("harness:crs-unreadable", err.Error(), scenario{})
		return
	}
	if c.Worker == 0 {
		c.Extra("crs_rx_rules", rules)
		c.Extra("crs_rx_patterns_distinct", len(pats))
	}
	for _, p := range pats {
		*idx++
		if !c.Mine(*idx) || c.Expired() {
			continue
		}
		c.Count("crs_patterns", 1)
		rs.checkPattern("crs", p, derivedInputs(p, rs.multiline, c.Thorough()), true)
	}
}
