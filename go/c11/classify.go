package c11

import (
	"regexp/syntax"
	"strings"
	"unicode/utf8"
)

// classify names the root cause of a disagreement between the operator with
// and without prefilter. The classes are derived from features of the pattern
// and the failing input that explain the disagreement; whatever fits no class
// is reported under its own pattern.
//
// probe evaluates another input on the same pair (prefilter on, off); it lets a
// class be defined by behaviour instead of by a guess at the internals.
func classify(multiline bool, pattern, in string, on, off result, probe func(string) (on, off result)) string {
	if on.oob || off.oob {
		return "capture-index-out-of-range"
	}
	flags := "(?s)"
	if multiline {
		flags = "(?sm)"
	}
	re, err := syntax.Parse(flags+pattern, syntax.Perl)
	if err != nil {
		return "unclassified:unparsable:" + pattern
	}
	re = re.Simplify()
	switch {
	case on.ok && off.ok:
		// same verdict, different captures
		allEmpty := true
		for _, c := range on.caps {
			if c != "" {
				allEmpty = false
			}
		}
		if allEmpty && isExactLiteral(pattern) {
			return "exact-match-fast-path:captures-not-set"
		}
		return "unclassified:captures-differ:" + pattern
	case off.ok && !on.ok:
		ci := hasFold(re)
		if lower := strings.ToLower(in); ci && isASCII(in) && in != lower && probe != nil {
			// the same input in lower case is accepted by both, with upper-case
			// ASCII letters only the prefilter rejects it
			if on2, off2 := probe(lower); on2.ok && off2.ok {
				return "prefilter:ascii-case-fold-miss"
			}
		}
		if isExactLiteral(pattern) && !strings.Contains(in, "\n") {
			return "exact-match-fast-path:false-negative"
		}
		lits := mandatoryLiterals(re, ci)
		if len(lits) > 0 {
			cmp := in
			if ci {
				cmp = strings.ToLower(in)
			}
			// Which of the mandatory literals the prefilter takes for "the first"
			// ("the last") depends on which sub-results it drops on the way up
			// (e.g. `(\Aaba{2})bc` ends up with "bc"), so any mandatory literal
			// that is present but not at the anchored edge qualifies.
			if beginsWithTextAnchor(re) && someNot(strings.HasPrefix, cmp, lits) && containsAll(cmp, lits) {
				return "prefilter:literal-assumed-adjacent-to-text-anchor"
			}
			if endsWithTextAnchor(re) && someNot(strings.HasSuffix, cmp, lits) && containsAll(cmp, lits) {
				return "prefilter:literal-assumed-adjacent-to-text-anchor"
			}
			// (?m)^ / (?m)$ taken for a text anchor
			if edgeOp(re, syntax.OpBeginLine, false) && someNot(strings.HasPrefix, cmp, lits) && containsAll(cmp, lits) {
				return "prefilter:line-anchor-taken-for-text-anchor"
			}
			if edgeOp(re, syntax.OpEndLine, true) && someNot(strings.HasSuffix, cmp, lits) && containsAll(cmp, lits) {
				return "prefilter:line-anchor-taken-for-text-anchor"
			}
		}
		if trieShape(re) {
			return "prefilter:trie-prefix-joined-to-non-adjacent-literal"
		}
		return "unclassified:false-negative:" + pattern
	case !off.ok && on.ok:
		if isExactLiteral(pattern) {
			return "exact-match-fast-path:false-positive"
		}
		return "unclassified:false-positive:" + pattern
	}
	return "unclassified:" + pattern
}

func someNot(at func(s, l string) bool, s string, lits []string) bool {
	for _, l := range lits {
		if !at(s, l) {
			return true
		}
	}
	return false
}

func containsAll(s string, lits []string) bool {
	for _, l := range lits {
		if !strings.Contains(s, l) {
			return false
		}
	}
	return true
}

func hasFold(re *syntax.Regexp) bool {
	if re.Flags&syntax.FoldCase != 0 {
		return true
	}
	for _, s := range re.Sub {
		if hasFold(s) {
			return true
		}
	}
	return false
}

// isExactLiteral: the rule's own pattern (no flags prepended) is ^literal$.
func isExactLiteral(pattern string) bool {
	re, err := syntax.Parse(pattern, syntax.Perl)
	if err != nil {
		return false
	}
	re = re.Simplify()
	for re.Op == syntax.OpCapture {
		re = re.Sub[0]
	}
	return re.Op == syntax.OpConcat && len(re.Sub) == 3 && re.Sub[0].Op == syntax.OpBeginText &&
		re.Sub[1].Op == syntax.OpLiteral && re.Sub[2].Op == syntax.OpEndText
}

// mandatoryLiterals lists, in pattern order, the literals of at least two
// bytes that every match contains (through concatenation, capture, +).
func mandatoryLiterals(re *syntax.Regexp, ci bool) []string {
	switch re.Op {
	case syntax.OpLiteral:
		for _, r := range re.Rune {
			if r == utf8.RuneError {
				return nil
			}
		}
		s := string(re.Rune)
		if ci {
			s = strings.ToLower(s)
		}
		if len(s) < 2 {
			return nil
		}
		return []string{s}
	case syntax.OpCapture, syntax.OpPlus:
		return mandatoryLiterals(re.Sub[0], ci)
	case syntax.OpConcat:
		var out []string
		for _, s := range re.Sub {
			out = append(out, mandatoryLiterals(s, ci)...)
		}
		return out
	}
	return nil
}

func beginsWithTextAnchor(re *syntax.Regexp) bool { return edgeOp(re, syntax.OpBeginText, false) }

func endsWithTextAnchor(re *syntax.Regexp) bool { return edgeOp(re, syntax.OpEndText, true) }

// edgeOp: the first (last) element of the pattern, through captures and
// concatenations, is the given empty-width operator.
func edgeOp(re *syntax.Regexp, op syntax.Op, trailing bool) bool {
	switch re.Op {
	case op:
		return true
	case syntax.OpCapture:
		return edgeOp(re.Sub[0], op, trailing)
	case syntax.OpConcat:
		if len(re.Sub) == 0 {
			return false
		}
		if trailing {
			return edgeOp(re.Sub[len(re.Sub)-1], op, trailing)
		}
		return edgeOp(re.Sub[0], op, trailing)
	}
	return false
}

// trieShape: somewhere a two-element concatenation [literal, X] with X (under
// captures) an alternation or a concatenation — the shape on which the
// prefilter glues the literal in front of literals extracted from X
// ("trie reconstruction"), although those need not be adjacent to it.
func trieShape(re *syntax.Regexp) bool {
	if re.Op == syntax.OpConcat && len(re.Sub) == 2 && re.Sub[0].Op == syntax.OpLiteral {
		x := re.Sub[1]
		for x.Op == syntax.OpCapture {
			x = x.Sub[0]
		}
		if x.Op == syntax.OpAlternate || x.Op == syntax.OpConcat {
			return true
		}
	}
	for _, s := range re.Sub {
		if trieShape(s) {
			return true
		}
	}
	return false
}

func isASCII(s string) bool {
	for i := 0; i < len(s); i++ {
		if s[i] >= 0x80 {
			return false
		}
	}
	return true
}
