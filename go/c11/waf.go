package c11

import (
	"fmt"
	"strings"

	coraza "github.com/corazawaf/coraza/v3"
	"github.com/corazawaf/coraza/v3/experimental/plugins/plugintypes"
	"github.com/corazawaf/coraza/v3/internal/verif/probe"
	"github.com/corazawaf/coraza/v3/internal/verif/scen"
)

// WAF level: two WAFs whose configurations differ only in SecRxPreFilter
// On/Off; one rule `SecRule ARGS_GET:v "@rx P" "…,capture,deny,setvar:tx.c0=%{TX.0},…"`;
// observation = interruption and TX.c0-c9 (TX.0-9 copied out by setvar).

type wafSide struct {
	w       coraza.WAF
	capture bool
}

func (s *wafSide) close() { scen.Close(s.w) }

func wafConf(pattern string, prefilter, capture bool) string {
	var sb strings.Builder
	sb.WriteString("SecRuleEngine On\n")
	if prefilter {
		sb.WriteString("SecRxPreFilter On\n")
	} else {
		sb.WriteString("SecRxPreFilter Off\n")
	}
	acts := "id:1,phase:1,deny,status:403"
	if capture {
		acts += ",capture"
		for i := 0; i <= 9; i++ {
			acts += fmt.Sprintf(",setvar:tx.c%d=v%%{TX.%d}", i, i)
		}
	}
	fmt.Fprintf(&sb, "SecRule ARGS_GET:v \"@rx %s\" \"%s\"\n", strings.ReplaceAll(pattern, `"`, `\"`), acts)
	return sb.String()
}

func wafPair(pattern string, capture bool) (on, off *wafSide, err error) {
	wOn, err := scen.Build(wafConf(pattern, true, capture))
	if err != nil {
		return nil, nil, fmt.Errorf("prefilter on: %w", err)
	}
	wOff, err := scen.Build(wafConf(pattern, false, capture))
	if err != nil {
		scen.Close(wOn)
		return nil, nil, fmt.Errorf("prefilter off: %w", err)
	}
	return &wafSide{wOn, capture}, &wafSide{wOff, capture}, nil
}

const hexdigits = "0123456789ABCDEF"

func pct(in string) string {
	b := make([]byte, 0, 3*len(in))
	for i := 0; i < len(in); i++ {
		b = append(b, '%', hexdigits[in[i]>>4], hexdigits[in[i]&15])
	}
	return string(b)
}

func (s *wafSide) eval(in string) (r result) {
	tx := s.w.NewTransaction()
	defer func() {
		tx.ProcessLogging()
		_ = tx.Close()
	}()
	tx.ProcessURI("/?v="+pct(in), "GET", "HTTP/1.1")
	it := tx.ProcessRequestHeaders()
	r.ok = it != nil
	if r.ok && s.capture {
		if ts, ok := tx.(plugintypes.TransactionState); ok {
			col := ts.Variables().TX()
			for i := 0; i <= 9; i++ {
				if v := col.Get(fmt.Sprintf("c%d", i)); len(v) > 0 {
					r.caps[i] = strings.TrimPrefix(v[0], "v") // "v" keeps setvar from reading +N / -N as arithmetic
				}
			}
		}
	}
	return r
}

// wafInputs: the subset of inputs repeated at WAF level.
func (rs *runState) checkWAF(source, pattern string, inputs []string, capture bool) {
	c := rs.c
	var on, off *wafSide
	var err error
	if pn := probe.Safe(func() { on, off, err = wafPair(pattern, capture) }); pn != "" {
		c.Violation("panic-at-build:"+panicSite(pn), fmt.Sprintf("WAF with @rx %q: %s", pattern, pn),
			scenario{Level: "waf", Variant: c.Variant, Pattern: pattern, Capture: capture, Source: source})
		return
	}
	if err != nil {
		// the same pattern is rejected at operator level by both settings
		if _, eOn, eOff := build(pattern); (eOn == "") != (eOff == "") {
			c.Violation("build-differs", fmt.Sprintf("pattern %q: %v", pattern, err), scenario{Level: "waf", Variant: c.Variant, Pattern: pattern, Capture: capture, Source: source})
		}
		c.Count("waf_patterns_rejected", 1)
		return
	}
	defer on.close()
	defer off.close()
	c.Count("waf_patterns", 1)
	ref, _, _ := build(pattern)
	var cur string
	n := 0
	pn := probe.Safe(func() {
		for _, in := range inputs {
			cur = in
			rf := off.eval(in)
			ro := on.eval(in)
			n++
			if ro != rf {
				sig := classify(rs.multiline, pattern, in, ro, rf, func(s string) (result, result) { return on.eval(s), off.eval(s) })
				c.Violation(sig, describe(c.Variant, pattern, in, ro, rf, "waf"),
					scenario{Level: "waf", Variant: c.Variant, Pattern: pattern, Input: []byte(in), InputQ: fmt.Sprintf("%q", in), Capture: capture, Source: source})
			}
			if ref.off != nil {
				rs.tx.capturing = capture
				if want := eval(ref.off, rs.tx, in); want != rf {
					// not part of the property: the WAF did not hand the operator the bytes we sent
					c.Count("waf_differs_from_operator_level", 1)
					c.Note("WAF (prefilter off) differs from operator level: @rx %q input %q: waf %s, operator %s", pattern, in, rf, want)
				}
			}
		}
	})
	c.Count("evaluations", int64(n))
	c.Count("waf_evaluations", int64(n))
	if pn != "" {
		c.Violation("panic:"+panicSite(pn), fmt.Sprintf("WAF level, pattern %q input %q: %s", pattern, cur, pn),
			scenario{Level: "waf", Variant: c.Variant, Pattern: pattern, Input: []byte(cur), InputQ: fmt.Sprintf("%q", cur), Capture: capture, Source: source})
	}
}

func runWAF(rs *runState, idx *int) {
	c := rs.c
	top, maxLen := 3, 2
	if c.Thorough() {
		top, maxLen = 3, 3
	}
	forEachPattern(atoms, 1, top, func(size int, e ex) {
		*idx++
		if !c.Mine(*idx) || c.Expired() {
			return
		}
		l := maxLen
		if size <= 2 {
			l = maxLen + 1
		}
		in := rs.ic.get(e.syms, l)
		rs.checkWAF("full", e.s, in, true)
		if size <= 2 {
			rs.checkWAF("full", e.s, in, false)
		}
	})
	pats, _, err := crsPatterns()
	if err != nil {
		return
	}
	for _, p := range pats {
		*idx++
		if !c.Mine(*idx) || c.Expired() {
			continue
		}
		in := derivedInputs(p, rs.multiline, false)
		if !c.Thorough() && len(in) > 200 {
			in = in[:200]
		}
		rs.checkWAF("crs", p, in, true)
	}
}
