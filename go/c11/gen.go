package c11

// Pattern generator: every regex AST up to a node bound over a fixed set of
// atoms and constructors, each printed form produced exactly once.
//
// Size of an AST (the "node bound"):
//   atom                              1
//   (E)  (?i:E)  E?  E*  E+  E{2}     1 + size(E)
//   E1|E2|..|Ek                       size(E1)+..+size(Ek) + (k-1)
//   concatenation F1 F2 .. Fk         size(F1)+..+size(Fk)        (free)
// `(?:…)` is not counted: the printer inserts it wherever precedence needs it
// (an alternation used as a factor, a quantifier over a sequence / multi-rune
// literal / another quantifier).  `(?i)` is an atom: as in RE2 it switches
// case folding on for the rest of the enclosing group, which gives both the
// fully case-insensitive and the mixed-flag patterns.

// symbol bits: which input symbols a pattern contributes to its alphabet.
const (
	symA = 1 << iota
	symB
	symC
	symNL   // "\n"
	symFF   // "\xff" (invalid UTF-8 byte)
	symDig  // "1"
	symKel  // "K" U+212A KELVIN SIGN (folds to k / K)
	symLngS // "ſ" U+017F LONG S (folds to s / S)
	symFold // case folding occurs: add the fold variants of the letters above
	symUpB  // "B": an upper-case ASCII letter inside a case-sensitive literal
)

type atom struct {
	s     string
	syms  uint16
	tight bool // a quantifier may follow directly
}

// the atoms of DESIGN.md §C11 plus the flag atom.
var atoms = []atom{
	{"a", symA, true},
	{"ab", symA | symB, false},
	{"abc", symA | symB | symC, false},
	{"bc", symB | symC, false},
	{"Bc", symUpB | symB | symC, false}, // case-sensitive literal with a capital: next to (?i) parts the prefilter works case-insensitively
	{"K", symKel, true},
	{"ſ", symLngS, true},
	{".", symNL | symFF, true},
	{"[ab]", symA | symB, true},
	{`\d`, symDig, true},
	{`\xff`, symFF, true},
	{"^", symNL, true},
	{"$", symNL, true},
	{`\A`, symNL, true},
	{`\z`, symNL, true},
	{"(?i)", symFold, false},
}

// the reduced atom set of the extended quick-tier level.
var reducedAtoms = []atom{
	{"a", symA, true},
	{"ab", symA | symB, false},
	{"bc", symB | symC, false},
	{".", symNL | symFF, true},
	{`\A`, symNL, true},
	{"$", symNL, true},
	{"(?i)", symFold, false},
}

// ex is one printed (sub)expression.
type ex struct {
	s     string
	syms  uint16
	tight bool  // single factor that takes a quantifier without (?:…)
	lone  bool  // a lone alternation group "(?:x|y)" (not allowed as a whole branch)
	lead  uint8 // 1 = first factor is the plain atom "bc" (used to keep printed forms unique)
	isA   bool  // the whole thing is the plain atom "a"
}

var quants = []string{"?", "*", "+", "{2}"}

type generator struct {
	atoms []atom
	abc   bool   // the atom set contains "abc": the sequence "a" "bc" is left out (same printed form)
	f     [][]ex // factors by size
	bp    [][]ex // sequences of >=1 factors by size (including lone alternation groups)
	alt   [][]ex // bare alternations (>=2 branches) by size
}

func (g *generator) exprs(n int, emit func(ex)) {
	for _, b := range g.bp[n] {
		if !b.lone {
			emit(b)
		}
	}
	for _, a := range g.alt[n] {
		emit(a)
	}
}

// build materialises all lists up to size n.
func newGenerator(at []atom, n int) *generator {
	g := &generator{atoms: at, f: make([][]ex, n+1), bp: make([][]ex, n+1), alt: make([][]ex, n+1)}
	for _, a := range at {
		if a.s == "abc" {
			g.abc = true
		}
	}
	for k := 1; k <= n; k++ {
		g.level(k, func(e ex) { g.f[k] = append(g.f[k], e) }, func(e ex) { g.bp[k] = append(g.bp[k], e) }, func(e ex) { g.alt[k] = append(g.alt[k], e) })
	}
	return g
}

// level streams the factors, sequences and alternations of size k, given that
// all smaller sizes are materialised. Factors of size k are needed to build
// the sequences of size k, so they are collected locally when k is the
// streamed top level.
func (g *generator) level(k int, emitF, emitB, emitA func(ex)) {
	var fk []ex
	addF := func(e ex) { fk = append(fk, e); emitF(e) }
	if k == 1 {
		for _, a := range g.atoms {
			addF(ex{s: a.s, syms: a.syms, tight: a.tight, isA: a.s == "a", lead: b2u(a.s == "bc")})
		}
	} else {
		g.exprs(k-1, func(e ex) {
			addF(ex{s: "(" + e.s + ")", syms: e.syms, tight: true})
			addF(ex{s: "(?i:" + e.s + ")", syms: e.syms | symFold, tight: true})
			inner := e.s
			if !e.tight {
				inner = "(?:" + e.s + ")"
			}
			for _, q := range quants {
				addF(ex{s: inner + q, syms: e.syms})
			}
		})
	}
	// alternations of size k (need sequences of smaller sizes only)
	var ak []ex
	for i := 1; i+2 <= k; i++ {
		j := k - 1 - i
		for _, b := range g.bp[i] {
			if b.lone {
				continue
			}
			for _, r := range g.bp[j] {
				if r.lone {
					continue
				}
				ak = append(ak, ex{s: b.s + "|" + r.s, syms: b.syms | r.syms})
			}
			for _, r := range g.alt[j] {
				ak = append(ak, ex{s: b.s + "|" + r.s, syms: b.syms | r.syms})
			}
		}
	}
	for _, a := range ak {
		emitA(a)
		addF(ex{s: "(?:" + a.s + ")", syms: a.syms, tight: true, lone: true})
	}
	// sequences of size k
	for _, f := range fk {
		emitB(f)
	}
	for i := 1; i < k; i++ {
		for _, f := range g.f[i] {
			for _, r := range g.bp[k-i] {
				if g.abc && f.isA && r.lead == 1 {
					continue // "a"+"bc" prints like the atom "abc"
				}
				emitB(ex{s: f.s + r.s, syms: f.syms | r.syms, lead: f.lead})
			}
		}
	}
}

func b2u(b bool) uint8 {
	if b {
		return 1
	}
	return 0
}

// forEachPattern enumerates all patterns of size 1..n over the atom set, the
// top level streamed. emit receives the size too.
func forEachPattern(at []atom, from, n int, emit func(size int, e ex)) {
	g := newGenerator(at, n-1)
	for k := from; k < n; k++ {
		kk := k
		g.exprs(kk, func(e ex) { emit(kk, e) })
	}
	if n < from {
		return
	}
	// top level: stream
	g.f = append(g.f, nil)
	g.bp = append(g.bp, nil)
	g.alt = append(g.alt, nil)
	g.level(n, func(ex) {}, func(e ex) {
		if !e.lone {
			emit(n, e)
		}
	}, func(e ex) { emit(n, e) })
}
