// Package c06 decides C06: a WAF is safe to share — concurrent transactions
// are race-free and independent (DESIGN.md §3 C06).
package c06

import (
	"encoding/json"
	"fmt"
	"sort"
	"strings"
	"sync"

	coraza "github.com/corazawaf/coraza/v3"
	"github.com/corazawaf/coraza/v3/experimental/plugins"
	"github.com/corazawaf/coraza/v3/internal/verif/auditcap"
	"github.com/corazawaf/coraza/v3/internal/verif/mc"
	"github.com/corazawaf/coraza/v3/internal/verif/probe"
	"github.com/corazawaf/coraza/v3/internal/verif/runner"
	"github.com/corazawaf/coraza/v3/internal/verif/scen"
	"github.com/corazawaf/coraza/v3/internal/verif/sched"
	"github.com/corazawaf/coraza/v3/internal/verif/vrt"
	"github.com/corazawaf/coraza/v3/internal/verif/vsync"
)

func init() {
	runner.Register(&runner.Check{
		ID:    "C06",
		Level: "model_checking",
		Rule: "harness = one shared WAF (rules with @rx+capture, @pm, a regex-keyed target with three configured exclusions, a ctl:ruleRemoveTargetById, a chain, setvar arithmetic, a threshold deny, audit log to one shared writer) used by 2-3 controlled threads: T1 and T2 each run one complete transaction (different requests) and close it, T3 builds and closes a second WAF that shares some patterns with the first; a fourth scenario runs the first two transactions of a freshly built WAF (lazily initialised rule state); further scenarios: 2 threads x 2 transactions with pooled objects recycled across threads, 2 threads each building and closing a WAF, 2 threads building WAFs that register transformation chains new to the process, and 2 complete exchanges (all 5 phases, JSON and multipart request bodies, JSON and text response bodies, ~30 operator / transformation families incl. @detectSQLi, @detectXSS, @ipMatch, @pmFromDataset, @restpath, @validateNid, macros in operator arguments, every audit part) on one shared WAF; " +
			"every interleaving at every operation of the sync / atomic / singleflight / pool shims is explored depth-first up to the preemption bound (2 transactions: 3 quick / 4 thorough; with the WAF-building thread: 2 quick / 3 thorough; transaction + WAF build and fresh WAF: 2 quick / 3 thorough), with an extra scheduling point between the API calls of a transaction, in the default and the multiphase build, every execution under the race detector (hand-off invisible to it); " +
			"oracle per execution: no race report, no deadlock, no lock still held when every thread has returned, no panic, every thread's outcome and the multiset of audit records equal the outcomes of the threads run alone. states = scheduling-tree nodes (choice points executed), transitions = scheduling steps, traces = complete schedules",
		Assumptions: []string{
			"scheduling points are the synchronisation operations of the coraza module (and single-flight); code between two of them is atomic for the scheduler, its unsynchronised accesses are caught by the race detector instead",
			"memory-model effects weaker than sequential consistency are not explored (irrelevant for executions the detector proves race-free)",
			"closing a WAF while its own transactions run is outside the property and not generated",
		},
		Run:      run,
		Replay:   replay,
		Variants: []string{"race", "multiphase-race"},
		Threads:  3,
	})
}

const sharedConf = `SecRuleEngine On
SecRequestBodyAccess On
SecAuditEngine On
SecAuditLogType verifcap
SecAuditLog /dev/null
SecAuditLogParts ABHKZ
SecAction "id:4,phase:1,pass,nolog,ctl:ruleRemoveTargetById=3;ARGS:a4"
SecRule ARGS:a "@rx ^x3" "id:7,phase:1,pass,nolog,ctl:auditLogParts=-B"
SecAction "id:8,phase:1,pass,nolog,ctl:ruleRemoveTargetByTag=tg;ARGS:a5,ctl:ruleRemoveTargetByMsg=mg;ARGS:a6,ctl:ruleRemoveByTag=tgone,ctl:ruleRemoveByMsg=mgone"
SecRule ARGS "@rx ^x(\d+)" "id:1,phase:2,pass,log,capture,t:lowercase,setvar:tx.n=+%{tx.1},msg:'mg'"
SecRule ARGS "@pm foo bar" "id:2,phase:2,pass,log,t:lowercase,t:trim,tag:'tg'"
SecRule ARGS:/^a/|!ARGS:a1|!ARGS:a2|!ARGS:a3 "@rx y" "id:3,phase:2,pass,log,tag:'tg',msg:'mg'"
SecRule ARGS "@streq never" "id:9,phase:2,deny,status:500,log,tag:'tgone'"
SecRule ARGS "@rx ." "id:10,phase:2,deny,status:500,log,tag:'tgone',msg:'mgone'"
SecRule ARGS:b "@streq 1" "id:5,phase:2,pass,log,chain"
  SecRule ARGS:c "@streq 2" "setvar:tx.chain=1"
SecRule TX:n "@gt 5" "id:6,phase:2,deny,status:403,log"
`

const otherConf = `SecRuleEngine On
SecRule ARGS "@rx ^x(\d+)" "id:1,phase:2,pass,log,capture,t:lowercase"
SecRule ARGS "@pm foo bar" "id:2,phase:2,pass,log,t:trim"
SecRule ARGS:/^a/ "@rx z+" "id:3,phase:2,pass,log,t:removeWhitespace"
`

// wideConf: one rule per stateful or table-driven operator and transformation family, all five phases,
// body processors on both sides, macros in operator arguments and log fields, and every audit part.
const wideConf = `SecRuleEngine On
SecRequestBodyAccess On
SecResponseBodyAccess On
SecResponseBodyMimeType text/plain application/json
SecAuditEngine On
SecAuditLogType verifcap
SecAuditLog /dev/null
SecAuditLogParts ABCEFHIJKZ
SecDataset ds ` + "`" + `
foo
bar
` + "`" + `
SecAction "id:100,phase:1,pass,nolog,setvar:tx.k=oo,setvar:tx.lim=3,initcol:ip=%{REMOTE_ADDR},setenv:C06K=v"
SecRule REQUEST_HEADERS:Content-Type "@rx ^application/json" "id:101,phase:1,pass,nolog,ctl:requestBodyProcessor=JSON"
SecRule REMOTE_ADDR "@ipMatch 10.0.0.0/8,192.168.0.1" "id:102,phase:1,pass,log,msg:'ip %{REMOTE_ADDR}',tag:t1,severity:4"
SecRule REQUEST_URI "@restpath /p/{id}" "id:103,phase:1,pass,log,logdata:'%{ARGS_PATH.id}'"
SecRule REQUEST_HEADERS:User-Agent "@pmFromDataset ds" "id:104,phase:1,pass,log,capture,msg:'ua %{TX.0}'"
SecRule REQUEST_COOKIES "@validateNid cl \d{7,8}-[\dk]" "id:105,phase:1,pass,log"
SecRule ARGS "@detectSQLi" "id:110,phase:2,pass,log,t:urlDecodeUni,t:htmlEntityDecode,msg:'sqli %{MATCHED_VAR_NAME}'"
SecRule ARGS "@detectXSS" "id:111,phase:2,pass,log,t:jsDecode,t:cssDecode,t:removeNulls"
SecRule ARGS "@validateByteRange 32-126" "id:112,phase:2,pass,log,t:base64Decode"
SecRule ARGS "@validateUtf8Encoding" "id:113,phase:2,pass,log,multiMatch,t:hexDecode,t:lowercase"
SecRule ARGS "@validateUrlEncoding" "id:114,phase:2,pass,log"
SecRule ARGS "@within select,foo,bar" "id:115,phase:2,pass,log,t:compressWhitespace,t:trim"
SecRule ARGS "@contains %{tx.k}" "id:116,phase:2,pass,log,t:cmdLine"
SecRule ARGS "@beginsWith %{tx.k}" "id:117,phase:2,pass,log,t:normalizePath,t:normalizePathWin"
SecRule ARGS "@endsWith oo" "id:118,phase:2,pass,log,t:replaceComments,t:removeCommentsChar"
SecRule &ARGS "@ge %{tx.lim}" "id:119,phase:2,pass,log,setvar:tx.many=1"
SecRule ARGS "@strmatch foo" "id:120,phase:2,pass,log,t:sha1,t:hexEncode,t:length"
SecRule ARGS|REQUEST_COOKIES "@pm foo bar select" "id:121,phase:2,pass,log,capture,setvar:tx.n=+1"
SecRule FILES|FILES_NAMES "@rx \\.(php|txt)$" "id:122,phase:2,pass,log,capture,logdata:'%{TX.1}'"
SecRule REQUEST_BODY|XML:/* "@rx se(le)ct" "id:123,phase:2,pass,log,capture,t:utf8toUnicode,t:urlDecode"
SecRule TX:n "@gt 0" "id:124,phase:2,pass,log,chain,msg:'n=%{TX.n}'"
  SecRule TX:many "@ge 1" "t:none,setvar:tx.chain=%{TX.many}"
SecRule RESPONSE_HEADERS:X-R "@rx (?i)^r(\d)" "id:130,phase:3,pass,log,capture,setvar:tx.r=%{TX.1}"
SecRule RESPONSE_STATUS "@within 200,404" "id:131,phase:3,pass,log"
SecRule RESPONSE_BODY "@rx lea(k)" "id:140,phase:4,pass,log,capture,msg:'leak %{TX.1}'"
SecRule RESPONSE_ARGS|RESPONSE_BODY "@contains secret" "id:141,phase:4,pass,log,t:lowercase"
SecRule TX "@unconditionalMatch" "id:150,phase:5,pass,log,msg:'end %{HIGHEST_SEVERITY} %{TX.n}'"
`

var wideReqs = []scen.Req{
	{Method: "POST", URI: "/p/77?a=1%27%20or%201=1--&b=%3Cscript%3Ealert(1)%3C/script%3E&c=Zm9v&d=%zz",
		Headers:     [][2]string{{"Content-Type", "application/json"}, {"User-Agent", "foo agent"}, {"Cookie", "rut=11111111-1; x=bar"}},
		Body:        `{"q":"select","l":[1,"foo"],"o":{"k":"  foo  "}}`,
		Status:      200,
		RespHeaders: [][2]string{{"Content-Type", "application/json"}, {"X-R", "r5"}},
		RespBody:    `{"data":"a SECRET leak"}`},
	{Method: "POST", URI: "/p/9?e=%c3%28&f=/a/../b&g=fo/**/o",
		Headers:     [][2]string{{"Content-Type", "multipart/form-data; boundary=B"}, {"User-Agent", "bar"}, {"Cookie", "y=select"}},
		Body:        "--B\r\nContent-Disposition: form-data; name=\"f\"; filename=\"x.php\"\r\nContent-Type: text/plain\r\n\r\nselect\r\n--B\r\nContent-Disposition: form-data; name=\"h\"\r\n\r\nfoo\r\n--B--\r\n",
		Status:      404,
		RespHeaders: [][2]string{{"Content-Type", "text/plain"}, {"X-R", "R7"}},
		RespBody:    "no leak here, only a secret"},
}

// wideOutcome drives one complete exchange (all five phases) with a scheduling point after every phase call.
func wideOutcome(w coraza.WAF, i int) string {
	o := scen.Run(w, wideReqs[i], scen.Options{Vars: true})
	var sb strings.Builder
	sb.WriteString(o.Core())
	for _, m := range o.Matched {
		fmt.Fprintf(&sb, "msg %d %q\n", m.ID, m.Msg)
	}
	fmt.Fprintf(&sb, "calls=%v\n", o.Calls)
	for _, n := range []string{"TX/TX", "HighestSeverity/HIGHEST_SEVERITY", "RequestBody/REQUEST_BODY", "ResponseBody/RESPONSE_BODY"} {
		fmt.Fprintf(&sb, "%s=%v\n", n, o.Vars[n])
	}
	return sb.String()
}

var reqs = []scen.Req{
	{URI: "/p?a=X7&b=1&c=2&a4=y&a9=y"},
	{URI: "/p?a=x3&q=%20FOO&a5=y&a1=y"},
}

type kase struct {
	Scenario string `json:"scenario"`
	Choices  []int  `json:"choices"`
}

// outcome runs request i as a connector would, with a scheduling point
// between the API calls (a thread can be preempted there: its evaluation has
// happened, nothing of its logging / rendering has yet), and renders what the
// transaction observed.
func outcome(w coraza.WAF, i int) string {
	y := func() {
		if s := vrt.Scheduler; s != nil {
			s.Yield("between API calls")
		}
	}
	tx := w.NewTransaction()
	y()
	r := reqs[i]
	tx.ProcessConnection("10.0.0.1", 1234, "10.0.0.2", 80)
	tx.ProcessURI(r.URI, "GET", "HTTP/1.1")
	for _, h := range r.Headers {
		tx.AddRequestHeader(h[0], h[1])
	}
	it := tx.ProcessRequestHeaders()
	y()
	if it == nil {
		it, _ = tx.ProcessRequestBody()
	}
	y()
	tx.ProcessLogging()
	y()
	o := &probe.Outcome{Interruption: probe.Itr(tx.Interruption()), Matched: probe.Matches(tx), Vars: probe.Vars(tx, nil)}
	var sb strings.Builder
	sb.WriteString(o.Core())
	fmt.Fprintf(&sb, "TX=%v\n", o.Vars["TX/TX"])
	_ = tx.Close()
	return sb.String()
}

func sortedAudit() string {
	r := auditcap.Take()
	sort.Strings(r)
	return strings.Join(r, "\n")
}

// selfTest proves, in this very build, that the engine detects what it is
// meant to detect: an unprotected counter must be reported by the race detector
// (when built with -race), a lost update must be observable under some
// schedule, a lock-order inversion must be reported as a deadlock, and the
// mutex-protected counter must be silent.
func selfTest(c *runner.Ctx) {
	// lost update without a lock, with a yield between read and write
	lost := false
	mc.Explore(mc.Options{Bound: 2}, func(cx *mc.Ctx) {
		x := 0
		body := func() {
			v := x
			vrt.Scheduler.Yield("selftest")
			x = v + 1
		}
		sched.Run(cx, body, body)
		if x == 1 {
			lost = true
		}
	})
	if !lost {
		panic("C06 self test: the scheduler did not produce the lost-update interleaving")
	}
	reports := c.RaceReports()
	if c.Variant != "" && !strings.Contains(reports, "DATA RACE") {
		panic("C06 self test: the race detector did not report the unprotected counter under the controlled scheduler")
	}
	// protected counter: silent, never lost
	var mu vsync.Mutex
	st := mc.Explore(mc.Options{Bound: -1}, func(cx *mc.Ctx) {
		x := 0
		body := func() {
			mu.Lock()
			v := x
			x = v + 1
			mu.Unlock()
		}
		sched.Run(cx, body, body)
		if x != 2 {
			panic("C06 self test: update lost under a mutex")
		}
	})
	if r := c.RaceReports(); strings.Contains(r, "DATA RACE") {
		panic("C06 self test: false race report on a mutex-protected counter:\n" + r)
	}
	if st.Execs < 3 {
		panic("C06 self test: mutex scenario explored too few schedules")
	}
	// lock-order inversion
	dead := false
	var a, b vsync.Mutex
	mc.Explore(mc.Options{Bound: 2}, func(cx *mc.Ctx) {
		r := sched.Run(cx,
			func() { a.Lock(); b.Lock(); b.Unlock(); a.Unlock() },
			func() { b.Lock(); a.Lock(); a.Unlock(); b.Unlock() })
		if r.Deadlock != "" {
			dead = true
			// release the model state for the next execution
			a, b = vsync.Mutex{}, vsync.Mutex{}
		}
	})
	if !dead {
		panic("C06 self test: lock-order inversion not reported as deadlock")
	}
	// a lock taken on one path and never released
	leaked := false
	mc.Explore(mc.Options{Bound: 1}, func(cx *mc.Ctx) {
		var l vsync.Mutex
		r := sched.Run(cx, func() { l.Lock() }, func() {})
		leaked = leaked || len(r.Leaked) == 1
	})
	if !leaked {
		panic("C06 self test: a lock that is never released was not reported")
	}
	c.Note("self test passed: lost update, race report, mutex silence, deadlock, leaked lock (%d schedules of the mutex scenario)", st.Execs)
}

var chainSeq int
var chainConf string

type scenario struct {
	name    string
	threads int
	bound   int
}

func run(c *runner.Ctx) {
	selfTest(c)
	w, err := scen.Build(sharedConf)
	if err != nil {
		panic("C06: " + err.Error())
	}
	defer scen.Close(w)
	// solo outcomes
	auditcap.Take()
	solo := []string{outcome(w, 0), outcome(w, 1)}
	soloAudit := sortedAudit()
	if again := outcome(w, 0); again != solo[0] {
		panic("C06: solo outcome not reproducible")
	}
	auditcap.Take()
	c.RaceReports()
	// map-iteration order is C04's subject: here the sorted order is used and the schedule is the only choice
	vrt.SetMapOrderOff(true)
	defer vrt.SetMapOrderOff(false)

	b3 := 2
	if c.Thorough() {
		b3 = 3
	}
	scenarios := []scenario{
		{"2 transactions", 2, b3 + 1},
		{"first 2 transactions of a freshly built WAF", 22, b3},
		{"transaction + WAF build/close", 12, b3},
		{"2 threads x 2 transactions, pooled objects recycled across threads", 24, b3 - 1},
		{"2 threads each building and closing a WAF with shared patterns", 33, b3},
		{"2 threads building WAFs that introduce new transformation chains, then one WAF using both chains", 44, b3},
		{"2 complete exchanges (5 phases, both body processors, 30 operator / transformation families) on one shared WAF", 55, b3 + 1},
		{"2 threads building WAFs whose long phrase lists differ only at the end, then each WAF probed with both distinguishing words", 66, b3},
		// the largest space (3 threads) comes last: a deadline cuts this one, not the others
		{"2 transactions + WAF build/close", 3, b3},
	}
	wide, err := scen.Build(wideConf)
	if err != nil {
		panic("C06: wide configuration: " + err.Error())
	}
	defer scen.Close(wide)
	auditcap.Take()
	wideSolo := []string{wideOutcome(wide, 0), wideOutcome(wide, 1)}
	wideAudit := sortedAudit()
	for i := range wideSolo {
		if again := wideOutcome(wide, i); again != wideSolo[i] {
			panic("C06: wide solo outcome not reproducible:\n" + again + "---\n" + wideSolo[i])
		}
		if strings.Count(wideSolo[i], "rule ") < 12 {
			panic("C06: wide request fires too few rules (vacuous scenario):\n" + wideSolo[i])
		}
	}
	auditcap.Take()
	c.RaceReports()
	// after a deadlock or a leaked lock the process-wide state (pattern cache, registries) is not reusable:
	// the worker reports what it found and stops exploring
	poisoned := false
	for si, sc := range scenarios {
		if poisoned {
			c.Incomplete("stopped after a deadlock / leaked lock: the state of this process cannot be reused")
			break
		}
		// the scenarios are split over the workers of a variant by schedule prefix: the
		// first scheduling choices select the shard
		execs := 0
		var mu sync.Mutex
		_ = mu
		st := mc.Explore(mc.Options{Bound: sc.bound, MaxExecs: 1500000, Stop: func() bool { return poisoned || c.Expired() }, Worker: c.Worker, Workers: c.Workers}, func(cx *mc.Ctx) {
			execs++
			out := make([]string, 2)
			wx := w
			if sc.threads == 22 {
				// lazily initialised rule state is only written by the first evaluations
				fresh, err := scen.Build(sharedConf)
				if err != nil {
					panic("C06: " + err.Error())
				}
				defer scen.Close(fresh)
				wx = fresh
			}
			bodies := []func(){
				func() { out[0] = outcome(wx, 0) },
				func() { out[1] = outcome(wx, 1) },
				func() {
					w2, err := scen.Build(otherConf)
					if err != nil {
						panic("second WAF: " + err.Error())
					}
					scen.Close(w2)
				},
			}
			var chosen []func()
			var built []coraza.WAF
			var words [2]string
			switch sc.threads {
			case 2, 22:
				chosen = bodies[:2]
			case 33:
				chosen = []func(){bodies[2], bodies[2]}
			case 44:
				// chain names never seen by the process: the global chain registry is written by both builders
				chainSeq++
				na, nb := fmt.Sprintf("vta%d", chainSeq), fmt.Sprintf("vtb%d", chainSeq)
				plugins.RegisterTransformation(na, func(s string) (string, bool, error) { return s + "A", true, nil })
				plugins.RegisterTransformation(nb, func(s string) (string, bool, error) { return s + "B", true, nil })
				ruleA := fmt.Sprintf("SecRule ARGS:q \"@streq vA\" \"id:1,phase:1,pass,log,t:none,t:%s\"\n", na)
				ruleB := fmt.Sprintf("SecRule ARGS:q \"@streq vB\" \"id:2,phase:1,pass,log,t:none,t:%s\"\n", nb)
				buildClose := func(conf string) func() {
					return func() {
						w2, err := scen.Build("SecRuleEngine On\n" + conf)
						if err != nil {
							panic("chain WAF: " + err.Error())
						}
						scen.Close(w2)
					}
				}
				chosen = []func(){buildClose(ruleA), buildClose(ruleB)}
				chainConf = "SecRuleEngine On\n" + ruleA + ruleB
			case 24:
				// each thread runs its transaction twice; the pool shim hands the object a
				// thread has closed to whichever thread asks next
				vrt.PoolMode = 1
				defer func() { vrt.PoolMode = 0 }()
				chosen = []func(){
					func() { out[0] = outcome(wx, 0); out[0] = outcome(wx, 0) },
					func() { out[1] = outcome(wx, 1); out[1] = outcome(wx, 1) },
				}
			case 66:
				// pattern-cache keys that agree on their first ~200 bytes: a builder must still get the automaton of its own list
				chainSeq++
				common := strings.Repeat("commonword ", 20)
				confA := fmt.Sprintf("SecRuleEngine On\nSecRule ARGS:q \"@pm %salpha%d\" \"id:1,phase:1,deny,status:403\"\n", common, chainSeq)
				confB := fmt.Sprintf("SecRuleEngine On\nSecRule ARGS:q \"@pm %sbeta%d\" \"id:1,phase:1,deny,status:403\"\n", common, chainSeq)
				built = make([]coraza.WAF, 2)
				words = [2]string{fmt.Sprintf("alpha%d", chainSeq), fmt.Sprintf("beta%d", chainSeq)}
				mk := func(i int, conf string) func() {
					return func() {
						w2, err := scen.Build(conf)
						if err != nil {
							panic("phrase WAF: " + err.Error())
						}
						built[i] = w2
					}
				}
				chosen = []func(){mk(0, confA), mk(1, confB)}
			case 55:
				scen.YieldBetweenCalls = true
				defer func() { scen.YieldBetweenCalls = false }()
				chosen = []func(){
					func() { out[0] = wideOutcome(wide, 0) },
					func() { out[1] = wideOutcome(wide, 1) },
				}
			case 3:
				chosen = bodies
			case 12:
				chosen = []func(){bodies[0], bodies[2]}
			}
			// shard: worker k takes the executions whose first two choices hash to k
			res := sched.Run(cx, chosen...)
			ch := cx.Choices()
			audit := sortedAudit()
			c.Count("transitions", int64(res.Steps))
			c.Count("states", int64(len(cx.Points)))
			c.Count("traces_validated_against_impl", 1)
			c.Count("evaluations", 1)
			k := kase{sc.name, ch}
			report := func(sig, text string) {
				c.Violation(sig, fmt.Sprintf("scenario %q, build %q, schedule %v\n%s", sc.name, c.Variant, strings.Join(res.Trace, " "), text), k)
			}
			if r := c.RaceReports(); r != "" {
				report("data-race:"+runner.RaceSite(r), firstReport(r))
			}
			if res.Deadlock != "" {
				report("deadlock", res.Deadlock)
				poisoned = true
			}
			if len(res.Leaked) > 0 {
				report("lock-never-released:"+res.Leaked[0], fmt.Sprintf("every thread has returned but %d lock(s) are still held, taken in %v: the next user of such a lock blocks for ever", len(res.Leaked), res.Leaked))
				poisoned = true
			}
			for i, p := range res.Panics {
				if p != "" {
					report("panic:"+p, fmt.Sprintf("thread %d panicked: %s", i, p))
				}
			}
			if res.Deadlock == "" {
				want := soloAudit
				switch sc.threads {
				case 44:
					want = ""
					// both chains on the same value in one phase: each rule must see its own transformation
					wb, err := scen.Build(chainConf)
					if err != nil {
						report("panic:chain WAF "+err.Error(), err.Error())
					} else {
						o := scen.Run(wb, scen.Req{URI: "/p?q=v"}, scen.Options{})
						scen.Close(wb)
						if got := fmt.Sprint(len(o.Matched)); got != "2" {
							report("transformation-chain-ids-collide", fmt.Sprintf("rules with the two chains registered concurrently: %d of 2 fired\n%s", len(o.Matched), o.Core()))
						}
					}
				case 33:
					want = ""
				case 66:
					want = ""
					for i, w2 := range built {
						if w2 == nil {
							continue
						}
						for j, word := range words {
							o := scen.Run(w2, scen.Req{URI: "/p?q=" + word}, scen.Options{})
							if denied := o.Interruption != "-"; denied != (i == j) {
								report("waf-built-concurrently-uses-another-wafs-phrase-list", fmt.Sprintf("WAF %d (its list ends in %s) answers %s to q=%s", i, words[i], o.Interruption, word))
							}
						}
					}
				case 55:
					want = wideAudit
					for i := 0; i < 2; i++ {
						if out[i] != wideSolo[i] {
							report("cross-talk", fmt.Sprintf("exchange %d under this schedule:\n%s--- alone:\n%s", i, out[i], wideSolo[i]))
						}
					}
				case 12:
					if out[0] != solo[0] {
						report("cross-talk", fmt.Sprintf("transaction 0 under this schedule:\n%s--- alone:\n%s", out[0], solo[0]))
					}
					want = ""
				default:
					for i := 0; i < 2 && sc.threads != 33 && sc.threads != 44; i++ {
						if out[i] != solo[i] {
							report("cross-talk", fmt.Sprintf("transaction %d under this schedule:\n%s--- alone:\n%s", i, out[i], solo[i]))
						}
					}
				}
				if sc.threads == 24 {
					want = "" // four records; per-thread outcomes are what is compared
				}
				if want != "" && audit != want {
					report("audit-records-differ", fmt.Sprintf("audit records under this schedule:\n%s\n--- alone:\n%s", audit, want))
				}
			}
			for _, w2 := range built {
				if w2 != nil {
					scen.Close(w2)
				}
			}
			c.Outcome(strings.Join(out, "|"))
			c.Distinct(fmt.Sprintf("%d:%v", si, ch))
			if c.WantSample() && len(ch) > 4 {
				var labels []string
				for _, p := range cx.Points {
					labels = append(labels, p.Label)
				}
				c.Sample(map[string]any{"scenario": sc.name, "schedule": strings.Join(res.Trace, " "), "scheduling_points": len(ch), "operations": labels})
			}
		})
		if st.Capped || c.Expired() {
			c.Incomplete(fmt.Sprintf("scenario %q: exploration cut (%d executions)", sc.name, st.Execs))
		}
		c.Note("scenario %q build %q: %d schedules, max depth %d, preemption bound %d", sc.name, c.Variant, st.Execs, st.MaxDepth, sc.bound)
	}
}

func firstReport(r string) string {
	lines := strings.Split(r, "\n")
	if len(lines) > 45 {
		lines = lines[:45]
	}
	return strings.Join(lines, "\n")
}

func replay(raw json.RawMessage) (bool, string) {
	return false, "C06 schedules are replayed by re-running the check (they need the -race harness): ./verif check C06 quick"
}
