package c03

// Independent encoders: nothing in this file calls into coraza (or into the
// stdlib decoders coraza relies on). Every encoder is total on its declared
// domain (ok* functions); outside the domain the case is not generated.

import (
	"fmt"
	"strings"
)

const hexU = "0123456789ABCDEF"
const hexL = "0123456789abcdef"

func pct(b byte) string  { return string([]byte{'%', hexU[b>>4], hexU[b&15]}) }
func pctL(b byte) string { return string([]byte{'%', hexL[b>>4], hexL[b&15]}) }

func isAlnum(b byte) bool {
	return b >= 'a' && b <= 'z' || b >= 'A' && b <= 'Z' || b >= '0' && b <= '9'
}

func isHex(b byte) bool {
	return b >= '0' && b <= '9' || b >= 'a' && b <= 'f' || b >= 'A' && b <= 'F'
}

// urlencoded component encoders -------------------------------------------------
//
//	pct    : every byte outside [A-Za-z0-9-_.~] becomes %XX           (RFC 3986 strict)
//	plus   : like pct but space becomes '+', hex digits in lower case  (HTML form encoding)
//	sloppy : only what a single lenient decode needs: '&' '=' '+' '#' space, controls,
//	         non-ASCII, and a '%' that is followed by two hex digits in the output;
//	         a '%' that cannot be read as an escape is left raw (as sloppy clients do)

func encPct(s string, plus bool) string {
	var sb strings.Builder
	for i := 0; i < len(s); i++ {
		b := s[i]
		switch {
		case isAlnum(b) || b == '-' || b == '_' || b == '.' || b == '~':
			sb.WriteByte(b)
		case b == ' ' && plus:
			sb.WriteByte('+')
		case plus:
			sb.WriteString(pctL(b)) // the form style writes lower-case hex digits
		default:
			sb.WriteString(pct(b))
		}
	}
	return sb.String()
}

func encSloppy(s string) string {
	// first pass: everything but '%'
	parts := make([]string, len(s))
	for i := 0; i < len(s); i++ {
		b := s[i]
		switch {
		case b == '%':
			parts[i] = "%" // decided below
		case b == '&' || b == '=' || b == '+' || b == '#' || b <= ' ' || b >= 0x7f:
			parts[i] = pct(b)
		default:
			parts[i] = string(b)
		}
	}
	// second pass, right to left: a raw '%' must not be followed by two hex digits
	out := ""
	for i := len(s) - 1; i >= 0; i-- {
		if s[i] == '%' && len(out) >= 2 && isHex(out[0]) && isHex(out[1]) {
			out = "%25" + out
		} else {
			out = parts[i] + out
		}
	}
	return out
}

func encComponent(style, s string) string {
	switch style {
	case "plus":
		return encPct(s, true)
	case "sloppy":
		return encSloppy(s)
	}
	return encPct(s, false)
}

// encForm joins name=value pairs with '&'.
func encForm(style string, items []Item) string {
	var sb strings.Builder
	for i, it := range items {
		if i > 0 {
			sb.WriteByte('&')
		}
		sb.WriteString(encComponent(style, it.Name))
		sb.WriteByte('=')
		sb.WriteString(encComponent(style, it.Value))
	}
	return sb.String()
}

// headers -------------------------------------------------------------------------

func isTokenByte(b byte) bool {
	return isAlnum(b) || strings.IndexByte("!#$%&'*+-.^_`|~", b) >= 0
}

func okToken(s string) bool {
	if s == "" {
		return false
	}
	for i := 0; i < len(s); i++ {
		if !isTokenByte(s[i]) {
			return false
		}
	}
	return true
}

// okFieldValue: HTTP field-content (no CTLs, no surrounding whitespace; obs-text allowed).
func okFieldValue(s string) bool {
	for i := 0; i < len(s); i++ {
		if s[i] < ' ' || s[i] == 0x7f {
			return false
		}
	}
	return s == "" || s[0] != ' ' && s[len(s)-1] != ' '
}

func okHeader(it Item) bool {
	if !okToken(it.Name) || !okFieldValue(it.Value) {
		return false
	}
	switch strings.ToLower(it.Name) {
	case "cookie", "content-type":
		return false
	}
	return true
}

// cookies -------------------------------------------------------------------------

// okCookie: the name is a token; the value is anything a user agent can put
// between '=' and the next ';' without it being trimmed away: no ';', no CTLs,
// no surrounding whitespace. Cookies carry no escaping, so nothing is encoded.
func okCookie(it Item) bool {
	if !okToken(it.Name) || strings.ContainsRune(it.Name, '=') {
		return false
	}
	return okFieldValue(it.Value) && !strings.Contains(it.Value, ";")
}

func encCookies(style string, items []Item) [][2]string {
	var hs [][2]string
	switch style {
	case "multi":
		for _, it := range items {
			hs = append(hs, [2]string{"Cookie", it.Name + "=" + it.Value})
		}
	case "lower":
		parts := make([]string, len(items))
		for i, it := range items {
			parts[i] = it.Name + "=" + it.Value
		}
		if len(parts) > 0 {
			hs = append(hs, [2]string{"cookie", strings.Join(parts, "; ")})
		}
	default:
		sep := "; "
		if style == "semi" {
			sep = ";"
		}
		parts := make([]string, len(items))
		for i, it := range items {
			parts[i] = it.Name + "=" + it.Value
		}
		if len(parts) > 0 {
			hs = append(hs, [2]string{"Cookie", strings.Join(parts, sep)})
		}
	}
	return hs
}

// multipart -----------------------------------------------------------------------

const boundary = "BnD7x"

func okMultipart(it Item) bool {
	for _, s := range []string{it.Name, it.Sub, it.Value} {
		if strings.ContainsAny(s, "\r\n") || strings.Contains(s, "--"+boundary) {
			return false
		}
	}
	// backslash escaping inside a quoted-string is only unambiguous for '"' and '\\'
	return true
}

func quoteParam(s string) string {
	var sb strings.Builder
	sb.WriteByte('"')
	for i := 0; i < len(s); i++ {
		if s[i] == '"' || s[i] == '\\' {
			sb.WriteByte('\\')
		}
		sb.WriteByte(s[i])
	}
	sb.WriteByte('"')
	return sb.String()
}

// fileContent is the content of the i-th file part: i+1 bytes.
func fileContent(i int) string { return strings.Repeat("z", i+1) }

// encMultipart: Kind 'F' items are files (Sub = filename), others are fields.
// Style "tok" writes parameter values that are tokens without quotes and the
// header name in lower case.
func encMultipart(style string, items []Item) string {
	var sb strings.Builder
	param := quoteParam
	hdr := "Content-Disposition"
	if style == "tok" {
		hdr = "content-disposition"
		param = func(s string) string {
			if okToken(s) {
				return s
			}
			return quoteParam(s)
		}
	}
	for i, it := range items {
		sb.WriteString("--" + boundary + "\r\n")
		sb.WriteString(hdr + ": form-data; name=" + param(it.Name))
		if it.Kind == "F" {
			sb.WriteString("; filename=" + param(it.Sub))
			sb.WriteString("\r\nContent-Type: application/octet-stream")
			sb.WriteString("\r\n\r\n" + fileContent(i) + "\r\n")
			continue
		}
		sb.WriteString("\r\n\r\n" + it.Value + "\r\n")
	}
	sb.WriteString("--" + boundary + "--\r\n")
	return sb.String()
}

// JSON ----------------------------------------------------------------------------

func validUTF8(s string) bool {
	for _, r := range s {
		if r == 0xFFFD {
			return false
		}
	}
	return true
}

func okJSON(it Item) bool { return validUTF8(it.Name) && validUTF8(it.Sub) && validUTF8(it.Value) }

// jsonString: style "min" escapes only what RFC 8259 requires; style "u" writes
// every non-alphanumeric code point as \uXXXX.
func jsonString(style, s string) string {
	var sb strings.Builder
	sb.WriteByte('"')
	for _, r := range s {
		switch {
		case style == "u" && !(r < 0x80 && isAlnum(byte(r))) && r < 0x10000:
			fmt.Fprintf(&sb, `\u%04x`, r)
		case r == '"' || r == '\\':
			sb.WriteByte('\\')
			sb.WriteRune(r)
		case r < 0x20:
			fmt.Fprintf(&sb, `\u%04x`, r)
		default:
			sb.WriteRune(r)
		}
	}
	sb.WriteByte('"')
	return sb.String()
}

// encJSON writes one object; Kind "n" items are written as {"Name":{"Sub":"Value"}},
// Kind "l" as {"Name":["Value"]}, Kind "r" as {"Name":Value} with Value a JSON literal,
// Kind "e" / "E" as {"Name":{}} / {"Name":[ ]} (nothing to read, and nothing of it may
// stick to the members that follow).
func encJSON(style string, items []Item) string {
	var sb strings.Builder
	if style == "toparr" {
		// the object is the only element of a top-level array
		return "[" + encJSON("min", items) + "]"
	}
	sb.WriteByte('{')
	for i, it := range items {
		if i > 0 {
			sb.WriteByte(',')
		}
		sb.WriteString(jsonString(style, it.Name))
		sb.WriteByte(':')
		switch it.Kind {
		case "n":
			sb.WriteString("{" + jsonString(style, it.Sub) + ":" + jsonString(style, it.Value) + "}")
		case "l":
			sb.WriteString("[" + jsonString(style, it.Value) + "]")
		case "r":
			sb.WriteString(it.Value) // a number / true / false literal
		case "e":
			sb.WriteString("{}") // a member without anything to flatten
		case "E":
			sb.WriteString("[ ]")
		default:
			sb.WriteString(jsonString(style, it.Value))
		}
	}
	sb.WriteByte('}')
	return sb.String()
}

// XML -----------------------------------------------------------------------------

func okXML(it Item) bool {
	if !validUTF8(it.Value) {
		return false
	}
	for i := 0; i < len(it.Value); i++ {
		if b := it.Value[i]; b < 0x20 && b != '\t' && b != '\n' && b != '\r' {
			return false
		}
	}
	return it.Name == "a" || it.Name == "A" // element / attribute names are not exposed to rules
}

// xmlText: style "min" uses the five predefined entities where needed; style
// "ref" writes every non-alphanumeric code point as a numeric character reference.
func xmlText(style, s string) string {
	var sb strings.Builder
	if style == "cdata" {
		return "<![CDATA[" + s + "]]>"
	}
	for _, r := range s {
		switch {
		case style == "ref" && !(r < 0x80 && isAlnum(byte(r))):
			fmt.Fprintf(&sb, "&#x%X;", r)
		case r == '&':
			sb.WriteString("&amp;")
		case r == '<':
			sb.WriteString("&lt;")
		case r == '>':
			sb.WriteString("&gt;")
		case r == '"':
			sb.WriteString("&quot;")
		default:
			sb.WriteRune(r)
		}
	}
	return sb.String()
}

// encXML: one child element per item; attr=true puts the value into an
// attribute, otherwise into the element's text.
func encXML(style string, attr bool, items []Item) string {
	var sb strings.Builder
	sb.WriteString("<r>")
	for _, it := range items {
		if attr {
			st := style
			if st == "cdata" {
				st = "min"
			}
			sb.WriteString("<e " + it.Name + "=\"" + xmlText(st, it.Value) + "\"/>")
		} else {
			sb.WriteString("<" + it.Name + ">" + xmlText(style, it.Value) + "</" + it.Name + ">")
		}
	}
	sb.WriteString("</r>")
	return sb.String()
}
