package c03

// Enumeration of the tier's finite space. A block fixes channel, style,
// content-type variant, setting and the items' names/kinds; the block's
// cases are the full product of the per-item value lists.

type block struct {
	tmpl     Case
	vals     [][]string // per item: candidate values (file items: candidate file names)
	allSites bool       // also offer order choices at read-side sites
}

func (b block) each(f func(Case)) {
	n := len(b.tmpl.Items)
	idx := make([]int, n)
	for {
		cs := b.tmpl
		cs.Items = make([]Item, n)
		copy(cs.Items, b.tmpl.Items)
		for i := range cs.Items {
			if cs.Items[i].Kind == "F" {
				cs.Items[i].Sub = b.vals[i][idx[i]]
			} else {
				cs.Items[i].Value = b.vals[i][idx[i]]
			}
		}
		if inDomain(cs) {
			f(cs)
		}
		i := n - 1
		for ; i >= 0; i-- {
			idx[i]++
			if idx[i] < len(b.vals[i]) {
				break
			}
			idx[i] = 0
		}
		if i < 0 {
			return
		}
	}
}

// inDomain: the encoder of the channel can carry every item.
func inDomain(cs Case) bool {
	for _, it := range cs.Items {
		ok := true
		switch cs.Chan {
		case "header":
			ok = okHeader(it)
		case "cookie":
			ok = okCookie(it)
		case "multipart":
			ok = okMultipart(it) && (it.Kind != "F" || it.Sub != "")
		case "json":
			ok = okJSON(it)
		case "xmlattr", "xmltext":
			ok = okXML(it)
		}
		if !ok {
			return false
		}
	}
	return true
}

// strs returns every concatenation of at most max symbols (including "").
func strs(sym []string, max int) []string {
	out := []string{""}
	level := []string{""}
	for n := 1; n <= max; n++ {
		var next []string
		for _, p := range level {
			for _, s := range sym {
				next = append(next, p+s)
			}
		}
		out = append(out, next...)
		level = next
	}
	// symbols such as "%41" make some concatenations coincide; keep the first
	seen := map[string]bool{}
	u := out[:0]
	for _, s := range out {
		if !seen[s] {
			seen[s] = true
			u = append(u, s)
		}
	}
	return u
}

// the alphabets
var (
	symWire = []string{"a", "A", "%", "+", "&", "=", ";", ".", " ", "\"", "\x00", "\xff", "%41"}
	symJSON = []string{"a", "A", "%", "+", "&", "=", ";", ".", " ", "\"", "\x00", "é", "%41", "\\", "\\u0041"}
	symXML  = []string{"a", "A", "%", "+", "&", "=", ";", ".", " ", "\"", "<", "é", "%41", "&amp;", "&#65;"}
	symPath = []string{"/", "a", "A", ".", ";", "=", "+"}
)

type combo struct {
	ch, style, ctype string
	set              Setting
}

func symbolsOf(ch string) []string {
	switch ch {
	case "json":
		return symJSON
	case "xmlattr", "xmltext":
		return symXML
	}
	return symWire
}

func namesOf(ch string, max int) []string {
	if ch == "xmlattr" || ch == "xmltext" {
		return []string{"a", "A"}
	}
	return strs(symbolsOf(ch), max)
}

func forEachBlock(thorough bool, emit func(block)) {
	// ---- 1. one item: every name x every value --------------------------------
	primary := []combo{
		{ch: "query", style: "pct"}, {ch: "query", style: "plus"}, {ch: "query", style: "sloppy"},
		{ch: "header"}, {ch: "cookie", style: "semi-sp"},
		{ch: "urlenc", style: "pct"}, {ch: "urlenc", style: "plus"}, {ch: "urlenc", style: "sloppy"},
		{ch: "multipart"}, {ch: "multipart", style: "file"}, {ch: "multipart", style: "tok"}, {ch: "multipart", style: "file-tok"},
		{ch: "json", style: "min"}, {ch: "json", style: "u"},
		{ch: "xmlattr", style: "min"}, {ch: "xmlattr", style: "ref"},
		{ch: "xmltext", style: "min"}, {ch: "xmltext", style: "ref"}, {ch: "xmltext", style: "cdata"},
		{ch: "json", style: "list"}, {ch: "json", style: "literal"}, {ch: "json", style: "toparr"},
	}
	secondary := []combo{
		{ch: "urlenc", style: "pct", ctype: "charset"}, {ch: "urlenc", style: "pct", ctype: "charset-nospace"},
		{ch: "urlenc", style: "pct", ctype: "charset-no-value"}, {ch: "multipart", ctype: "charset-no-value"},
		{ch: "urlenc", style: "pct", ctype: "case"}, {ch: "urlenc", style: "pct", ctype: "ctl"},
		{ch: "urlenc", style: "pct", ctype: "forcevar"}, {ch: "urlenc", style: "pct", ctype: "raw"},
		{ch: "urlenc", style: "pct", set: Setting{NoAccess: true}},
		{ch: "multipart", ctype: "quoted"}, {ch: "multipart", ctype: "case"}, {ch: "multipart", ctype: "ctl"},
		{ch: "multipart", style: "file", ctype: "quoted"}, {ch: "multipart", set: Setting{NoAccess: true}},
		{ch: "json", style: "min", ctype: "charset"}, {ch: "json", style: "min", ctype: "ctl"},
		{ch: "json", style: "min", set: Setting{NoAccess: true}},
		{ch: "xmlattr", style: "min", ctype: "text"}, {ch: "xmlattr", style: "min", ctype: "ctl"},
		{ch: "xmltext", style: "min", ctype: "text"}, {ch: "xmltext", style: "min", ctype: "ctl"},
		{ch: "xmltext", style: "min", set: Setting{NoAccess: true}},
	}
	one := func(cb combo, nameMax, valMax int) {
		vals := strs(symbolsOf(cb.ch), valMax)
		for _, n := range namesOf(cb.ch, nameMax) {
			it := Item{Name: n}
			style := cb.style
			switch {
			case cb.ch == "multipart" && cb.style == "file":
				it.Kind, style = "F", ""
			case cb.ch == "multipart" && cb.style == "file-tok":
				it.Kind, style = "F", "tok"
			case cb.ch == "json" && cb.style == "list":
				it.Kind, style = "l", "min"
			case cb.ch == "json" && cb.style == "literal":
				it.Kind, style = "r", "min"
				vals = []string{"0", "12", "-1.5e3", "1E400", "true", "false"}
			}
			emit(block{tmpl: Case{Chan: cb.ch, Style: style, CType: cb.ctype, Set: cb.set, Items: []Item{it}}, vals: [][]string{vals}})
		}
	}
	light := map[string]bool{"toparr": true, "plus": true, "u": true, "ref": true, "tok": true, "file-tok": true, "list": true, "cdata": true}
	for _, cb := range primary {
		switch {
		case thorough && (cb.ch == "query" || cb.ch == "urlenc") && cb.style != "plus":
			one(cb, 2, 3)
		case !thorough && light[cb.style]:
			one(cb, 2, 1) // second styles of a channel: every name, values of at most one symbol
		default:
			one(cb, 2, 2)
		}
	}
	for _, cb := range secondary {
		if thorough {
			one(cb, 2, 2)
		} else {
			one(cb, 1, 1)
		}
	}

	// ---- 2. two and three items: interacting names ---------------------------------
	type fam struct {
		cb     combo
		names  []Item // candidate (name, kind, sub) per position
		vals   []string
		vals3  []string
		fvals  []string // file names for "F" items
		limits []Setting
	}
	wireNames := items("a", "A", "", "%41", "a ", "a+", " a")
	wireVals := []string{"", "a", "A", "%41", "+", "&=", "\xff"}
	wireVals3 := []string{"", "a", "%41"}
	tokNames := items("a", "A", "%41", "a+", "a.")
	argLimits := []Setting{{}, {Limit: 1}, {Limit: 2}}
	bodyLimits := []Setting{{}, {BodyLimit: 9, BodyAction: "Reject"}, {BodyLimit: 9, BodyAction: "ProcessPartial"}, {MemLimit: 4}}
	jsonNames := append(items("a", "A", "", "a.a", "A.a", "%41", "\\u0041"),
		Item{Name: "a", Sub: "a", Kind: "n"}, Item{Name: "A", Sub: "a", Kind: "n"}, Item{Name: "a", Sub: "", Kind: "n"},
		Item{Name: "a", Sub: "a.a", Kind: "n"}, Item{Name: "a.a", Sub: "a", Kind: "n"}, Item{Name: "", Sub: "a", Kind: "n"},
		Item{Name: "a", Kind: "l"}, Item{Name: "a.0", Kind: ""}, Item{Name: "a", Sub: "0", Kind: "n"},
		Item{Name: "a", Kind: "e"}, Item{Name: "z", Kind: "E"})
	mpNames := append(items("a", "A", "", "%41", "a\""),
		Item{Name: "a", Kind: "F"}, Item{Name: "A", Kind: "F"}, Item{Name: "", Kind: "F"})
	fams := []fam{
		{cb: combo{ch: "query", style: "pct"}, names: wireNames, vals: wireVals, vals3: wireVals3, limits: argLimits},
		{cb: combo{ch: "query", style: "plus"}, names: wireNames, vals: wireVals, vals3: wireVals3},
		{cb: combo{ch: "query", style: "sloppy"}, names: wireNames, vals: wireVals, vals3: wireVals3, limits: argLimits[:2]},
		{cb: combo{ch: "header"}, names: tokNames, vals: wireVals, vals3: wireVals3},
		{cb: combo{ch: "cookie", style: "semi-sp"}, names: tokNames, vals: wireVals, vals3: wireVals3},
		{cb: combo{ch: "cookie", style: "semi"}, names: tokNames, vals: wireVals, vals3: wireVals3},
		{cb: combo{ch: "cookie", style: "multi"}, names: tokNames, vals: wireVals, vals3: wireVals3},
		{cb: combo{ch: "cookie", style: "lower"}, names: tokNames, vals: wireVals3, vals3: wireVals3},
		{cb: combo{ch: "urlenc", style: "pct"}, names: wireNames, vals: wireVals, vals3: wireVals3, limits: append(bodyLimits, Setting{Limit: 1})},
		{cb: combo{ch: "urlenc", style: "plus"}, names: wireNames, vals: wireVals, vals3: wireVals3},
		{cb: combo{ch: "urlenc", style: "sloppy"}, names: wireNames, vals: wireVals, vals3: wireVals3},
		{cb: combo{ch: "urlenc", style: "pct", ctype: "forcevar"}, names: wireNames, vals: wireVals3, vals3: wireVals3},
		{cb: combo{ch: "multipart"}, names: mpNames, vals: wireVals, vals3: wireVals3, fvals: []string{"a", "A", "a.a", "%41", "a\"", "/a"}, limits: []Setting{{}, {Limit: 1}, {MemLimit: 4}}},
		{cb: combo{ch: "json", style: "min"}, names: jsonNames, vals: []string{"", "a", "A", "%41", "\\u0041", "é\""}, vals3: []string{"", "a", "\\u0041"}, limits: []Setting{{}, {Limit: 1}, {MemLimit: 4}}},
		{cb: combo{ch: "json", style: "toparr"}, names: jsonNames, vals: []string{"", "a", "\\u0041"}, vals3: []string{"a", "\\u0041"}},
		{cb: combo{ch: "json", style: "u"}, names: jsonNames, vals: []string{"", "a", "\\u0041"}, vals3: []string{"a", "\\u0041"}},
		{cb: combo{ch: "xmlattr", style: "min"}, names: items("a", "A"), vals: strs(symXML, 1), vals3: []string{"", "a", " a", "&amp;", "<"}},
		{cb: combo{ch: "xmltext", style: "min"}, names: items("a", "A"), vals: strs(symXML, 1), vals3: []string{"", "a", " a", "&amp;", "<"}},
		{cb: combo{ch: "multipart", style: "tok"}, names: mpNames, vals: wireVals3, vals3: wireVals3, fvals: []string{"a", "A", "a.a", "a\""}},
		{cb: combo{ch: "xmltext", style: "cdata"}, names: items("a"), vals: strs(symXML, 1), vals3: []string{"a", "&amp;"}},
		{cb: combo{ch: "xmlattr", style: "ref"}, names: items("a"), vals: strs(symXML, 1), vals3: []string{"a", "&amp;"}},
		{cb: combo{ch: "xmltext", style: "ref"}, names: items("a"), vals: strs(symXML, 1), vals3: []string{"a", "&amp;"}},
	}
	for _, f := range fams {
		limits := f.limits
		if len(limits) == 0 {
			limits = []Setting{{}}
		}
		pick := func(it Item, vals []string) []string {
			switch it.Kind {
			case "F":
				return f.fvals
			case "e", "E":
				return []string{""}
			}
			return vals
		}
		for _, set := range limits {
			for _, n1 := range f.names {
				for _, n2 := range f.names {
					t := Case{Chan: f.cb.ch, Style: f.cb.style, CType: f.cb.ctype, Set: set, Items: []Item{n1, n2}}
					emit(block{tmpl: t, vals: [][]string{pick(n1, f.vals), pick(n2, f.vals)}})
					if !thorough {
						continue
					}
					for _, n3 := range f.names {
						t := Case{Chan: f.cb.ch, Style: f.cb.style, CType: f.cb.ctype, Set: set, Items: []Item{n1, n2, n3}}
						emit(block{tmpl: t, vals: [][]string{pick(n1, f.vals3), pick(n2, f.vals3), pick(n3, f.vals3)}})
					}
				}
			}
		}
		// read-side order choices on a designated sub-family (default setting, two short values)
		for _, n1 := range f.names {
			for _, n2 := range f.names {
				if n1.Name == n2.Name {
					continue
				}
				t := Case{Chan: f.cb.ch, Style: f.cb.style, CType: f.cb.ctype, Items: []Item{n1, n2}}
				sub := []string{"a", "%41"}
				emit(block{tmpl: t, vals: [][]string{pick(n1, sub), pick(n2, sub)}, allSites: true})
			}
		}
	}

	// ---- 3. URI split -----------------------------------------------------------------
	max := 3
	if thorough {
		max = 4
	}
	for _, p := range strs(symPath, max) {
		emit(block{tmpl: Case{Chan: "path", Path: "/" + p, Items: []Item{}}, vals: nil})
		emit(block{tmpl: Case{Chan: "path", Path: "/" + p + "?a=1", Items: []Item{}}, vals: nil})
		emit(block{tmpl: Case{Chan: "path", Path: absPrefix + "/" + p + "?a=1", Items: []Item{}}, vals: nil})
	}
}

func items(names ...string) []Item {
	out := make([]Item, len(names))
	for i, n := range names {
		out[i] = Item{Name: n}
	}
	return out
}
