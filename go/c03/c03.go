// Package c03 decides C03: every piece of request data is visible to rules,
// decoded once, never dropped (DESIGN.md §3 C03).
//
// A case is a list of (name, value) byte strings plus a channel (query string,
// header set, Cookie header, urlencoded / multipart / JSON / XML body), an
// encoder style and a setting. The case is encoded by the independent encoders
// of enc.go, pushed through a real transaction, and read back through one
// `SecRule <VARIABLE> "@unconditionalMatch"` rule per documented variable.
package c03

import (
	"encoding/json"
	"fmt"
	"sort"
	"strconv"
	"strings"

	coraza "github.com/corazawaf/coraza/v3"
	"github.com/corazawaf/coraza/v3/internal/verif/mc"
	"github.com/corazawaf/coraza/v3/internal/verif/probe"
	"github.com/corazawaf/coraza/v3/internal/verif/runner"
	"github.com/corazawaf/coraza/v3/internal/verif/scen"
	"github.com/corazawaf/coraza/v3/internal/verif/vrt"
)

func init() {
	runner.Register(&runner.Check{
		ID:    "C03",
		Level: "exploration",
		Rule: "case = (channel, encoder style, content-type variant, setting, list of <=3 (name,value) byte strings over a 13-symbol alphabet of reserved / " +
			"percent / raw bytes); every list within the tier's bounds is encoded by an independent encoder and executed on a real transaction; cases with " +
			">=2 distinct names are executed under every map-iteration order (within the deviation bound) of the sites that populate collections; " +
			"distinct_nontrivial = distinct cases whose read-back contained at least one item with a non-alphanumeric byte, a repeated or case-variant name, or an empty name/value",
		Assumptions: []string{
			"the encoders of go/c03/enc.go define what 'encoded' means: strict / form / sloppy percent-encoding, RFC 6265 cookie pairs, RFC 7578 multipart with backslash-quoted parameters, RFC 8259 JSON objects, XML 1.0 with entities or numeric references",
			"header names, cookie names and XML names are restricted to what the wire syntax can carry (tokens / XML names); JSON and XML strings to valid UTF-8",
			"JSON and XML processors are selected the documented way (phase-1 ctl:requestBodyProcessor rules of coraza.conf-recommended)",
			"map-order deviations at populating sites are bounded (quick 2, thorough unbounded with <=3 names); read-side sites are explored at the same bound on a designated sub-family only",
		},
		Run:    run,
		Replay: replay,
	})
}

// ---------------------------------------------------------------------------
// scenario vocabulary

// Item is one (name, value); Kind "" = field/argument, "F" = multipart file
// (Sub = file name, content = index+1 bytes), "n" = nested JSON member
// {"Name":{"Sub":"Value"}}.
type Item struct {
	Name, Sub, Value, Kind string
}

type itemJSON struct {
	Name  string `json:"name"`
	Sub   string `json:"sub,omitempty"`
	Value string `json:"value"`
	Kind  string `json:"kind,omitempty"`
}

// strings are stored Go-escaped so that raw bytes survive the replay file
func q(s string) string { t := strconv.QuoteToASCII(s); return t[1 : len(t)-1] }
func uq(s string) string {
	r, err := strconv.Unquote(`"` + s + `"`)
	if err != nil {
		return s
	}
	return r
}

func (it Item) MarshalJSON() ([]byte, error) {
	return json.Marshal(itemJSON{q(it.Name), q(it.Sub), q(it.Value), it.Kind})
}

func (it *Item) UnmarshalJSON(b []byte) error {
	var j itemJSON
	if err := json.Unmarshal(b, &j); err != nil {
		return err
	}
	*it = Item{uq(j.Name), uq(j.Sub), uq(j.Value), j.Kind}
	return nil
}

// Setting is the configuration dimension.
type Setting struct {
	Limit      int    `json:"args_limit,omitempty"` // SecArgumentsLimit (0 = default 1000)
	NoAccess   bool   `json:"no_body_access,omitempty"`
	BodyLimit  int    `json:"body_limit,omitempty"`  // SecRequestBodyLimit (0 = default)
	BodyAction string `json:"body_action,omitempty"` // Reject | ProcessPartial
	MemLimit   int    `json:"mem_limit,omitempty"`   // SecRequestBodyInMemoryLimit (0 = default): larger bodies are buffered in a file
}

// Case is one replayable scenario.
type Case struct {
	Chan  string  `json:"chan"`            // query header cookie urlenc multipart json xmlattr xmltext path
	Style string  `json:"style,omitempty"` // encoder style
	CType string  `json:"ctype,omitempty"` // content-type variant of body channels
	Set   Setting `json:"set"`
	Items []Item  `json:"items"`
	Path  string  `json:"path,omitempty"` // chan path only
}

type replayScenario struct {
	Case
	Choices []int  `json:"choices,omitempty"`
	AllSite bool   `json:"all_sites,omitempty"`
	Wire    string `json:"wire"` // human-readable rendering of what was sent (not used by replay)
}

// ---------------------------------------------------------------------------
// configuration

type varSpec struct {
	id   int
	name string // rule target
	mode string // kv | kvlower | v | names | single | err
}

var varSpecs = []varSpec{
	{1, "ARGS_GET", "kv"}, {2, "ARGS_POST", "kv"}, {3, "ARGS", "kv"},
	{4, "ARGS_GET_NAMES", "names"}, {5, "ARGS_POST_NAMES", "names"}, {6, "ARGS_NAMES", "names"},
	{7, "REQUEST_HEADERS", "kvlower"}, {8, "REQUEST_HEADERS_NAMES", "nameslower"},
	{9, "REQUEST_COOKIES", "kv"}, {10, "REQUEST_COOKIES_NAMES", "names"},
	{11, "FILES", "v"}, {12, "FILES_NAMES", "v"}, {13, "FILES_SIZES", "kv"},
	{14, "XML:/*", "v"}, {15, "XML://@*", "v"},
	{20, "REQUEST_BODY", "single"}, {21, "QUERY_STRING", "single"}, {22, "REQUEST_URI_RAW", "single"},
	{23, "REQUEST_URI", "single"}, {24, "REQUEST_FILENAME", "single"}, {25, "REQUEST_BASENAME", "single"},
	{26, "REQUEST_LINE", "single"}, {27, "REQBODY_PROCESSOR", "single"},
	{30, "REQBODY_ERROR", "err"}, {31, "URLENCODED_ERROR", "err"}, {32, "MULTIPART_STRICT_ERROR", "err"},
	{33, "INBOUND_DATA_ERROR", "err"}, {34, "REQBODY_PROCESSOR_ERROR", "err"},
}

var specByID = func() map[int]varSpec {
	m := map[int]varSpec{}
	for _, v := range varSpecs {
		m[v.id] = v
	}
	return m
}()

func conf(s Setting) string {
	var sb strings.Builder
	sb.WriteString("SecRuleEngine On\n")
	if s.NoAccess {
		sb.WriteString("SecRequestBodyAccess Off\n")
	} else {
		sb.WriteString("SecRequestBodyAccess On\n")
	}
	if s.Limit > 0 {
		fmt.Fprintf(&sb, "SecArgumentsLimit %d\n", s.Limit)
	}
	if s.BodyLimit > 0 {
		fmt.Fprintf(&sb, "SecRequestBodyLimit %d\nSecRequestBodyInMemoryLimit %d\nSecRequestBodyLimitAction %s\n", s.BodyLimit, s.BodyLimit, s.BodyAction)
	}
	if s.MemLimit > 0 {
		fmt.Fprintf(&sb, "SecRequestBodyInMemoryLimit %d\n", s.MemLimit)
	}
	// processor selection exactly as in coraza.conf-recommended, plus explicit forcing through X-Proc / X-Force
	sb.WriteString(`SecRule REQUEST_HEADERS:Content-Type "^(?:application(?:/soap\+|/)|text/)xml" "id:200000,phase:1,t:none,t:lowercase,pass,nolog,ctl:requestBodyProcessor=XML"` + "\n")
	sb.WriteString(`SecRule REQUEST_HEADERS:Content-Type "^application/json" "id:200001,phase:1,t:none,t:lowercase,pass,nolog,ctl:requestBodyProcessor=JSON"` + "\n")
	for i, p := range []string{"URLENCODED", "MULTIPART", "JSON", "XML", "RAW"} {
		fmt.Fprintf(&sb, `SecRule REQUEST_HEADERS:X-Proc "@streq %s" "id:%d,phase:1,pass,nolog,ctl:requestBodyProcessor=%s"`+"\n", p, 200010+i, p)
	}
	sb.WriteString(`SecRule REQUEST_HEADERS:X-Force "@streq 1" "id:200020,phase:1,pass,nolog,ctl:forceRequestBodyVariable=On"` + "\n")
	for _, v := range varSpecs {
		fmt.Fprintf(&sb, `SecRule %s "@unconditionalMatch" "id:%d,phase:2,pass,log"`+"\n", v.name, v.id)
	}
	return sb.String()
}

// ---------------------------------------------------------------------------
// request construction

const defaultPath = "/p"

// absPrefix starts the absolute-form request targets of the path channel.
const absPrefix = "http://h"

func ctypeHeader(cs Case) [][2]string {
	switch cs.Chan {
	case "urlenc":
		switch cs.CType {
		case "", "exact":
			return [][2]string{{"Content-Type", "application/x-www-form-urlencoded"}}
		case "charset":
			return [][2]string{{"Content-Type", "application/x-www-form-urlencoded; charset=UTF-8"}}
		case "charset-nospace":
			return [][2]string{{"Content-Type", "application/x-www-form-urlencoded;charset=UTF-8"}}
		case "charset-no-value":
			// what follows the media type is not the processor's business: a parameter a strict parser rejects
			return [][2]string{{"Content-Type", "application/x-www-form-urlencoded; charset"}}
		case "case":
			return [][2]string{{"content-type", "Application/X-WWW-Form-Urlencoded"}}
		case "ctl":
			return [][2]string{{"Content-Type", "text/plain"}, {"X-Proc", "URLENCODED"}}
		case "forcevar":
			return [][2]string{{"Content-Type", "text/plain"}, {"X-Force", "1"}}
		case "raw":
			return [][2]string{{"Content-Type", "text/plain"}, {"X-Proc", "RAW"}}
		}
	case "multipart":
		switch cs.CType {
		case "", "exact":
			return [][2]string{{"Content-Type", "multipart/form-data; boundary=" + boundary}}
		case "quoted":
			return [][2]string{{"Content-Type", `multipart/form-data; boundary="` + boundary + `"`}}
		case "charset-no-value":
			return [][2]string{{"Content-Type", "multipart/form-data; boundary=" + boundary + "; charset"}}
		case "case":
			return [][2]string{{"content-type", "Multipart/Form-Data; Boundary=" + boundary}}
		case "ctl":
			return [][2]string{{"Content-Type", "multipart/form-data; boundary=" + boundary}, {"X-Proc", "MULTIPART"}}
		}
	case "json":
		switch cs.CType {
		case "", "exact":
			return [][2]string{{"Content-Type", "application/json"}}
		case "charset":
			return [][2]string{{"Content-Type", "application/json; charset=utf-8"}}
		case "ctl":
			return [][2]string{{"Content-Type", "text/plain"}, {"X-Proc", "JSON"}}
		}
	case "xmlattr", "xmltext":
		switch cs.CType {
		case "", "exact":
			return [][2]string{{"Content-Type", "application/xml"}}
		case "text":
			return [][2]string{{"Content-Type", "text/xml; charset=utf-8"}}
		case "ctl":
			return [][2]string{{"Content-Type", "text/plain"}, {"X-Proc", "XML"}}
		}
	}
	return nil
}

// bodyGet is the fixed query argument sent along with every body case: the same
// name as the commonest body name, so ARGS has to keep both.
var bodyGet = Item{Name: "a", Value: "G"}

func request(cs Case) scen.Req {
	switch cs.Chan {
	case "query":
		uri := defaultPath
		if len(cs.Items) > 0 {
			uri += "?" + encForm(cs.Style, cs.Items)
		}
		return scen.Req{URI: uri}
	case "path":
		return scen.Req{URI: cs.Path}
	case "header":
		var hs [][2]string
		for _, it := range cs.Items {
			hs = append(hs, [2]string{it.Name, it.Value})
		}
		return scen.Req{URI: defaultPath, Headers: hs}
	case "cookie":
		return scen.Req{URI: defaultPath, Headers: encCookies(cs.Style, cs.Items)}
	}
	r := scen.Req{URI: defaultPath + "?" + encForm("pct", []Item{bodyGet}), Headers: ctypeHeader(cs), Method: "POST"}
	switch cs.Chan {
	case "urlenc":
		r.Body = encForm(cs.Style, cs.Items)
	case "multipart":
		r.Body = encMultipart(cs.Style, cs.Items)
	case "json":
		r.Body = encJSON(cs.Style, cs.Items)
	case "xmlattr":
		r.Body = encXML(cs.Style, true, cs.Items)
	case "xmltext":
		r.Body = encXML(cs.Style, false, cs.Items)
	}
	return r
}

func wire(r scen.Req) string {
	var sb strings.Builder
	m := r.Method
	if m == "" {
		m = "GET"
	}
	fmt.Fprintf(&sb, "%s %s", m, q(r.URI))
	for _, h := range r.Headers {
		fmt.Fprintf(&sb, " | %s: %s", q(h[0]), q(h[1]))
	}
	if r.Body != "" {
		fmt.Fprintf(&sb, " | body=%s", q(r.Body))
	}
	return sb.String()
}

// ---------------------------------------------------------------------------
// WAF cache

var wafs = map[string]coraza.WAF{}

func wafFor(s Setting) (coraza.WAF, error) {
	k := conf(s)
	if w, ok := wafs[k]; ok {
		return w, nil
	}
	w, err := scen.Build(k)
	if err != nil {
		return nil, err
	}
	wafs[k] = w
	return w, nil
}

// ---------------------------------------------------------------------------
// execution

// populating sites: where parsed input is moved into collections.
func populatingSite(site string) bool {
	return !strings.HasPrefix(site, "internal/collections/")
}

type verdict struct {
	sig, what string
	signalled bool
	why       string // which signal
	outcome   string
}

// execute runs cs once per map order and returns the first violation per
// signature (with the choices that produced it).
func execute(w coraza.WAF, cs Case, rq scen.Req, exp *expect, bound int, allSites bool, visit func(v verdict, choices []int)) mc.Stats {
	body := func(cx *mc.Ctx) {
		o := scen.Run(w, rq, scen.Options{Vars: allSites})
		v := judge(cs, exp, o)
		var ch []int
		if cx != nil {
			ch = cx.Choices()
		}
		visit(v, ch)
	}
	if distinctNames(cs) < 2 {
		body(nil)
		return mc.Stats{Execs: 1}
	}
	saved := vrt.MapSiteFilter
	if !allSites {
		vrt.MapSiteFilter = populatingSite
	}
	defer func() { vrt.MapSiteFilter = saved }()
	return mc.Explore(mc.Options{Bound: bound, MaxExecs: 5000}, body)
}

func distinctNames(cs Case) int {
	m := map[string]bool{}
	for _, it := range cs.Items {
		m[it.Name] = true
	}
	return len(m)
}

func run(c *runner.Ctx) {
	bound := 2
	if c.Thorough() {
		bound = -1
	}
	idx := 0
	forEachBlock(c.Thorough(), func(b block) {
		idx++
		if !c.Mine(idx) || c.Expired() {
			return
		}
		w, err := wafFor(b.tmpl.Set)
		if err != nil {
			c.Violation("build:"+err.Error(), "configuration of the generator does not compile: "+err.Error(), b.tmpl)
			return
		}
		b.each(func(cs Case) {
			if c.Expired() {
				return
			}
			all := b.allSites
			bd := bound
			if all && bd < 0 {
				bd = 2
			} else if all {
				bd = 1
			}
			c.Count("cases", 1)
			c.Count("cases_"+cs.Chan, 1)
			rq := request(cs)
			exp := expectation(cs, rq)
			c.Count("skipped_unspecified", int64(len(exp.skip)-1))
			nontrivial := nonTrivial(cs)
			first := true
			st := execute(w, cs, rq, exp, bd, all, func(v verdict, ch []int) {
				c.Outcome(v.outcome)
				if v.signalled {
					c.Count("executions_with_error_signal", 1)
					c.Count("signal_"+cs.Chan+"_"+v.why, 1)
					if cs.Chan == "multipart" && !hasNUL(cs) {
						c.Count("signal_multipart_without_NUL_in_a_parameter", 1)
					}
					if c.Worker == 0 && c.Get("signal_"+cs.Chan+"_"+v.why) == 1 {
						c.Note("first signalled case of worker %d (%s/%s): %s", c.Worker, cs.Chan, v.why, wire(rq))
					}
				}
				if first && c.WantSample() && nontrivial && len(cs.Items) > 1 {
					c.Sample(map[string]any{"case": cs, "wire": wire(rq), "outcome": v.outcome})
				}
				first = false
				if v.sig != "" {
					c.Violation(v.sig, v.what, replayScenario{Case: cs, Choices: ch, AllSite: all, Wire: wire(rq)})
				}
			})
			c.Count("evaluations", int64(st.Execs))
			if st.Execs > 1 {
				c.Count("cases_with_order_choice", 1)
			}
			if st.Capped {
				c.Incomplete("execution cap hit in one case")
			}
			if nontrivial {
				b, _ := json.Marshal(cs)
				c.Distinct(string(b))
			}
		})
	})
	c.Extra("deviation_bound", bound)
	c.Extra("alphabet_wire", quoteAll(symWire))
	c.Extra("alphabet_json", quoteAll(symJSON))
	c.Extra("alphabet_xml", quoteAll(symXML))
	c.Extra("variables_read_back", varNames())
}

func hasNUL(cs Case) bool {
	for _, it := range cs.Items {
		if strings.Contains(it.Name+it.Sub, "\x00") {
			return true
		}
	}
	return false
}

func quoteAll(l []string) []string {
	out := make([]string, len(l))
	for i, s := range l {
		out[i] = q(s)
	}
	return out
}

func varNames() []string {
	var out []string
	for _, v := range varSpecs {
		out = append(out, v.name)
	}
	return out
}

func nonTrivial(cs Case) bool {
	seen := map[string]bool{}
	for _, it := range cs.Items {
		for _, s := range []string{it.Name, it.Sub, it.Value} {
			for i := 0; i < len(s); i++ {
				if !isAlnum(s[i]) {
					return true
				}
			}
		}
		if it.Name == "" || it.Value == "" {
			return true
		}
		l := strings.ToLower(it.Name)
		if seen[l] {
			return true
		}
		seen[l] = true
	}
	return cs.Chan == "path"
}

func replay(raw json.RawMessage) (bool, string) {
	var rs replayScenario
	if err := json.Unmarshal(raw, &rs); err != nil {
		return false, err.Error()
	}
	w, err := scen.Build(conf(rs.Set))
	if err != nil {
		return true, "build: " + err.Error()
	}
	defer scen.Close(w)
	rq := request(rs.Case)
	exp := expectation(rs.Case, rq)
	var v verdict
	saved := vrt.MapSiteFilter
	if !rs.AllSite {
		vrt.MapSiteFilter = populatingSite
	}
	defer func() { vrt.MapSiteFilter = saved }()
	var o *probe.Outcome
	mc.Replay(rs.Choices, func(cx *mc.Ctx) {
		o = scen.Run(w, rq, scen.Options{Vars: rs.AllSite})
		v = judge(rs.Case, exp, o)
	})
	var sb strings.Builder
	fmt.Fprintf(&sb, "sent: %s\nmap-order choices: %v\n", wire(rq), rs.Choices)
	fmt.Fprintf(&sb, "observed:\n%s", v.outcome)
	if v.sig != "" {
		fmt.Fprintf(&sb, "VIOLATES [%s]\n%s\n", v.sig, v.what)
	} else {
		sb.WriteString("no violation\n")
	}
	return v.sig != "", sb.String()
}

// ---------------------------------------------------------------------------
// helpers

func jsonMarshal(v any) (string, error) {
	b, err := json.Marshal(v)
	return string(b), err
}

type kv struct{ k, v string }

func (p kv) String() string { return q(p.k) + "=" + q(p.v) }

func sortKV(l []kv) {
	sort.Slice(l, func(i, j int) bool {
		if l[i].k != l[j].k {
			return l[i].k < l[j].k
		}
		return l[i].v < l[j].v
	})
}

func fmtKVs(l []kv) string {
	s := make([]string, len(l))
	for i, p := range l {
		s[i] = p.String()
	}
	return "[" + strings.Join(s, ", ") + "]"
}
