package c03

import (
	"fmt"
	"net/url"
	"regexp"
	"sort"
	"strconv"
	"strings"

	"github.com/corazawaf/coraza/v3/internal/verif/probe"
	"github.com/corazawaf/coraza/v3/internal/verif/scen"
)

var digits = regexp.MustCompile(`[0-9]+`)

// expect is what the property text demands to be readable for one case.
type expect struct {
	coll   map[string][]kv   // collection variables (normalised by the variable's mode, sorted)
	single map[string]string // scalar variables
	skip   map[string]string // variable -> why it is not asserted in this case
	opt    map[string][]kv   // synthetic entries that may additionally be readable (array lengths)
}

func (e *expect) add(name string, k, v string) { e.coll[name] = append(e.coll[name], kv{k, v}) }

// safePath: paths whose bytes need no escaping, so that "the path" has one reading.
func safePath(p string) bool {
	for i := 0; i < len(p); i++ {
		if !(isAlnum(p[i]) || strings.IndexByte("/.-_~;=+,:@$", p[i]) >= 0) {
			return false
		}
	}
	return strings.HasPrefix(p, "/")
}

func expectation(cs Case, rq scen.Req) *expect {
	e := &expect{coll: map[string][]kv{}, single: map[string]string{}, skip: map[string]string{}, opt: map[string][]kv{}}
	method := rq.Method
	if method == "" {
		method = "GET"
	}
	// request line and URI split
	e.single["REQUEST_URI_RAW"] = rq.URI
	e.single["REQUEST_LINE"] = method + " " + rq.URI + " HTTP/1.1"
	path, query := rq.URI, ""
	if i := strings.IndexByte(rq.URI, '?'); i >= 0 {
		path, query = rq.URI[:i], rq.URI[i+1:]
	}
	absolute := strings.HasPrefix(path, absPrefix)
	path = strings.TrimPrefix(path, absPrefix)
	e.single["QUERY_STRING"] = query
	if absolute {
		// variables.go documents REQUEST_URI as "without the domain name", the repository's
		// TestTxProcessURI demands the domain name: not asserted.
		e.skip["REQUEST_URI"] = "documentation and the repository's tests disagree for absolute-form request targets"
	} else if u, err := url.ParseRequestURI(rq.URI); err == nil && u.String() == rq.URI {
		e.single["REQUEST_URI"] = rq.URI
	} else {
		e.skip["REQUEST_URI"] = "net/url re-encodes this URI (documented normalisation)"
	}
	if safePath(path) {
		e.single["REQUEST_FILENAME"] = path
		if strings.HasSuffix(path, "/") {
			e.skip["REQUEST_BASENAME"] = "basename of a path ending in '/' is not specified"
		} else {
			e.single["REQUEST_BASENAME"] = path[strings.LastIndexByte(path, '/')+1:]
		}
	} else {
		e.skip["REQUEST_FILENAME"] = "decoding of escaped paths is not specified"
		e.skip["REQUEST_BASENAME"] = "decoding of escaped paths is not specified"
	}
	e.skip["REQBODY_PROCESSOR"] = "informational"

	// headers: everything handed to AddRequestHeader
	for _, h := range rq.Headers {
		e.add("REQUEST_HEADERS", strings.ToLower(h[0]), h[1])
		e.add("REQUEST_HEADERS_NAMES", "", strings.ToLower(h[0]))
	}

	var get, post []kv
	switch cs.Chan {
	case "query":
		for _, it := range cs.Items {
			get = append(get, kv{it.Name, it.Value})
		}
	case "cookie":
		for _, it := range cs.Items {
			e.add("REQUEST_COOKIES", it.Name, it.Value)
			e.add("REQUEST_COOKIES_NAMES", "", it.Name)
		}
	case "header":
	case "path":
		if strings.HasSuffix(rq.URI, "?a=1") {
			get = append(get, kv{"a", "1"})
		}
	default:
		get = append(get, kv{bodyGet.Name, bodyGet.Value})
		if cs.Set.NoAccess {
			break // the body is not handed to the transaction
		}
		switch cs.Chan {
		case "urlenc":
			if cs.CType != "raw" {
				for _, it := range cs.Items {
					post = append(post, kv{it.Name, it.Value})
				}
			}
			e.single["REQUEST_BODY"] = rq.Body
		case "multipart":
			for i, it := range cs.Items {
				if it.Kind == "F" {
					e.add("FILES", "", it.Sub)
					e.add("FILES_NAMES", "", it.Name)
					e.add("FILES_SIZES", it.Sub, strconv.Itoa(len(fileContent(i))))
				} else {
					post = append(post, kv{it.Name, it.Value})
				}
			}
			e.skip["REQUEST_BODY"] = "documented as available for urlencoded bodies only"
		case "json":
			for _, it := range cs.Items {
				if it.Kind == "e" || it.Kind == "E" {
					continue // an empty container carries no argument
				}
				post = append(post, kv{jsonKey(cs, it), it.Value})
				if it.Kind == "l" {
					// coraza additionally publishes the length of every array under the array's key
					for _, v := range []string{"ARGS_POST", "ARGS"} {
						e.opt[v] = append(e.opt[v], kv{jsonPrefix(cs) + it.Name, "1"})
					}
					for _, v := range []string{"ARGS_POST_NAMES", "ARGS_NAMES"} {
						e.opt[v] = append(e.opt[v], kv{"", jsonPrefix(cs) + it.Name})
					}
				}
			}
			if cs.Style == "toparr" {
				for _, v := range []string{"ARGS_POST", "ARGS"} {
					e.opt[v] = append(e.opt[v], kv{"json", "1"})
				}
				for _, v := range []string{"ARGS_POST_NAMES", "ARGS_NAMES"} {
					e.opt[v] = append(e.opt[v], kv{"", "json"})
				}
			}
			e.skip["REQUEST_BODY"] = "documented as available for urlencoded bodies only"
		case "xmlattr":
			for _, it := range cs.Items {
				e.add("XML://@*", "", it.Value)
			}
			e.skip["REQUEST_BODY"] = "documented as available for urlencoded bodies only"
		case "xmltext":
			for _, it := range cs.Items {
				if t := strings.TrimSpace(it.Value); t != "" {
					e.add("XML:/*", "", t)
				}
			}
			e.skip["REQUEST_BODY"] = "documented as available for urlencoded bodies only"
		}
	}
	for _, p := range get {
		e.add("ARGS_GET", p.k, p.v)
		e.add("ARGS", p.k, p.v)
		e.add("ARGS_GET_NAMES", "", p.k)
		e.add("ARGS_NAMES", "", p.k)
	}
	for _, p := range post {
		e.add("ARGS_POST", p.k, p.v)
		e.add("ARGS", p.k, p.v)
		e.add("ARGS_POST_NAMES", "", p.k)
		e.add("ARGS_NAMES", "", p.k)
	}
	for _, v := range varSpecs {
		switch v.mode {
		case "names", "nameslower":
			e.coll[v.name] = uniq(e.coll[v.name])
		default:
			sortKV(e.coll[v.name])
		}
	}
	return e
}

func uniq(l []kv) []kv {
	sortKV(l)
	out := l[:0]
	for i, p := range l {
		if i == 0 || p != l[i-1] {
			out = append(out, p)
		}
	}
	return out
}

// observe turns the fired read-back rules into per-variable lists.
func observe(o *probe.Outcome) (coll map[string][]kv, fired map[string]bool) {
	coll = map[string][]kv{}
	fired = map[string]bool{}
	for _, m := range o.Matched {
		sp, ok := specByID[m.ID]
		if !ok {
			continue
		}
		fired[sp.name] = true
		for _, d := range m.Datas {
			// "VAR|key|value": variable names and the alphabet's keys contain no '|'
			i := strings.IndexByte(d, '|')
			rest := d[i+1:]
			j := strings.IndexByte(rest, '|')
			k, v := rest[:j], rest[j+1:]
			switch sp.mode {
			case "kvlower":
				k = strings.ToLower(k)
			case "v", "single", "err":
				k = ""
			case "names":
				k = ""
			case "nameslower":
				k, v = "", strings.ToLower(v)
			}
			coll[sp.name] = append(coll[sp.name], kv{k, v})
		}
	}
	for _, sp := range varSpecs {
		if sp.mode == "names" || sp.mode == "nameslower" {
			coll[sp.name] = uniq(coll[sp.name])
		} else {
			sortKV(coll[sp.name])
		}
	}
	return coll, fired
}

func judge(cs Case, exp *expect, o *probe.Outcome) verdict {
	var v verdict
	got, _ := observe(o)
	var ob strings.Builder
	if o.Panic != "" {
		fmt.Fprintf(&ob, "PANIC %s\n", o.Panic)
	}
	fmt.Fprintf(&ob, "interruption=%s\n", o.Interruption)
	for _, sp := range varSpecs {
		if l := got[sp.name]; len(l) > 0 && !(len(l) == 1 && l[0] == kv{}) {
			fmt.Fprintf(&ob, "%s %s\n", sp.name, fmtKVs(l))
		}
	}
	v.outcome = ob.String()
	if o.Panic != "" {
		v.sig = "panic:" + digits.ReplaceAllString(o.Panic, "N")
		v.what = "panic while processing the request: " + o.Panic
		return v
	}
	if o.Interruption != "-" {
		v.signalled = true
		v.why = "interruption"
	}
	for _, sp := range varSpecs {
		if sp.mode != "err" {
			continue
		}
		for _, p := range got[sp.name] {
			if p.v != "" && p.v != "0" {
				v.signalled = true
				v.why = sp.name
			}
		}
	}
	if v.signalled {
		return v // an error variable or an interruption says so: the property demands nothing more
	}
	for _, sp := range varSpecs {
		if sp.mode == "err" {
			continue
		}
		if _, skipped := exp.skip[sp.name]; skipped {
			continue
		}
		var want, have []kv
		if sp.mode == "single" {
			want = []kv{{"", exp.single[sp.name]}}
			have = got[sp.name]
			if len(have) == 0 {
				have = []kv{{"", ""}}
			}
		} else {
			want, have = exp.coll[sp.name], got[sp.name]
		}
		if equalKV(want, have) {
			continue
		}
		missing, extra := diff(want, have)
		_, extra = diff(exp.opt[sp.name], extra) // tolerated synthetic entries
		if len(missing) == 0 && len(extra) == 0 {
			continue
		}
		v.sig = classify(cs, sp, missing, extra, have, got)
		v.what = fmt.Sprintf("%s: sent %s, readable %s (missing %s, unexpected %s); no error variable, no interruption",
			sp.name, fmtKVs(want), fmtKVs(have), fmtKVs(missing), fmtKVs(extra))
		return v
	}
	// second read path: the collection as dumped through the plugin interface must agree with what the rule saw
	if o.Vars != nil {
		for _, sp := range varSpecs {
			if sp.mode != "kv" {
				continue
			}
			var dump []string
			found := false
			for k, l := range o.Vars {
				if strings.HasSuffix(k, "/"+sp.name) {
					dump, found = l, true
				}
			}
			var seen []string
			for _, p := range got[sp.name] {
				if p.k != "" || p.v != "" {
					seen = append(seen, p.k+"="+p.v)
				}
			}
			sort.Strings(seen)
			if !found && len(seen) == 0 {
				continue
			}
			if strings.Join(seen, "\x01") != strings.Join(dump, "\x01") {
				v.sig = "readpath/" + sp.name + ":rule-view-and-plugin-view-differ"
				v.what = fmt.Sprintf("%s: the rule read %q, Variables().FindAll() gives %q", sp.name, seen, dump)
				return v
			}
		}
	}
	return v
}

func equalKV(a, b []kv) bool {
	if len(a) != len(b) {
		return false
	}
	for i := range a {
		if a[i] != b[i] {
			return false
		}
	}
	return true
}

// diff of sorted multisets.
func diff(want, have []kv) (missing, extra []kv) {
	cnt := map[kv]int{}
	for _, p := range want {
		cnt[p]++
	}
	for _, p := range have {
		if cnt[p] > 0 {
			cnt[p]--
		} else {
			extra = append(extra, p)
		}
	}
	for _, p := range want {
		if cnt[p] > 0 {
			cnt[p]--
			missing = append(missing, p)
		}
	}
	return
}

// ---------------------------------------------------------------------------
// root-cause classification

// source names the input path a variable is fed from, so that one defect in
// that path gives one signature whatever channel the case exercises.
func source(cs Case, sp varSpec) string {
	switch sp.name {
	case "ARGS_GET", "ARGS_GET_NAMES", "QUERY_STRING", "REQUEST_URI", "REQUEST_URI_RAW", "REQUEST_FILENAME", "REQUEST_BASENAME", "REQUEST_LINE":
		return "uri"
	case "REQUEST_HEADERS", "REQUEST_HEADERS_NAMES":
		return "header"
	case "REQUEST_COOKIES", "REQUEST_COOKIES_NAMES":
		return "cookie"
	case "ARGS", "ARGS_NAMES":
		return "args-concat" // ARGS_GET and ARGS_POST were as expected, their concatenation is not
	}
	return cs.Chan
}

func classify(cs Case, sp varSpec, missing, extra, have []kv, got map[string][]kv) string {
	procEmpty := len(got["REQBODY_PROCESSOR"]) == 0 || got["REQBODY_PROCESSOR"][0].v == ""
	src := source(cs, sp)
	nGet := 1
	if cs.Chan == "query" {
		nGet = len(cs.Items)
	}
	limited := src == "uri" && strings.HasPrefix(sp.name, "ARGS") && cs.Set.Limit > 0
	overLimit := limited && nGet > cs.Set.Limit
	kind := ""
	if len(extra) == 0 {
		switch {
		// arguments beyond SecArgumentsLimit vanish without any signal
		case overLimit:
			return "arglimit:get-arguments-over-SecArgumentsLimit-dropped-without-signal"
		case limited:
			return "arglimit:get-arguments-within-SecArgumentsLimit-dropped"
		// Content-Type with parameters does not select the urlencoded processor
		case cs.Chan == "urlenc" && src == "urlenc" && strings.HasPrefix(cs.CType, "charset") && procEmpty:
			return "ctype:urlencoded-content-type-with-parameter-selects-no-body-processor"
		case cs.Chan == "multipart" && sp.name == "FILES_SIZES" && sameFileName(cs, missing):
			return "files_sizes:files-with-the-same-file-name-keep-one-size"
		case cs.Chan == "json" && src == "json":
			if how := jsonCollision(cs, missing); how != "" {
				return "json:" + how
			}
		}
		kind = "missing" + siblings(cs, sp, missing, have)
	} else {
		hows, leftover, ok := explain(missing, extra)
		switch {
		case !ok && len(missing) == 0:
			kind = "unexpected-extra"
		case !ok:
			kind = ""
		default:
			kind = hows
			if len(leftover) > 0 && !overLimit {
				kind += "+missing"
			}
		}
	}
	if kind == "" {
		b, _ := jsonMarshal(cs)
		return "unclassified:" + src + "/" + sp.name + ":" + b
	}
	return src + "/" + sp.name + ":" + kind
}

// siblings refines "missing" by the narrowest relation between every missing
// item and the other items sent in the same collection.
func siblings(cs Case, sp varSpec, missing, have []kv) string {
	name := func(it Item) string {
		switch {
		case cs.Chan == "json":
			return jsonKey(cs, it)
		case sp.name == "FILES":
			return it.Sub
		}
		return it.Name
	}
	allSame, allFold := true, true
	for _, m := range missing {
		k := m.k
		if sp.mode != "kv" && sp.mode != "kvlower" {
			k = m.v
		}
		same, fold := 0, 0
		for _, it := range cs.Items {
			n := name(it)
			if sp.mode == "kvlower" || sp.mode == "nameslower" {
				n = strings.ToLower(n)
			}
			if n == k {
				same++
			} else if strings.EqualFold(n, k) {
				fold++
			}
		}
		survivor := false
		for _, h := range have {
			hk := h.k
			if sp.mode != "kv" && sp.mode != "kvlower" {
				hk = h.v
			}
			if strings.EqualFold(hk, k) {
				survivor = true
			}
		}
		if same < 2 || !survivor {
			allSame = false
		}
		if same+fold < 2 || !survivor {
			allFold = false
		}
	}
	switch {
	case len(cs.Items) < 2:
		return ""
	case allSame:
		return "-one-of-a-repeated-name"
	case allFold:
		return "-one-of-names-differing-in-case"
	}
	return ""
}

func jsonPrefix(cs Case) string {
	if cs.Style == "toparr" {
		return "json.0."
	}
	return "json."
}

func jsonKey(cs Case, it Item) string {
	k := jsonPrefix(cs) + it.Name
	switch it.Kind {
	case "n":
		k += "." + it.Sub
	case "l":
		k += ".0"
	case "e", "E":
		k += "\x00empty" // publishes nothing: never equal to a readable key
	}
	return k
}

// jsonCollision: every missing member shares its flattened key (exactly, or up
// to letter case) with another member of the object.
func jsonCollision(cs Case, missing []kv) string {
	exact, fold := 0, 0
	for _, m := range missing {
		ne, nf := 0, 0
		var keys []string
		for _, it := range cs.Items {
			keys = append(keys, jsonKey(cs, it))
			if it.Kind == "l" {
				keys = append(keys, jsonPrefix(cs)+it.Name) // the array-length entry coraza publishes
			}
		}
		for _, k := range keys {
			if k == m.k {
				ne++
			} else if strings.EqualFold(k, m.k) {
				nf++
			}
		}
		switch {
		case ne >= 2:
			exact++
		case nf >= 1:
			fold++
		default:
			return ""
		}
	}
	if exact > 0 {
		return "members-with-the-same-flattened-key-keep-one"
	}
	return "members-whose-keys-differ-only-in-case-keep-one"
}

func sameFileName(cs Case, missing []kv) bool {
	if len(missing) == 0 {
		return false
	}
	for _, m := range missing {
		n := 0
		for _, it := range cs.Items {
			if it.Kind == "F" && strings.EqualFold(it.Sub, m.k) {
				n++
			}
		}
		if n < 2 {
			return false
		}
	}
	return true
}

// explain accounts for every unexpected item by one missing item it derives
// from; leftover = missing items not used that way.
func explain(missing, extra []kv) (hows string, leftover []kv, ok bool) {
	used := make([]bool, len(missing))
	set := map[string]bool{}
	for _, e := range extra {
		best, bestRank, bestHow := -1, 99, ""
		for j, m := range missing {
			if used[j] {
				continue
			}
			h, r := "", ""
			switch {
			case m.k == e.k:
				if r = rel(m.v, e.v); r != "" {
					h = "value-" + r
				}
			case m.v == e.v:
				if r = rel(m.k, e.k); r != "" {
					h = "name-" + r
				}
			default:
				if a, b := rel(m.k, e.k), rel(m.v, e.v); a != "" && a == b && a != "altered" {
					h, r = "name-and-value-"+a, a
				}
			}
			if h == "" {
				continue
			}
			// prefer the most specific relation
			rank := 0
			switch r {
			case "truncated", "extended":
				rank = 1
			case "altered":
				rank = 2
			}
			if rank < bestRank {
				best, bestRank, bestHow = j, rank, h
			}
		}
		if best < 0 {
			return "", nil, false
		}
		used[best] = true
		set[bestHow] = true
	}
	for j, m := range missing {
		if !used[j] {
			leftover = append(leftover, m)
		}
	}
	l := make([]string, 0, len(set))
	for h := range set {
		l = append(l, h)
	}
	sort.Strings(l)
	return strings.Join(l, "+"), leftover, true
}

// rel names how the observed string b derives from the sent string a.
func rel(a, b string) string {
	switch {
	case a == b:
		return ""
	case b == unescapeOnce(a, true) || b == unescapeOnce(a, false):
		return "decoded-once-too-often"
	case a == unescapeOnce(b, true) || a == unescapeOnce(b, false):
		return "left-encoded"
	case strings.EqualFold(a, b):
		return "case-changed"
	case len(a) >= 2 && a[0] == '"' && a[len(a)-1] == '"' && b == a[1:len(a)-1]:
		return "quotes-stripped"
	case strings.ContainsAny(a, "/\\") && b == a[strings.LastIndexAny(a, "/\\")+1:]:
		return "directory-stripped"
	case strings.TrimSpace(a) == b:
		return "trimmed"
	case strings.HasPrefix(a, b):
		return "truncated"
	case strings.HasPrefix(b, a):
		return "extended"
	}
	return "altered"
}

// unescapeOnce: lenient percent (and optionally plus) decoding, written here so
// that the classifier does not depend on coraza's.
func unescapeOnce(s string, plus bool) string {
	var sb strings.Builder
	for i := 0; i < len(s); i++ {
		switch {
		case s[i] == '+' && plus:
			sb.WriteByte(' ')
		case s[i] == '%' && i+2 < len(s) && isHex(s[i+1]) && isHex(s[i+2]):
			n, _ := strconv.ParseUint(s[i+1:i+3], 16, 8)
			sb.WriteByte(byte(n))
			i += 2
		default:
			sb.WriteByte(s[i])
		}
	}
	return sb.String()
}
