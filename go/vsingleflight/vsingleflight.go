// Package vsingleflight is golang.org/x/sync/singleflight's Group.Do
// algorithm (mutex + per-key call with a wait group) written over the vsync
// shims so that its lock and wait operations are scheduling points.
package vsingleflight

import (
	"github.com/corazawaf/coraza/v3/internal/verif/vsync"
)

type call struct {
	wg   vsync.WaitGroup
	val  any
	err  error
	dups int
}

// Group shadows singleflight.Group.
type Group struct {
	mu vsync.Mutex
	m  map[string]*call
}

// Do executes fn once per key among concurrent callers.
func (g *Group) Do(key string, fn func() (any, error)) (v any, err error, shared bool) {
	g.mu.Lock()
	if g.m == nil {
		g.m = make(map[string]*call)
	}
	if c, ok := g.m[key]; ok {
		c.dups++
		g.mu.Unlock()
		c.wg.Wait()
		return c.val, c.err, true
	}
	c := new(call)
	c.wg.Add(1)
	g.m[key] = c
	g.mu.Unlock()

	func() {
		defer func() {
			g.mu.Lock()
			c.wg.Done()
			if g.m[key] == c {
				delete(g.m, key)
			}
			g.mu.Unlock()
		}()
		c.val, c.err = fn()
	}()
	return c.val, c.err, c.dups > 0
}

// Forget tells the group to forget about a key.
func (g *Group) Forget(key string) {
	g.mu.Lock()
	delete(g.m, key)
	g.mu.Unlock()
}
