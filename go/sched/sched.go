// Package sched is the controlled scheduler (DESIGN.md §2.3): the threads of
// a harness are goroutines of which exactly one runs at a time; a thread stops
// at every operation of the sync shims, and the explorer (package mc) decides
// which enabled thread continues. The hand-off uses plain loads and stores in
// //go:norace functions plus runtime.Gosched, i.e. nothing the race detector
// interprets as synchronisation, while the real primitive under each shim is
// still executed: every explored schedule is therefore also checked for
// happens-before data races by -race.
package sched

import (
	"fmt"
	"runtime"
	"strings"
	"sync"

	"github.com/corazawaf/coraza/v3/internal/verif/mc"
	"github.com/corazawaf/coraza/v3/internal/verif/vrt"
)

type thread struct {
	id    int
	cond  func() bool
	label string
	done  bool
	pan   string
}

// Result of one scheduled execution.
type Result struct {
	Deadlock string   // non-empty: description of the blocked threads
	Panics   []string // per thread ("" = none)
	Steps    int      // scheduling points passed
	Trace    []string // thread:label per step (bounded)
	Leaked   []string // functions that took a lock which is still held after every thread has returned
}

type abortT struct{}

type scheduler struct {
	cx      *mc.Ctx
	threads []*thread
	cur     int
	abort   bool
	res     Result
}

//go:norace
func (s *scheduler) turn() int { return s.cur }

//go:norace
func (s *scheduler) aborted() bool { return s.abort }

//go:norace
func (s *scheduler) waitTurn(id int) {
	for s.cur != id {
		if s.abort {
			panic(abortT{})
		}
		runtime.Gosched()
	}
	if s.abort {
		panic(abortT{})
	}
}

// pick chooses the next thread to run. self = the yielding thread (nil at
// start and at thread end). Returns false on deadlock or when all are done.
//
//go:norace
func (s *scheduler) pick(self *thread, label string) bool {
	var enabled []*thread
	selfEnabled := false
	if self != nil && !self.done && (self.cond == nil || self.cond()) {
		enabled = append(enabled, self)
		selfEnabled = true
	}
	alive := 0
	for _, t := range s.threads {
		if t.done {
			continue
		}
		alive++
		if t == self {
			continue
		}
		if t.cond == nil || t.cond() {
			enabled = append(enabled, t)
		}
	}
	if alive == 0 {
		return false
	}
	if len(enabled) == 0 {
		var sb strings.Builder
		for _, t := range s.threads {
			if !t.done {
				fmt.Fprintf(&sb, "T%d blocked at %s; ", t.id, t.label)
			}
		}
		s.res.Deadlock = sb.String()
		s.abort = true
		return false
	}
	cost := 0
	if selfEnabled {
		cost = 1 // switching away from a runnable thread is a preemption
	}
	ch := s.cx.ChooseCost(len(enabled), vrt.Sched, label, cost)
	next := enabled[ch]
	s.res.Steps++
	if len(s.res.Trace) < 400 {
		s.res.Trace = append(s.res.Trace, fmt.Sprintf("T%d", next.id))
	}
	s.cur = next.id
	return true
}

//go:norace
func (s *scheduler) self() *thread { return s.threads[s.cur] }

//go:norace
func (s *scheduler) setCond(t *thread, label string, c func() bool) { t.cond, t.label = c, label }

// Yield implements vrt.SchedHook.
func (s *scheduler) Yield(label string) { s.WaitUntil(label, nil) }

// WaitUntil implements vrt.SchedHook.
func (s *scheduler) WaitUntil(label string, cond func() bool) {
	if s.aborted() {
		panic(abortT{})
	}
	t := s.self()
	s.setCond(t, label, cond)
	if !s.pick(t, label) {
		panic(abortT{})
	}
	s.waitTurn(t.id)
	s.setCond(t, "", nil)
}

//go:norace
func (s *scheduler) finish(t *thread, pan string) {
	t.done = true
	t.pan = pan
	if s.abort {
		return
	}
	s.pick(nil, fmt.Sprintf("T%d ends", t.id))
}

// Run executes the bodies as controlled threads under cx. It must be called
// from inside an mc.Explore / mc.Replay body.
func Run(cx *mc.Ctx, bodies ...func()) Result {
	s := &scheduler{cx: cx, cur: -1}
	for i := range bodies {
		s.threads = append(s.threads, &thread{id: i})
	}
	prev := vrt.Scheduler
	vrt.Scheduler = s
	defer func() { vrt.Scheduler = prev }()
	vrt.ResetHeldLocks()
	var wg sync.WaitGroup
	for i, b := range bodies {
		wg.Add(1)
		go func(t *thread, body func()) {
			defer wg.Done()
			pan := ""
			func() {
				defer func() {
					if r := recover(); r != nil {
						if _, ok := r.(abortT); ok {
							return
						}
						if e, ok := r.(error); ok && strings.HasPrefix(e.Error(), "HARNESS-NONDETERMINISM") {
							pan = e.Error()
							return
						}
						pan = fmt.Sprintf("%v @ %s", r, frame())
					}
				}()
				s.waitTurn(t.id)
				body()
			}()
			s.finish(t, pan)
		}(s.threads[i], b)
	}
	s.pick(nil, "start")
	wg.Wait()
	for _, t := range s.threads {
		s.res.Panics = append(s.res.Panics, t.pan)
		if strings.HasPrefix(t.pan, "HARNESS-NONDETERMINISM") {
			panic(mc.Nondeterminism{Msg: t.pan})
		}
	}
	if s.res.Deadlock == "" {
		// every thread has returned: a lock that is still held was never released (a later user of it would block for ever)
		s.res.Leaked = vrt.HeldLocks()
	}
	return s.res
}

func frame() string {
	pcs := make([]uintptr, 64)
	n := runtime.Callers(4, pcs)
	frames := runtime.CallersFrames(pcs[:n])
	for {
		fr, more := frames.Next()
		if strings.Contains(fr.Function, "corazawaf/coraza/v3") && !strings.Contains(fr.Function, "/internal/verif/") {
			return fr.Function[strings.LastIndex(fr.Function, "/")+1:]
		}
		if !more {
			break
		}
	}
	return "?"
}
