// Package c17 decides C17: rule exclusions and updates equal the rewritten
// rule set (DESIGN.md §3 C17).
package c17

import (
	"encoding/json"
	"fmt"
	"sort"
	"strconv"
	"strings"
	"time"

	coraza "github.com/corazawaf/coraza/v3"
	"github.com/corazawaf/coraza/v3/internal/verif/runner"
	"github.com/corazawaf/coraza/v3/internal/verif/scen"
	"github.com/corazawaf/coraza/v3/internal/verif/vrt"
)

func init() {
	runner.Register(&runner.Check{
		ID:    "C17",
		Level: "exploration",
		Rule: "base rule set = 5 rules (ids 1-5, phase 2, tags, messages on some only, rule 4 a chain, a marker) over ARGS:a/b/c; directive = SecRuleRemoveById {1 id, list, range, mixed} / ByTag / ByMsg, SecRuleUpdateTargetById {1 id, list, range} x {!ARGS:k, !ARGS:/re/, ARGS:k added}, SecRuleUpdateTargetByTag, SecRuleUpdateActionById {1 id, list, range} x {deny, msg, setvar}, " +
			"and the run-time ctl:ruleRemoveById / ByTag / ByMsg / ruleRemoveTargetById / ByTag / ByMsg placed in phase 1, before, and after the affected rule; requests = all assignments of a,b,c in {absent,x,y}; every ordered pair of configuration-time directives (thorough: also every triple whose first member selects by the id forms 2, 2-3 or 1 3-4) against the rule set rewritten by all of them in that order. " +
			"Oracle: the outcome with the directive equals the outcome of the explicitly rewritten configuration (structured rewrite, not text); for ctl forms a second transaction on the same WAF that does not trigger the ctl equals the base rule set. " +
			"distinct_nontrivial = distinct (directive, request) for which the rewritten and the base configuration give different outcomes",
		Assumptions: []string{"the rewrite rules of go/c17 (remove = never contained; update target = target list extended; update action = disruptive replaced / msg replaced / others appended) restate the property"},
		Run:         run,
		Replay:      replay,
	})
}

type ruleD struct {
	ID      int      `json:"id"`
	Targets []string `json:"targets"`
	Tag     string   `json:"tag,omitempty"`
	Msg     string   `json:"msg,omitempty"`
	Disr    string   `json:"disr"` // pass | deny
	Extra   []string `json:"extra,omitempty"`
	Chain   []string `json:"chain,omitempty"` // targets of the chained link
	Op      string   `json:"op,omitempty"`    // operator (default @streq x)
}

func base() []ruleD {
	return []ruleD{
		{ID: 1, Targets: []string{"ARGS:a"}, Tag: "t1", Msg: "m1", Disr: "pass"},
		{ID: 2, Targets: []string{"ARGS:a", "ARGS:b"}, Tag: "t1", Msg: "m2", Disr: "pass"},
		{ID: 3, Targets: []string{"ARGS"}, Tag: "t2", Disr: "pass"},
		{ID: 4, Targets: []string{"ARGS:b"}, Tag: "t2", Msg: "m2", Disr: "pass", Chain: []string{"ARGS:c"}},
		{ID: 5, Targets: []string{"ARGS_GET:c", "REQUEST_COOKIES:c", "REQUEST_COOKIES:a"}, Disr: "pass"},
		// a counting target: removing the counted key leaves the count 0, which the operator still sees
		{ID: 6, Targets: []string{"&ARGS:a"}, Disr: "pass", Op: "@eq 0"},
	}
}

func (r ruleD) text() string {
	acts := []string{fmt.Sprintf("id:%d", r.ID), "phase:2", "log", r.Disr}
	if r.Disr == "deny" {
		acts = append(acts, "status:403")
	}
	if r.Tag != "" {
		acts = append(acts, "tag:"+r.Tag)
	}
	if r.Msg != "" {
		acts = append(acts, "msg:'"+r.Msg+"'")
	}
	acts = append(acts, r.Extra...)
	if r.Chain != nil {
		acts = append(acts, "chain")
	}
	op := r.Op
	if op == "" {
		op = "@streq x"
	}
	s := fmt.Sprintf("SecRule %s \"%s\" \"%s\"\n", strings.Join(r.Targets, "|"), op, strings.Join(acts, ","))
	if r.Chain != nil {
		s += fmt.Sprintf("  SecRule %s \"@streq x\" \"t:none\"\n", strings.Join(r.Chain, "|"))
	}
	return s
}

const header = "SecRuleEngine On\nSecRequestBodyAccess On\n"

func render(rules []ruleD, pre, post string) string {
	var sb strings.Builder
	sb.WriteString(header)
	sb.WriteString(pre)
	marked := false
	for _, r := range rules {
		if !marked && r.ID >= 3 {
			// the marker sits in front of rule 3 in every variant (not at a fixed index)
			sb.WriteString("SecMarker MID\n")
			marked = true
		}
		sb.WriteString(r.text())
	}
	sb.WriteString(post)
	// the final dump makes TX visible
	return sb.String()
}

// ---- directives ------------------------------------------------------------

type directive struct {
	Kind string `json:"kind"`
	IDs  string `json:"ids,omitempty"` // "2", "2 3", "2-3", "1 3-4"
	Tag  string `json:"tag,omitempty"`
	Msg  string `json:"msg,omitempty"`
	Arg  string `json:"arg,omitempty"`  // target or action text
	Arg2 string `json:"arg2,omitempty"` // a second target for the same selection (two directives / two ctl actions of one rule)
	// IDs2: a second id list / range removed by a second ctl action of the same rule (overlapping ranges)
	IDs2 string `json:"ids2,omitempty"`
	// TagBy: ids of the rules that get the tag Tag only through `SecRuleUpdateActionById <ids> "tag:<Tag>"` written after the rules
	TagBy string `json:"tag_by,omitempty"`
	Pos   string `json:"pos,omitempty"` // ctl placement: p1 | before | after
	Ctl   bool   `json:"ctl,omitempty"`
	// SkipBase: rule 1 of the base set carries skip:2, so that a removed rule inside the skip window is observable
	SkipBase bool `json:"skip_base,omitempty"`
	// SkipAfterBase: rule 1 carries skipAfter:MID (the marker in front of rule 3)
	SkipAfterBase bool `json:"skipafter_base,omitempty"`
}

func (d directive) base() []ruleD {
	b := base()
	if d.SkipBase {
		b[0].Extra = append(b[0].Extra, "skip:2") // window = the marker in front of rule 3 and one rule
	}
	if d.SkipAfterBase {
		b[0].Extra = append(b[0].Extra, "skipAfter:MID") // resumes at rule 3, whatever was removed in between
	}
	return b
}

func expandIDs(s string) map[int]bool {
	out := map[int]bool{}
	for _, f := range strings.Fields(s) {
		if a, b, ok := strings.Cut(f, "-"); ok {
			x, _ := strconv.Atoi(a)
			y, _ := strconv.Atoi(b)
			for i := x; i <= y; i++ {
				out[i] = true
			}
		} else {
			x, _ := strconv.Atoi(f)
			out[x] = true
		}
	}
	return out
}

func (d directive) selects(r ruleD) bool {
	switch {
	case d.IDs != "":
		return expandIDs(d.IDs)[r.ID] || (d.IDs2 != "" && expandIDs(d.IDs2)[r.ID])
	case d.Tag != "":
		return r.Tag == d.Tag || (d.TagBy != "" && expandIDs(d.TagBy)[r.ID])
	case d.Msg != "":
		return r.Msg == d.Msg
	}
	return false
}

// text renders the configuration-time directive.
func (d directive) text() string {
	switch d.Kind {
	case "removeById":
		return "SecRuleRemoveById " + d.IDs + "\n"
	case "removeByTag":
		return "SecRuleRemoveByTag " + d.Tag + "\n"
	case "removeByMsg":
		return "SecRuleRemoveByMsg " + d.Msg + "\n"
	case "updateTargetById":
		s := fmt.Sprintf("SecRuleUpdateTargetById %s \"%s\"\n", d.IDs, d.Arg)
		if d.Arg2 != "" {
			s += fmt.Sprintf("SecRuleUpdateTargetById %s \"%s\"\n", d.IDs, d.Arg2)
		}
		return s
	case "updateTargetByTag":
		return fmt.Sprintf("SecRuleUpdateTargetByTag %s \"%s\"\n", d.Tag, d.Arg)
	case "updateActionById":
		return fmt.Sprintf("SecRuleUpdateActionById %s \"%s\"\n", d.IDs, d.Arg)
	}
	return ""
}

// rewrite applies the directive to the structured rule set; from = index of
// the first rule affected (run-time forms only affect later evaluations).
func (d directive) rewrite(rules []ruleD, from int) []ruleD {
	var out []ruleD
	for i, r := range rules {
		if i < from || !d.selects(r) {
			out = append(out, r)
			continue
		}
		switch d.Kind {
		case "removeById", "removeByTag", "removeByMsg":
			continue
		case "updateTargetById", "updateTargetByTag", "removeTarget":
			nr := r
			nr.Targets = append(append([]string{}, r.Targets...), d.Arg)
			if d.Arg2 != "" {
				nr.Targets = append(nr.Targets, d.Arg2)
			}
			out = append(out, nr)
		case "updateActionById":
			nr := r
			switch {
			case strings.HasPrefix(d.Arg, "deny"):
				nr.Disr = "deny"
			case strings.HasPrefix(d.Arg, "msg:"):
				nr.Msg = strings.Trim(strings.TrimPrefix(d.Arg, "msg:"), "'")
			default:
				nr.Extra = append(append([]string{}, r.Extra...), d.Arg)
			}
			out = append(out, nr)
		}
	}
	return out
}

func directives(thorough bool) []directive {
	var ds []directive
	idForms := []string{"2", "2 3", "2-3", "1 3-4", "4", "4 5"}
	ds = append(ds, directive{Kind: "removeById", IDs: "2", SkipBase: true}, directive{Kind: "removeByTag", Tag: "t1", SkipBase: true})
	ds = append(ds, directive{Kind: "removeById", IDs: "2", SkipAfterBase: true}, directive{Kind: "removeByMsg", Msg: "m2", SkipAfterBase: true},
		directive{Kind: "removeById", IDs: "2-3", SkipAfterBase: true}, directive{Kind: "updateTargetById", IDs: "3", Arg: "!ARGS:a", SkipAfterBase: true})
	for _, ids := range idForms {
		ds = append(ds, directive{Kind: "removeById", IDs: ids})
		for _, tgt := range []string{"!ARGS:a", "!ARGS:/^b/", "ARGS:c", "!ARGS:B"} {
			ds = append(ds, directive{Kind: "updateTargetById", IDs: ids, Arg: tgt})
		}
		if ids == "4 5" {
			for _, tgt := range []string{"!ARGS_GET:c", "!REQUEST_COOKIES:c", "!REQUEST_COOKIES", "!REQUEST_COOKIES:/^C/"} {
				ds = append(ds, directive{Kind: "updateTargetById", IDs: ids, Arg: tgt})
			}
		}
		for _, act := range []string{"deny,status:403", "msg:'new'", "setvar:tx.u=+1"} {
			ds = append(ds, directive{Kind: "updateActionById", IDs: ids, Arg: act})
		}
	}
	for _, tag := range []string{"t1", "t2"} {
		ds = append(ds, directive{Kind: "removeByTag", Tag: tag})
		for _, tgt := range []string{"!ARGS:a", "ARGS:c", "!ARGS:/^b/"} {
			ds = append(ds, directive{Kind: "updateTargetByTag", Tag: tag, Arg: tgt})
		}
	}
	for _, msg := range []string{"m1", "m2"} {
		ds = append(ds, directive{Kind: "removeByMsg", Msg: msg})
	}
	ds = append(ds, directive{Kind: "updateTargetById", IDs: "6", Arg: "!ARGS:a"}, directive{Kind: "updateTargetById", IDs: "5-6", Arg: "!ARGS:a"})
	for _, ids := range []string{"3", "2-3"} {
		ds = append(ds, directive{Kind: "updateTargetById", IDs: ids, Arg: "!ARGS:/^a/", Arg2: "!ARGS:/^b/"},
			directive{Kind: "updateTargetById", IDs: ids, Arg: "!ARGS:/^b/", Arg2: "!ARGS"})
	}
	// run-time counterparts
	for _, pos := range []string{"p1", "before", "after", "p1-last"} {
		if pos != "after" {
			// a removed rule must not count for a preceding skip:N either
			ds = append(ds, directive{Ctl: true, Kind: "removeById", IDs: "2", Pos: pos, SkipBase: true})
			ds = append(ds, directive{Ctl: true, Kind: "removeById", IDs: "2-3", Pos: pos, SkipBase: true})
			ds = append(ds, directive{Ctl: true, Kind: "removeByTag", Tag: "t1", Pos: pos, SkipBase: true})
			ds = append(ds, directive{Ctl: true, Kind: "removeByMsg", Msg: "m2", Pos: pos, SkipBase: true})
		}
		for _, ids := range []string{"2", "2-3", "4"} {
			ds = append(ds, directive{Ctl: true, Kind: "removeById", IDs: ids, Pos: pos})
			for _, tgt := range []string{"ARGS:a", "ARGS:/^b/", "ARGS:B"} {
				ds = append(ds, directive{Ctl: true, Kind: "removeTarget", IDs: ids, Arg: tgt, Pos: pos})
			}
		}
		// overlapping id ranges removed by two ctl actions: the wider one first and second
		for _, pair := range [][2]string{{"1-4", "2-3"}, {"2-3", "1-4"}, {"2-4", "2"}, {"1-2", "2-5"}} {
			ds = append(ds, directive{Ctl: true, Kind: "removeById", IDs: pair[0], IDs2: pair[1], Pos: pos})
		}
		// a tag that the rules carry only through SecRuleUpdateActionById
		ds = append(ds, directive{Ctl: true, Kind: "removeByTag", Tag: "tnew", TagBy: "3", Pos: pos},
			directive{Ctl: true, Kind: "removeByTag", Tag: "tnew", TagBy: "2-4", Pos: pos},
			directive{Ctl: true, Kind: "removeTarget", Tag: "tnew", TagBy: "3", Arg: "ARGS:a", Pos: pos})
		// two removals for one rule and one collection: both regex keys, a regex key and the whole collection, two plain keys
		for _, ids := range []string{"3", "2-3"} {
			for _, pair := range [][2]string{{"ARGS:/^a/", "ARGS:/^b/"}, {"ARGS:/^b/", "ARGS"}, {"ARGS:a", "ARGS:b"}, {"ARGS:/^a/", "ARGS:b"}} {
				ds = append(ds, directive{Ctl: true, Kind: "removeTarget", IDs: ids, Arg: pair[0], Arg2: pair[1], Pos: pos})
			}
		}
		ds = append(ds, directive{Ctl: true, Kind: "removeTarget", Tag: "t2", Arg: "ARGS:/^a/", Arg2: "ARGS:/^b/", Pos: pos})
		// rule 6 counts ARGS:a: with the key (or the collection) removed it counts 0 and fires
		for _, tgt := range []string{"ARGS:a", "ARGS", "ARGS:b"} {
			ds = append(ds, directive{Ctl: true, Kind: "removeTarget", IDs: "6", Arg: tgt, Pos: pos})
		}
		// rule 5 reads three collection/key pairs: the removal names exactly one of them
		// (a regex key written with a capital letter on a collection whose keys are not case sensitive: the rewritten rule folds it)
		for _, tgt := range []string{"ARGS_GET:c", "REQUEST_COOKIES:c", "REQUEST_COOKIES:a", "ARGS_GET", "REQUEST_COOKIES", "REQUEST_COOKIES:/^C/", "ARGS_GET:/^C/"} {
			ds = append(ds, directive{Ctl: true, Kind: "removeTarget", IDs: "5", Arg: tgt, Pos: pos})
		}
		for _, tag := range []string{"t1", "t2"} {
			ds = append(ds, directive{Ctl: true, Kind: "removeByTag", Tag: tag, Pos: pos})
			ds = append(ds, directive{Ctl: true, Kind: "removeTarget", Tag: tag, Arg: "ARGS:a", Pos: pos})
		}
		for _, msg := range []string{"m1", "m2"} {
			ds = append(ds, directive{Ctl: true, Kind: "removeByMsg", Msg: msg, Pos: pos})
			ds = append(ds, directive{Ctl: true, Kind: "removeTarget", Msg: msg, Arg: "ARGS:b", Pos: pos})
		}
	}
	return ds
}

// ctlText renders the run-time action.
func (d directive) ctlText() string {
	sel := d.IDs
	by := "ById"
	if d.Tag != "" {
		sel, by = d.Tag, "ByTag"
	} else if d.Msg != "" {
		sel, by = d.Msg, "ByMsg"
	}
	switch d.Kind {
	case "removeById", "removeByTag", "removeByMsg":
		if d.IDs2 != "" {
			return fmt.Sprintf("ctl:ruleRemove%s=%s,ctl:ruleRemove%s=%s", by, sel, by, d.IDs2)
		}
		return fmt.Sprintf("ctl:ruleRemove%s=%s", by, sel)
	case "removeTarget":
		s := fmt.Sprintf("ctl:ruleRemoveTarget%s=%s;%s", by, sel, d.Arg)
		if d.Arg2 != "" {
			s += fmt.Sprintf(",ctl:ruleRemoveTarget%s=%s;%s", by, sel, d.Arg2)
		}
		return s
	}
	return ""
}

// ctlConfigs returns (configuration with the ctl rule, rewritten configuration).
func (d directive) ctlConfigs() (string, string) {
	rules := d.base()
	phase, idx := 2, 0
	switch d.Pos {
	case "p1", "p1-last":
		// p1-last: the phase-1 ctl rule is written after all the rules it affects (evaluation goes phase by phase,
		// so it still runs before every phase-2 rule)
		phase, idx = 1, 0
	case "before":
		idx = 0
	case "after":
		idx = 3 // the ctl rule sits after rule 3: only rules 4 and 5 are affected
	}
	ctlRule := fmt.Sprintf("SecRule REQUEST_HEADERS:X-Ctl \"@streq 1\" \"id:90,phase:%d,pass,nolog,%s\"\n", phase, d.ctlText())
	build := func(rs []ruleD, withCtl bool) string {
		var sb strings.Builder
		sb.WriteString(header)
		marked := false
		for _, r := range rs {
			if !marked && r.ID >= 3 {
				sb.WriteString("SecMarker MID\n")
				marked = true
			}
			if withCtl && r.ID == firstIDAt(idx) && d.Pos != "p1-last" {
				sb.WriteString(ctlRule)
			}
			sb.WriteString(r.text())
		}
		if withCtl && d.Pos == "p1-last" {
			sb.WriteString(ctlRule)
		}
		if d.TagBy != "" {
			// the tag reaches the rules only now, after they were added
			fmt.Fprintf(&sb, "SecRuleUpdateActionById %s \"tag:%s\"\n", d.TagBy, d.Tag)
		}
		return sb.String()
	}
	dd := d
	if d.Kind == "removeTarget" {
		dd.Arg = "!" + d.Arg
		if d.Arg2 != "" {
			dd.Arg2 = "!" + d.Arg2
		}
	}
	rew := dd.rewrite(rules, idx)
	// the rewritten configuration keeps a no-op rule 90 at the same place so that ids line up
	noop := fmt.Sprintf("SecRule REQUEST_HEADERS:X-Ctl \"@streq 1\" \"id:90,phase:%d,pass,nolog\"\n", phase)
	var sb strings.Builder
	sb.WriteString(header)
	placed := false
	marked := false
	for _, r := range rew {
		if !marked && r.ID >= 3 {
			sb.WriteString("SecMarker MID\n")
			marked = true
		}
		if !placed && r.ID >= firstIDAt(idx) {
			sb.WriteString(noop)
			placed = true
		}
		sb.WriteString(r.text())
	}
	if !placed {
		sb.WriteString(noop)
	}
	return build(rules, true), sb.String()
}

func firstIDAt(idx int) int { return base()[idx].ID }

// ---- requests ---------------------------------------------------------------

func requests() []scen.Req {
	var out []scen.Req
	vals := []string{"", "x", "y"}
	for _, a := range vals {
		for _, b := range vals {
			for _, c := range vals {
				var parts []string
				if a != "" {
					parts = append(parts, "a="+a)
				}
				if b != "" {
					parts = append(parts, "b="+b)
				}
				if c != "" {
					parts = append(parts, "c="+c)
				}
				uri := "/p"
				if len(parts) > 0 {
					uri += "?" + strings.Join(parts, "&")
				}
				out = append(out, scen.Req{URI: uri})
				if b == "" {
					// the same names also as cookies: a target removal on one collection of a rule must not touch the others
					out = append(out, scen.Req{URI: uri, Headers: [][2]string{{"Cookie", "c=x; a=x"}}})
				}
			}
		}
	}
	return out
}

func outcome(w coraza.WAF, rq scen.Req) string {
	o := scen.Run(w, rq, scen.Options{Vars: true})
	var sb strings.Builder
	if o.Panic != "" {
		fmt.Fprintf(&sb, "PANIC %s\n", o.Panic)
	}
	fmt.Fprintf(&sb, "itr=%s\n", o.Interruption)
	for _, m := range o.Matched {
		ds := append([]string{}, m.Datas...)
		sort.Strings(ds)
		fmt.Fprintf(&sb, "rule %d %q msg=%q\n", m.ID, ds, m.Msg)
	}
	for _, e := range o.Vars["TX/TX"] {
		if strings.HasPrefix(e, "u=") {
			fmt.Fprintf(&sb, "TX %s\n", e)
		}
	}
	return sb.String()
}

type kase struct {
	D    directive   `json:"directive"`
	Then []directive `json:"then,omitempty"` // further configuration-time directives applied after D, in order
	Req  int         `json:"req"`
}

func (d directive) sig() string {
	s := d.Kind
	if d.Ctl {
		s = "ctl:" + s + ":" + d.Pos
	}
	if d.SkipBase {
		s += ":inside-skip-window"
	}
	if d.SkipAfterBase {
		s += ":before-skipAfter-marker"
	}
	form := "single"
	switch {
	case strings.Contains(d.IDs, " "):
		form = "list"
	case strings.Contains(d.IDs, "-"):
		form = "range"
	case d.Tag != "":
		form = "tag"
	case d.Msg != "":
		form = "msg"
	}
	arg := ""
	switch {
	case strings.HasPrefix(d.Arg, "!"):
		arg = ":exclusion"
	case strings.HasPrefix(d.Arg, "ARGS"):
		arg = ":addition"
	case d.Arg != "":
		arg = ":" + strings.SplitN(d.Arg, ":", 2)[0]
	}
	if d.Ctl && d.Kind == "removeTarget" {
		arg = ""
		if strings.Contains(d.Arg, "/") {
			arg = ":regex-key"
		}
	}
	if d.Arg2 != "" {
		arg += ":two-targets"
	}
	if d.IDs2 != "" {
		arg += ":two-overlapping-ranges"
	}
	if d.TagBy != "" {
		arg += ":tag-added-by-update"
	}
	return s + ":" + form + arg
}

func checkDirective(c *runner.Ctx, d directive, report func(sig, text string, k kase)) {
	defer c.Watch("directive", kase{D: d}, 3*time.Minute)()
	reqs := requests()
	var confD, confR string
	if d.Ctl {
		confD, confR = d.ctlConfigs()
	} else {
		confD = render(d.base(), "", d.text())
		confR = render(d.rewrite(d.base(), 0), "", "")
	}
	confB := render(d.base(), "", "")
	wD, err := scen.Build(confD)
	if err != nil {
		report(d.sig()+":rejected-or-panics", "configuration with the directive does not build: "+err.Error()+"\n"+confD, kase{D: d})
		return
	}
	defer scen.Close(wD)
	wR, err := scen.Build(confR)
	if err != nil {
		report("harness:rewritten-config-rejected", err.Error()+"\n"+confR, kase{D: d})
		return
	}
	defer scen.Close(wR)
	wB, err := scen.Build(confB)
	if err != nil {
		report("harness:base-config-rejected", err.Error(), kase{D: d})
		return
	}
	defer scen.Close(wB)
	for ri, rq := range reqs {
		if d.Ctl {
			rq.Headers = append(rq.Headers, [2]string{"X-Ctl", "1"})
		}
		c.Count("evaluations", 1)
		got, want := outcome(wD, rq), outcome(wR, rq)
		baseOut := outcome(wB, rq)
		c.Outcome(got)
		if want != strings.ReplaceAll(baseOut, "", "") && stripCtl(want) != stripCtl(baseOut) {
			b, _ := json.Marshal(kase{D: d, Req: ri})
			c.Distinct(string(b))
			if c.WantSample() {
				c.Sample(map[string]any{"config_with_directive": confD, "rewritten_config": confR, "request": rq.URI, "outcome": want})
			}
		}
		if stripCtl(got) != stripCtl(want) {
			report(d.sig(), fmt.Sprintf("request %s\n--- configuration with the directive:\n%s%s--- explicitly rewritten configuration:\n%s%s", rq.URI, confD, got, confR, want), kase{D: d, Req: ri})
		}
		if d.Ctl {
			// a second transaction on the same WAF - served by the transaction object the first one returned
			// to the pool - that does not trigger the ctl behaves like the base set
			plain := reqs[ri]
			vrt.PoolMode = 1
			_ = outcome(wD, rq)
			got2 := outcome(wD, plain)
			vrt.PoolMode = 0
			want2 := outcome(wB, plain)
			if stripCtl(got2) != stripCtl(want2) {
				report(d.sig()+":leaks-into-next-transaction", fmt.Sprintf("request %s (after a transaction that executed %s)\n--- same WAF:\n%s--- base rule set:\n%s", plain.URI, d.ctlText(), got2, want2), kase{D: d, Req: ri})
			}
		}
	}
}

// stripCtl drops the helper rule 90 from an outcome.
func stripCtl(s string) string {
	var out []string
	for _, l := range strings.Split(s, "\n") {
		if strings.HasPrefix(l, "rule 90 ") {
			continue
		}
		out = append(out, l)
	}
	return strings.Join(out, "\n")
}

// selectsAny says whether d selects a rule of rs.
func (d directive) selectsAny(rs []ruleD) bool {
	for _, r := range rs {
		if d.selects(r) {
			return true
		}
	}
	return false
}

// checkSeq applies configuration-time directives one after the other: the result must equal the rule set
// rewritten by all of them, in that order (each directive works on what the previous ones left).
func checkSeq(c *runner.Ctx, ds []directive, report func(sig, text string, k kase)) {
	defer c.Watch("directives", kase{D: ds[0], Then: ds[1:]}, 3*time.Minute)()
	rew := base()
	text := ""
	var sigs []string
	for i, d := range ds {
		if i > 0 && !d.selectsAny(rew) {
			// what a directive that selects nothing does (error or warning) is C16/C07's ground
			c.Count("sequences_with_a_member_that_selects_nothing", 1)
			return
		}
		rew = d.rewrite(rew, 0)
		text += d.text()
		sigs = append(sigs, d.sig())
	}
	k := kase{D: ds[0], Then: ds[1:]}
	confD := render(base(), "", text)
	confR := render(rew, "", "")
	sig := "sequence:" + strings.Join(sigs, "+")
	wD, err := scen.Build(confD)
	if err != nil {
		report(sig+":rejected-or-panics", "configuration with the directives does not build: "+err.Error()+"\n"+confD, k)
		return
	}
	defer scen.Close(wD)
	wR, err := scen.Build(confR)
	if err != nil {
		report("harness:rewritten-config-rejected", err.Error()+"\n"+confR, k)
		return
	}
	defer scen.Close(wR)
	for ri, rq := range requests() {
		c.Count("evaluations", 1)
		got, want := outcome(wD, rq), outcome(wR, rq)
		c.Outcome(got)
		if ri == 0 {
			b, _ := json.Marshal(k)
			c.Distinct(string(b))
		}
		if got != want {
			k.Req = ri
			report(sig, fmt.Sprintf("request %s\n--- configuration with the directives:\n%s%s--- explicitly rewritten configuration:\n%s%s", rq.URI, confD, got, confR, want), k)
		}
	}
}

func configTimeDirectives() []directive {
	var out []directive
	for _, d := range directives(true) {
		if !d.Ctl && !d.SkipBase && !d.SkipAfterBase {
			out = append(out, d)
		}
	}
	return out
}

func run(c *runner.Ctx) {
	idx := 0
	for _, d := range directives(c.Thorough()) {
		idx++
		if !c.Mine(idx) || c.Expired() {
			continue
		}
		checkDirective(c, d, func(sig, text string, k kase) { c.Violation(sig, text, k) })
	}
	// every ordered pair of configuration-time directives; thorough: also every triple whose first member
	// selects by the id forms "2", "2-3" or "1 3-4" (the sets later members overlap with most)
	cts := configTimeDirectives()
	for _, d1 := range cts {
		for _, d2 := range cts {
			idx++
			if c.Mine(idx) && !c.Expired() {
				c.Count("pairs", 1)
				checkSeq(c, []directive{d1, d2}, func(sig, text string, k kase) { c.Violation(sig, text, k) })
			}
			if !c.Thorough() || !(d1.IDs == "2" || d1.IDs == "2-3" || d1.IDs == "1 3-4") {
				continue
			}
			for _, d3 := range cts {
				idx++
				if c.Mine(idx) && !c.Expired() {
					c.Count("triples", 1)
					checkSeq(c, []directive{d1, d2, d3}, func(sig, text string, k kase) { c.Violation(sig, text, k) })
				}
			}
		}
	}
	if c.Expired() {
		c.Incomplete("sequences of directives cut by the deadline")
	}
}

func replay(raw json.RawMessage) (bool, string) {
	var k kase
	if err := json.Unmarshal(raw, &k); err != nil {
		return false, err.Error()
	}
	c := &runner.Ctx{}
	_ = c
	var sb strings.Builder
	viol := false
	rc := runner.NewCtxForReplay()
	if len(k.Then) > 0 {
		checkSeq(rc, append([]directive{k.D}, k.Then...), func(sig, text string, kk kase) {
			if kk.Req != k.Req {
				return
			}
			viol = true
			fmt.Fprintf(&sb, "VIOLATED %s\n%s\n", sig, text)
		})
		return viol, sb.String()
	}
	checkDirective(rc, k.D, func(sig, text string, kk kase) {
		if kk.Req != k.Req {
			return
		}
		viol = true
		fmt.Fprintf(&sb, "VIOLATED %s\n%s\n", sig, text)
	})
	return viol, sb.String()
}
